"""./check <ID> [--tier quick|thorough] [--replay file] | --setup | --all"""
import argparse
import importlib
import json
import os
import sys
import time

HERE = os.path.dirname(os.path.abspath(__file__))
sys.path.insert(0, HERE)
import common  # noqa: E402
from common import REPO, VERIF  # noqa: E402

PROPS = ["C%02d" % i for i in range(1, 21)]


def setup():
    with common.coq_lock():
        rep = common.run_translator()
        common.write_coq_project()
        ok, log = common.make(["all"], timeout=3000, keep_going=True)
    bad = common.grep_forbidden()
    print(json.dumps({k: v["status"] for k, v in rep.items()}, indent=1))
    if bad:
        print("FORBIDDEN constructs:\n" + "\n".join(bad))
    if not ok:
        print(log[-5000:])
    print("setup", "ok" if ok and not bad else "FAILED")
    return 0 if ok and not bad else 1


def assert_repo():
    sys.path.insert(0, REPO)
    import statham

    real = os.path.realpath(statham.__file__)
    assert real.startswith(os.path.realpath(REPO) + os.sep), (real, REPO)


def run_check(prop, tier, seed, replay):
    assert_repo()
    mod = importlib.import_module("props." + prop.lower())
    build = common.build_for(prop)
    res = mod.run(tier, seed, replay)
    res.t0 = min(res.t0, T0)
    forb = common.grep_forbidden()
    # --- classify -----------------------------------------------------------
    findings = common.load_findings(prop)
    real = []
    for payload, no_input in res.violations:
        fid = payload.get("finding")
        listed = next((f for f in findings if f["id"] == fid and f.get("status") == "finding"), None) if fid else None
        if listed:
            res.known_finding(fid, listed["what"])
        else:
            real.append((payload, no_input))
    res.violations = real
    # every listed finding prints its line when its witness still fails
    for f in findings:
        if f.get("status") == "finding" and f["id"] not in res.known and getattr(res, "witness_status", {}).get(f["id"]) == "fails":
            res.known_finding(f["id"], f["what"])
    broken = []
    if not build["model_ok"]:
        broken.append({"obligation": "model build", "log": build["model_log"]})
    if not build["proof_ok"]:
        broken.append({"obligation": "coq/Properties/%s.v (theorems %s) or a generated-table agreement lemma it depends on no longer checks" % (prop, build["theorems"]),
                       "log": build["proof_log"]})
    if forb:
        broken.append({"obligation": "no Admitted/Axiom/Parameter in the development", "log": "\n".join(forb)})
    a = build.get("assumptions", {})
    if build["proof_ok"] and a and not a.get("all_closed", False):
        declared_ok = all(b == "closed" or all(ax.split(":")[0].strip() in ALLOWED_AXIOMS for ax in b) for b in a.get("blocks", []))
        if not declared_ok:
            broken.append({"obligation": "Print Assumptions lists an axiom outside the declared trusted base", "log": json.dumps(a)})
    corr_err = getattr(res, "corr_error", None)
    corr_mis = getattr(res, "corr_mismatches", [])
    if corr_err:
        broken.append({"obligation": "correspondence run (model could not be evaluated)", "log": corr_err})
    if corr_mis:
        broken.append({"obligation": "correspondence model-vs-implementation (%d disagreeing cases)" % len(corr_mis),
                       "first_cases": corr_mis[:3]})
    if broken and not res.violations:
        res.violation({"property": prop, "kind": "proof-or-correspondence-broken", "broken": broken,
                       "searched": "corpus + generated stream of this tier (%d evaluations) through the direct oracle: no failing input" % res.evaluations,
                       "tier": tier, "seed": seed}, no_input=True)
    elif broken:
        res.notes.append({"also_broken": [b["obligation"] for b in broken]})
    res.coverage["correspondence_mismatches"] = len(corr_mis)
    code = common.finish(res, build)
    return code


ALLOWED_AXIOMS = set()
T0 = time.time()


def main():
    ap = argparse.ArgumentParser()
    ap.add_argument("prop", nargs="?")
    ap.add_argument("--tier", default=os.environ.get("VERIF_TIER", "quick"))
    ap.add_argument("--replay")
    ap.add_argument("--setup", action="store_true")
    args = ap.parse_args()
    if args.tier not in ("quick", "thorough"):
        args.tier = "quick"
    seed = int(os.environ.get("VERIF_SEED", "20260926"))
    try:
        if args.setup:
            return setup()
        if args.prop not in PROPS:
            ap.error("unknown property")
        try:
            return run_check(args.prop, args.tier, seed, args.replay)
        except Exception:  # the harness itself failed: the property is not shown to hold on this tree
            import traceback
            tb = traceback.format_exc()
            res = common.Result(args.prop, args.tier, seed)
            res.t0 = T0
            res.violation({"property": args.prop, "kind": "harness-exception",
                           "what": "the check could not complete on this tree (an observation the harness relies on raised); "
                                   "no theorem or correspondence result was obtained", "traceback": tb[-4000:]}, no_input=True)
            res.count("harness-exception")
            res.count("harness-exception-2")
            sys.stderr.write(tb)
            return common.finish(res, None)
    finally:
        common.cleanup_work()


if __name__ == "__main__":
    sys.exit(main())
