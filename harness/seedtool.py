"""Verify seeded changes produced by sub-agents and store them under /verif/seeded/<id>/.

usage: seedtool.py harvest /tmp/seed          (verify every /tmp/seed/Cxx/seeded_out/mutant*/ and copy)
       seedtool.py run [ids...]               (apply each stored patch to /repo, run the property's quick check, undo)
"""
import json
import os
import re
import shutil
import subprocess
import sys

VERIF = os.path.dirname(os.path.dirname(os.path.abspath(__file__)))
REPO = os.environ.get("VERIF_REPO", "/repo")
PY = "/venv/bin/python"


def sh(cmd, cwd=None, env=None, timeout=1800):
    p = subprocess.run(cmd, shell=True, cwd=cwd, env=env, capture_output=True, text=True, timeout=timeout)
    return p.returncode, p.stdout + p.stderr


def verify(patch, demo, wt):
    env = dict(os.environ, PYTHONPATH=wt, PYTHONDONTWRITEBYTECODE="1")
    sh("git checkout -- . && git clean -fdq -e seeded_out", cwd=wt)
    rc0, out0 = sh("%s %s" % (PY, demo), cwd=wt, env=env, timeout=600)
    rc, out = sh("git apply %s" % patch, cwd=wt)
    if rc != 0:
        return {"ok": False, "why": "patch does not apply: " + out[-300:]}
    rc1, out1 = sh("%s %s" % (PY, demo), cwd=wt, env=env, timeout=600)
    rct, outt = sh("%s -m pytest -q -p no:cacheprovider --timeout=900 --continue-on-collection-errors 2>&1 | tail -3" % PY, cwd=wt, env=env)
    sh("git checkout -- . && git clean -fdq -e seeded_out", cwd=wt)
    m = re.search(r"(\d+) passed", outt)
    passed = int(m.group(1)) if m else -1
    failed = re.search(r"(\d+) failed", outt)
    ok = rc0 == 0 and rc1 != 0 and passed == 1008 and not failed
    return {"ok": ok, "demo_clean_exit": rc0, "demo_patched_exit": rc1, "tests_patched": outt.strip().splitlines()[-1] if outt.strip() else "",
            "demo_patched_tail": out1[-400:]}


def harvest(root):
    wt = "/tmp/seedverify"
    sh("git -C %s worktree remove --force %s" % (REPO, wt))
    rc, out = sh("git -C %s worktree add -q --detach %s HEAD" % (REPO, wt))
    assert rc == 0, out
    report = {}
    try:
        for pid in sorted(os.listdir(root)):
            d = os.path.join(root, pid, "seeded_out")
            if not os.path.isdir(d):
                continue
            for mut in sorted(os.listdir(d)):
                md = os.path.join(d, mut)
                patch, demo = os.path.join(md, "patch.diff"), os.path.join(md, "demo.py")
                if not (os.path.isdir(md) and os.path.exists(patch) and os.path.exists(demo)):
                    continue
                r = verify(patch, demo, wt)
                sid = "%s-%s" % (pid, mut.replace("mutant", ""))
                report[sid] = r
                print(sid, r["ok"], r.get("tests_patched"), flush=True)
                if r["ok"]:
                    dst = os.path.join(VERIF, "seeded", sid)
                    os.makedirs(dst, exist_ok=True)
                    shutil.copy(patch, os.path.join(dst, "patch.diff"))
                    shutil.copy(demo, os.path.join(dst, "demo.py"))
                    notes = os.path.join(md, "NOTES.md")
                    if os.path.exists(notes):
                        shutil.copy(notes, os.path.join(dst, "NOTES.md"))
                    meta = {"property": pid, "seed_id": sid,
                            "needs_to_manifest": "see NOTES.md (written by the sub-agent that produced the change)",
                            "verified": {"repo_commit": sh("git -C %s rev-parse --short HEAD" % REPO)[1].strip(),
                                         "demo_exit_on_clean_tree": r["demo_clean_exit"], "demo_exit_with_patch": r["demo_patched_exit"],
                                         "test_suite_with_patch": r["tests_patched"],
                                         "how": "scratch worktree /tmp/seedverify (removed afterwards): demo on clean tree, git apply patch.diff, demo, full pytest baseline command"},
                            "detected_by": None}
                    with open(os.path.join(dst, "meta.json"), "w") as f:
                        json.dump(meta, f, indent=1)
    finally:
        sh("git -C %s worktree remove --force %s" % (REPO, wt))
    print(json.dumps({k: v["ok"] for k, v in report.items()}))


def run(ids):
    base = os.path.join(VERIF, "seeded")
    todo = ids or sorted(os.listdir(base))
    rc, out = sh("git -C %s status --porcelain --untracked-files=no" % REPO)
    assert not out.strip(), "repo not clean: " + out
    for sid in todo:
        d = os.path.join(base, sid)
        meta = json.load(open(os.path.join(d, "meta.json")))
        props = meta.get("check_with") or [meta["property"]]
        rc, out = sh("git -C %s apply %s" % (REPO, os.path.join(d, "patch.diff")))
        if rc != 0:
            print(sid, "PATCH DOES NOT APPLY", out[-200:])
            continue
        # evidence written while a seeded change is applied must never be left behind (or committed)
        ev_dir = os.path.join(VERIF, "evidence")
        saved = {f: open(os.path.join(ev_dir, f), "rb").read() for f in os.listdir(ev_dir)}
        try:
            results = {}
            for p in props:
                if not os.path.exists(os.path.join(VERIF, "harness", "props", p.lower() + ".py")):
                    results[p] = "no check yet"
                    continue
                rc, out = sh("./check %s --tier quick" % p, cwd=VERIF, timeout=3600)
                viol = [l for l in out.splitlines() if l.startswith("VIOLATION")]
                results[p] = {"exit": rc, "violations": viol[:3]}
        finally:
            sh("git -C %s checkout -- ." % REPO)
            for f in os.listdir(ev_dir):
                if f not in saved:
                    os.remove(os.path.join(ev_dir, f))
            for f, blob in saved.items():
                with open(os.path.join(ev_dir, f), "wb") as fh:
                    fh.write(blob)
        caught = [p for p, r in results.items() if isinstance(r, dict) and r["exit"] == 1 and r["violations"]]
        meta["detected_by"] = caught
        meta["last_run"] = results
        with open(os.path.join(d, "meta.json"), "w") as f:
            json.dump(meta, f, indent=1)
        print(sid, "CAUGHT by %s" % caught if caught else "MISSED", json.dumps(results)[:300], flush=True)


if __name__ == "__main__":
    if sys.argv[1] == "harvest":
        harvest(sys.argv[2])
    else:
        run(sys.argv[2:])
