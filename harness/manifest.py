"""Regenerate /verif/MANIFEST.json from the table below (python3 harness/manifest.py)."""
import json
import os

VERIF = os.path.dirname(os.path.dirname(os.path.abspath(__file__)))

BASE_NOTE = ("Trusted: Coq 8.16.1 kernel incl. vm_compute (no native_compute); no axioms declared (Print Assumptions of every "
             "property theorem is parsed on every run and must be closed or within the stdlib axioms named in DESIGN.md section 5); "
             "harness/translate.py (regenerates coq/Generated/*.v from /repo on every run); the correspondence harness (model "
             "evaluated inside Coq by vm_compute on the same inputs as the implementation); the modelled Python semantics and "
             "oracles of DESIGN.md section 3.")

# id -> (claimed?, technique, level text, extra note)
CHECKS = {
    "C01": ("Coq theorems by induction on the schema (C01_validity_plain, C01_validity_classes, C01_validity_classes_revisits, C01_parser_replay: parse_element then call = Spec6.v6 / valid6, all keywords, any nesting, object classes with the parse state threaded) + generated-table agreement + vm_compute correspondence of model, Draft-6 reference and implementation",
            "C01_validity_plain (class-free fragment, any parse state) and C01_validity_classes (schemas with named object classes whose names do not repeat along the parse, so de-duplication "
            "returns each class itself): for every schema of the fragment (C01Plain.plain / walk, decided by the executable Plain.in_fragment proved sound), every value, regex/format oracle "
            "and configuration whose composition order is exactly the three list-valued keywords (proved of the regenerated table), the element returned by the model parser accepts exactly "
            "when the Draft-6 reading of the raw schema (Spec6.v6, one clause per keyword; valid6 = with the documented required-with-default waiver on typed objects) holds and raises the "
            "validation error exactly when it does not, unless the call crashes; covers type (incl. lists), enum/const, all thresholds, multipleOf, pattern, format, "
            "items/additionalItems/contains/uniqueItems, properties/patternProperties/additionalProperties/required/propertyNames/dependencies, anyOf/oneOf/allOf/not and their restructuring, "
            "ObjectMeta classes.  The model is tied to the code by regenerated tables and by running model, reference and implementation on the same (schema, value) cases; the run "
            "reports on how many cases each theorem applies (quick tier: 336 of 423 schemas).  C01_validity_classes_revisits extends the class theorem to schema objects met again (one definition "
            "in several positions after $ref resolution: walk2, decided by Plain2.in_fragment2): by C01_parser_replay (the parse state only grows, and re-parsing a schema in any extension of the state "
            "returns the same element and adds nothing) the parser returns the element built the first time; premise on the run: the classes of the final state are == to themselves (refl_stateb).",
            "full on the fragment (about four fifths of the generated cases); outside it (two DIFFERENT object schemas under one title - de-duplication compares with == and == is not a verdict congruence, K17; "
            "colliding attribute names K1; undeclared required names K5; type lists containing 'object') the verdicts are decided by the correspondence run and the Spec6 oracle only"),
    "C11": ("Coq theorems: end-to-end orderer() on identity graphs (C11_end_to_end: self-reaching class => schema-parse error, else a complete topological order), exact reachability and termination of get_children, soundness/totality of the emission loop on all finite maps + regenerated paths table + vm_compute correspondence on identity graphs with the theorem's premises (wf_graphb, boundedb) evaluated per graph",
            "orderer() is proved end to end on the identity-graph model: get_children terminates and yields exactly the reachable nodes (shared seen set, cycles, sharing), the dependency map it "
            "builds is closed, a class reaching itself is refused with the schema-parse error and nothing else, and otherwise the order lists every class once with everything a class reaches before it "
            "(unique class names = the routine's documented precondition); any order returned is sound even without that precondition for direct references. "
            "The identity graph of a live element tree (_get_path, isinstance) is tied to the code by the generated paths table and by running the model on the graph of random element trees.",
            "full for orderer() on the identity-graph model (loop, enumeration, closure); extraction of the graph from live elements by correspondence"),
    "C20": ("Coq theorem by induction on the schema (parse_element returns an element => no refused keyword at any interpreted position), refused set and composition order regenerated from /repo, vm_compute correspondence + planting oracle",
            "C20_never_silently_ignored / C20_document are proved for every schema, nesting depth, parse state and Unicode oracle over the refused set and the "
            "composition-keyword order that the translator reads from /repo on every run; the model parser is tied to the code by running both on planted schemas; "
            "recursive documents are exercised through the real main() (materialize and the recursion limit are runtime).",
            "full for keywords (safety half proved; the error kind is checked by correspondence and the planting oracle); cycles partial"),
    "C16": ("Coq theorems by induction over registration/check histories (last registration wins; checks are reads) + element-level verdict theorems + vm_compute correspondence of random histories",
            "The registry state machine (Format.v) is proved, for every history and initial registry, to answer a check with the most recently registered "
            "checker, to accept-and-warn on unregistered names and to ignore non-strings; String(format=n)/Element(format=n) verdicts are proved for every "
            "oracle and value; the model is tied to the code by replaying random histories with recording checkers on both sides and by the generated Format "
            "validator row.  The built-in uuid/date-time acceptance claim is about uuid.UUID and dateutil (third-party, not modelled): enumerated as a test.",
            "registry full; built-ins partial (test only; finding C16-K7 recorded)"),
    "C18": ("Coq theorem about custom_repr_args over ANY attribute valuation and value domain (arguments bind back through the signature to ==-equal attributes; a keyword is printed iff it differs from its default), instantiated on the signatures regenerated from /repo + vm_compute correspondence of repr shapes + eval(repr(x)) oracle",
            "C18_roundtrip/C18_minimal are proved for every constructor signature the translator reads from /repo (13 classes incl. the property wrapper) and every "
            "attribute valuation; C18_signature_shapes is the premise on the code (re-proved by computation each run).  The tie: repr shapes of random DSL trees "
            "computed by Repr.repr_shape in Coq vs the text repr() prints, and eval(repr(x)) == x on every element/property object.",
            "full on the model of the mechanism; literal printing is Python's own repr (trusted)"),
    "C17": ("Coq theorems: reflexivity and symmetry of == on all well-formed trees, congruence of the literal equality (C17_literal_congruence), and interchangeability of equal reference-free elements (C17_equal_documents_same_meaning / C17_equal_same_verdict, by induction on the tree through the serialized documents) + refutation of interchangeability in general (K17) + vm_compute correspondence of == on every generated pair + verdict/serialization oracle",
            "C17_reflexive/C17_symmetric hold for all well-formed element trees (27 keyword fields, properties, compositions, classes) and C17_literals_* for all JSON literals.  Interchangeability: "
            "C17_literal_congruence (comparing any value with two ==-equal literals gives the same answer: numbers by exact value, arrays item-wise, dicts order-insensitively) and "
            "C17_equal_same_verdict: two ==-equal reference-free elements (C03's fragment, well-formed literals, no float multipleOf parameter; executable EqFrag.goodb, proved sound) serialize to "
            "documents with the same Draft-6 meaning on every value and accept the same values whenever neither call crashes - dict-valued keywords in any order, thresholds as int or the equal float.  "
            "The statement is FALSE without the multipleOf premise (C17_interchangeable_refuted: multipleOf 2 vs 2.0, finding K17).  Trees with object classes: C17_equal_same_verdict_classes "
            "(equal trees - class names are not compared - accept the same values; through the in-place documents of Resolve.ser_inl and C03_inplace_meaning; premise ClsFrag.goodcb, proved sound; "
            "C17_classes_inhabited).  C17_reference_to_equal_definition: replacing sub-elements by references to equal caller definitions (_from_definitions) leaves the meaning of the emitted document unchanged (= C03_meaning_definitions).  Parser de-duplication (two different schemas under one title) is outside the theorems: oracle.  Equality.v is tied to the code by evaluating elem_eq in Coq on "
            "every generated pair (the run counts the equal pairs each theorem applies to).",
            "reflexive/symmetric full; interchangeable: proved for reference-free elements and class trees without float multipleOf, refuted in general (finding K17); uses of == by the parser/serializer by oracle + correspondence"),
    "C08": ("Coq theorem over all bind histories (re-binding well-bound properties is the identity; every prefix too) + write set regenerated from /repo and checked against the audited one + before/after identity-dump oracle + _Property.bind correspondence",
            "C08_pure/C08_repeatable: from a well-bound store any finite sequence of the binds that calls perform leaves every shared property cell unchanged; "
            "C08_writes_audited: every store statement in statham/schema (outside the parser), as re-read from /repo by the translator on each run, is an audited "
            "one (the binds, the reconfiguration API, the registry, result objects, fresh locals).  Tied to the code by random _Property.bind histories, by checking "
            "WB on dumps of real trees in Coq, and by the oracle: identity-structural dump of the whole tree, input value, repr, both serializations, == fresh copy, "
            "3x repetition, on DSL and parsed trees.",
            "full on the model; that the audited writes are the only ones rests on the translator's scan (trusted) and on the dump oracle"),
    "C13": ("Coq theorem over all histories of reconfigurations and calls (the live element answers as the reference that saw only the configuration operations; calls leave no trace), built on the Store.v bind theorem + write-set obligation + live-vs-fresh history oracle",
            "C13_current/C13_last_call hold for every history, configuration type and evaluator, from the two premises that calls only re-bind declared properties "
            "and that the reconfiguration API keeps property cells well-bound; C13_no_hidden_state re-checks on every run that the code has no store outside the "
            "audited set (no memoised validators/helpers).  Tie: after every reconfiguration of a random history the dumped cells are checked well-bound in Coq, and "
            "after every call the live element is compared with one freshly built from the configuration reached.  Entries inserted with dict.update / |= / setdefault bypass "
            "_PropertyDict.__setitem__ and are bound only by the next call: those states are outside the premise (well-boundness check skipped) and decided by the oracle alone.",
            "full on the model for assignment-style reconfiguration; update-style insertion by oracle; absence of hidden state in the code rests on the translator's scan and the history oracle"),
    "C14": ("Coq theorem over ALL schedules (any merge of the threads' bind micro-steps, and every prefix, leaves the shared store unchanged) + write-set obligation regenerated from /repo + thread stress oracle with widened race windows",
            "C14_any_schedule/C14_any_number_of_threads: the only shared writes of concurrent calls are binds of well-bound properties, which are identities, so every "
            "thread reads at every point of every interleaving what it would read alone; C14_no_shared_scratch_state re-checks on each run that no per-call state is "
            "stored on shared elements/classes.  The interpreter's scheduler, the GIL and bytecode atomicity are runtime: the stress run (8-16 threads, switch interval "
            "1e-6, yielding bind and format checkers, outcomes vs the same call alone on a fresh tree, dump before/after) can only sample schedules.",
            "partial by nature: schedule-independence of the logic is proved; the runtime scheduler is sampled"),
    "C15": ("Coq theorems about ObjectMeta.__new__ (Meta.meta_new): flattening, keyword-by-keyword merge rule, property override/inheritance, isolation frame + write-set obligation + vm_compute correspondence of every class declaration + child/flat/parent oracle",
            "C15_subclass_is_flat_class, C15_keyword_source, C15_properties hold for every parent, passed keywords and class body; C15_isolation_frame + "
            "C15_no_shared_writes cover 'never changes the parent'.  Meta.meta_new is tied to the code by rebuilding every generated class declaration in Coq and "
            "comparing with the class ObjectMeta.__new__ built, and by the signature table; the oracle compares child vs the flat class (verdicts, serialization, ==), "
            "isinstance of all ancestors, and ancestors before/after defining, using and reconfiguring the child.",
            "full on the model of class construction; verdict equality child/flat follows because both are the same model class"),
    "C12": ("Coq theorems over ALL strings (attribute-name shape, ASCII-identifier theorem, not-reserved, class-name shape) with Unicode/reserved tables regenerated from the interpreter and /repo, refuted witnesses for the false halves, vm_compute correspondence over code points + identifier/collision oracle",
            "C12_attr_shape / C12_attr_ascii_identifier / C12_title_shape hold for every name (any code points), for every unicodedata.name oracle over the "
            "checked alphabet, on the alnum ranges and the reserved list the translator dumps on each run (closure of the reserved list under '_' is re-proved "
            "by computation).  Unambiguity and non-ASCII identifier validity are FALSE on the faithful model (C12_*_refuted) and recorded as findings K1-K4.  "
            "Names.v is tied to the code by evaluating both mappings in Coq on thousands of code points/strings per run.  Untitled schemas: Titles.v models statham/titles.py; "
            "C12_autotitle_shape / _local / _nonempty / _class_name say what the automatic title of a schema position is (nearest pointer segment not looked through + Item/index suffixes) and that "
            "_title_format turns it into a class name of the proved shape; tied by running _get_title_from_reference and the model on random references.",
            "full for what holds; the injectivity / non-ASCII / class-name-collision halves are recorded findings"),
    "C05": ("Coq theorems on Validate.build (no-value law for every element kind, never rejects, declared-member lemma, placeholder mechanism, and C05_omitted_exposed: an omitted declared property is present under its Python name with what its element's no-value call returns) + vm_compute correspondence of constructed results on all subsets of supplied properties + direct oracle",
            "C05_no_value_law and C05_no_value_never_rejects hold for every element and model class; C05_omitted_exposed composes the placeholder mechanism end to end: for every Element / model class "
            "and accepted object, a declared property that the value omits and that no patternProperties regex matches is in the result under its Python name holding exactly the outcome of its element's "
            "no-value call (the default converted as if supplied, as-is when invalid, or the not-passed marker), under the premise of well-formed property maps and no member named like the Python name of "
            "a renamed property (K13); C05_supplied_wins / C05_supplied_ignores_default: a supplied value is never replaced.  Validate.build is run in Coq on every subset case and must return exactly "
            "the implementation's result.  Findings K12-K14 recorded; F6 fixed (6ad4bca).",
            "full under the named premises (pattern-matched defaulted properties are finding K12)"),
    "C04": ("Coq theorem by induction on the element tree (C04_complete: every member of the input at every depth is held by the result) + per-element lemmas on names + refuted witnesses (K8, K13) + vm_compute correspondence of every constructed result + retrieves oracle",
            "C04_complete: for every element tree, oracle and well-formed value, build O e (Some v) = Ok r implies holds r v (scalars unaltered or float(int) under a number schema, arrays item by item "
            "in order, every member of every object of the value held under a key of the result; any nesting, tuple items, pattern/additional members, per-call AllOf, composition branches), under the "
            "premise safe e v - well-formed property maps and no object of the value using the Python name of a renamed property as a member name (the negation of finding K13; executable Retr.safeb, "
            "proved sound).  C04_scalar_unaltered, C04_number, C04_array_length, C04_array_no_items, C04_declared_member, C04_additional_member say under which names.  The two false halves (equal "
            "float beyond 2^53, member collision) are refuted in Coq and recorded as findings.  Each run evaluates Validate.build in Coq on every generated (tree, value), requires the identical "
            "constructed result from the implementation, counts the cases satisfying safeb, and walks input vs returned model on the implementation.",
            "full under the named premise, both directions (C04_complete: nothing dropped; C04_no_invented_members: every key of the model built for an object is the image of an input member or a declared property)"),
    "C07": ("Coq theorems: by case analysis over every branch of parse_element (the returned element carries the schema's default, all shapes, all default values) and on the JSON serializer model (every element is written with exactly its default and description, C07_serialized_*) + signature obligations regenerated from /repo + default x shape x position oracle through parser, both serializers and the executed module + parse-tree correspondence",
            "C07_parsed_default is proved for every schema object, parse state and default value on the parser model (which includes the branches repaired by fixes "
            "804a592/773e603); C07_serialized_default / C07_serialized_description: for every element other than Nothing() and any caller definitions the JSON serializer model writes an object whose "
            "`default` is exactly the element's default (absent when it has none) and whose `description` is its description; C07_default_in_every_signature is the premise on the code.  The Python "
            "serializer half and 'not moved/shared' are decided by the oracle: 20 default values x 23 shapes x 8 positions, type-strict comparison on the parsed element, on every other element of "
            "the tree, in serialize_json and in the executed serialize_python output; descriptions through class description, JSON and executed docstring (finding K4 for quote/backslash descriptions).",
            "parser and JSON serializer halves proved; Python serializer and docstring by oracle (docstring lexing is Python's own)"),
    "C10": ("Coq theorem by induction on the element tree (Validate.build never yields Crash when float(int) and the multipleOf kernel succeed on the numbers in play; fully closed integer instance; refuted witness for K8) + binary64 (SpecFloat) correspondence on an extreme-value stream + exception-class oracle on calls and parses",
            "C10_call_total is proved for every element tree, oracle and value over an explicit Crash outcome fed by the model of Python arithmetic (PyNum.v); "
            "C10_integers_total has no arithmetic premise; termination is by structural recursion.  The float kernel itself (SFdiv/normalisation never producing NaN, "
            "rounding at the float boundary) is not proved but exercised bit-exactly: Validate.build is evaluated in Coq on 10^400, 2^1024-2^970(+-1), subnormals, "
            "-0.0 ... and must give the implementation's outcome.  Parsing totality and the interpreter's recursion budget are decided by the oracle "
            "(generated schemas, odd code points, depth 120-150).  Fixes 2eb3576, 75e1ab7; finding K8.",
            "full on the evaluator modulo the two arithmetic primitives (named premises); parser totality and recursion budget by oracle"),
    "C19": ("Coq theorem by induction on the element tree (constructed value has the generated annotation: lists, tuples, unions, compositions, classes), property-level corollaries (Maybe wrapper, presence), refuted AllOf witness + vm_compute correspondence of annotation texts and of the soundness statement + typing-based oracle on built models",
            "C19_sound holds for every element tree, oracle and accepted value under the AllOf premise (finding K9, C19_allof_refuted shows it is necessary); C19_property / "
            "C19_present cover every property of every model class for supplied and omitted members (premise: declared defaults are valid, finding K20).  Annot.v is tied "
            "to the code by comparing annotation texts of every generated element/property in Coq, and the oracle reads the generated annotation with `typing` and "
            "checks every attribute of every built model.",
            "full on the model (Annot.v + Validate.v) under the two named premises"),
    "C03": ("Coq theorems by induction on the element tree: C03_meaning (reference-free trees: the emitted document, read by Spec6.v6, accepts exactly what the tree accepts) and C03_meaning_classes (trees with object classes: the document serialize_json writes, its references resolved by Resolve.resolve_doc, is the in-place document, which accepts exactly what the tree accepts) reusing C01's element/object lemmas through 27 keyword-lookup lemmas on the serializer model SerJson.v + refutations of the two repaired defects + generated keyword/type tables + per-run recomputation of every generated document in Coq, reference resolution in Coq and the Spec6 oracle",
            "C03_meaning: for every reference-free element tree (no object class inside; typed elements within their constructor signature; distinct non-empty JSON names; a property both "
            "required and defaulted also in the explicit required list; non-empty compositions; decided by SerFrag.dslb, proved sound), every oracle and value, the document the model serializer "
            "writes accepts exactly the values the tree accepts (up to crashes).  C03_meaning_classes: for every tree of the fragment cdsl with object classes (classes with clean const/enum, distinct "
            "non-empty JSON names, no explicitly required name that names a defaulted property; ClsFrag.cdslb) whose definitions hold, under its name, the document of every class node below the primary "
            "(ClsFrag.defs_okb: so no two different classes share a name, finding K25 otherwise), for all large enough fuel resolve_doc(ser_doc e classes) = ser_inl e (C03_resolution, by induction with the "
            "slot-by-slot map over the 27 keywords) and v6 WCode (ser_inl e) v agrees with build e v (C03_inplace_meaning: the typed-object clause of Spec6 with the code's required-with-default waiver).  "
            "Both checkers proved sound and counted per run (codes 9/10).  Also C03_required_complete, C03_properties_keyed_by_source; refuted on the old behaviour: C03_old_*_refuted (fixes f0c8af1, aba574c).  "
            "C03_meaning_definitions: with CALLER-SUPPLIED definitions (every sub-element == to a definition replaced by a reference to it) and several roots, under the executable premise DefsFrag.cd_okb "
            "(primary and definitions in the fragment of C17's class congruence, every class and definition present under its name/key; proved sound, code 12), "
            "the emitted document resolves to one that accepts exactly what the tree accepts - by the two-serializer congruence C17Classes.ek_cong and ser_inl_cong.  "
            "Outside the theorems: the orderer's class collection (taken from the implementation and checked by defs_okb / cd_okb).  Each run (i) recomputes every generated document with SerJson/RunSer.ser_doc inside Coq and requires equality with serialize_json's output, (ii) resolves "
            "the references of the RAW document inside Coq and evaluates Spec6.v on it for values aimed at the tree, (iii) checks json.dumps, $ref resolution and the Draft-6 metaschema (jsonschema).  "
            "Findings K15, K21, K25.",
            "full on reference-free trees, on trees with uniquely named object classes, and with caller definitions / several roots under the checked premises; outside the fragments by model recomputation and the Spec6 oracle evaluated in Coq"),
    "C06": ("Coq theorems by induction on the schema and on the element tree: C06_idempotent_classfree (class-free schemas: the parser's image lies in the normal form nf, and on nf parse(serialize e) = e in every parse state, so the second round trip writes the first document), C06_normal_form_keeps_meaning (serialize(parse S) accepts what S accepts), refutation C06_idempotence_refuted (K24) + executable sound checkers of both fragments counted per run + the real pipeline materialize->parse->serialize three times + executed Python classes vs parsed classes",
            "C06_idempotent_classfree: for every schema of the class-free fragment (C01's plain) with no empty property name and `tidy` (no empty required list / properties object: finding K24 otherwise; "
            "additionalItems/additionalProperties a boolean or a schema without composition keywords), every parse state and configuration satisfying cfg_okb (decided on the tables read from /repo): the element "
            "the parser returns lies in the normal form nf (C06_parser_image_normal) and for every nf element parsing the serialized document returns the element itself and leaves the state unchanged "
            "(C06_round_trip_normal_form; 27 keywords, properties/required flags, dependencies, tuple items, compositions, type lists), hence J2 = J1 exactly.  C06_normal_form_keeps_meaning: on the class-free "
            "named fragment serialize(parse S) accepts (Spec6.v6) exactly what S accepts.  Executable checkers NfFrag.nfb / named_tidyb proved sound and counted per run (codes 9/10).  NOT covered by theorem: object "
            "classes and $ref (title de-duplication makes idempotence FALSE in general: K22), json_ref_dict.materialize (third-party), the Python half (exec of generated source).  The run decides those on the "
            "implementation (J1 == J2 == J3 type-strictly, executed classes == parsed classes) and compares the model's document with the pipeline's J1 on every normal-form document.  Findings K22, K23, K24.",
            "syntactic idempotence and meaning preservation proved on the class-free fragment; classes/$ref/Python half by pipeline oracle"),
    "C09": ("Coq theorems quantified over ALL set-enumeration orders (parser order-free, sorted() output order-free, refutation for set-typed iteration) + set-iteration sites of the whole package regenerated from /repo and checked against the audited ones + byte comparison across 8/32 fresh interpreters with different PYTHONHASHSEED",
            "C09_order_free / C09_parse_order_free: the parser does not consult set order (proved from the iteration kind the translator reads from /repo: it fails when the "
            "loop iterates a set again); C09_sorted_is_order_free: sorted() of any enumeration of the same set is the same list; C09_set_iteration_audited: every "
            "order-exposing use of a set in the package is an audited harmless one.  The hash function and interpreter are runtime: 8 (quick) / 32 (thorough) "
            "processes generate module text, JSON and class names for every document and must agree byte for byte.  Fix 95e6237.",
            "partial by nature: all orders covered in the model; completeness of the scan and the runtime are trusted/sampled"),
    "C02": ("Coq theorems for each mechanism of the generator (declaration order/cycles, class statement = ObjectMeta.__new__, constructor-expression round trip, typing-import triggers, class-name shape, one class per re-parsed schema) over tables regenerated from /repo; the composition is decided per run by executing the generated module in a fresh namespace and comparing its classes with the directly parsed ones",
            "PARTIAL proof.  C02_declared_before_use, C02_class_statement, C02_expressions_rebuild, C02_typing_imports_cover, C02_class_names, C02_positions_reached, C02_reparse_same_class are "
            "proved for all inputs of their mechanism.  The end-to-end claim passes through json_ref_dict.materialize, Python's repr of literals and Python's lexer/exec "
            "(not modelled): every generated document (local and cross-file $ref, shared definitions, auto-titled nested objects, repeated titles, false sub-schemas) "
            "is generated by main(), executed with only builtins in scope, and its classes compared (count, names, == both ways, verdicts on aimed values) with "
            "parse(materialize(doc)).  C02_equal_classes_validate_identically: that a generated class equal to the parsed one validates identically is C17's class congruence (fragment goodc); "
            "every compared pair is re-evaluated by Equality.elem_eq in Coq and counted when the theorem applies; template documents carry hand-written verdicts of the source schema.  "
            "Findings K1-K4 (names, docstrings).",
            "partial (mechanism theorems + execution oracle)"),
}

REASONS_PENDING = "check under construction in this session: not yet claimed"


def main():
    checks = []
    na = []
    for i in range(1, 21):
        pid = "C%02d" % i
        if pid in CHECKS and os.path.exists(os.path.join(VERIF, "harness", "props", pid.lower() + ".py")):
            tech, text, strength = CHECKS[pid]
            checks.append({
                "property_id": pid,
                "quick_cmd": "./check %s --tier quick" % pid,
                "thorough_cmd": "./check %s --tier thorough" % pid,
                "evidence_file": "/verif/evidence/%s.json" % pid,
                "replay_cmd_template": "./check %s --replay {path}" % pid,
                "engine": "coq-model",
                "level_claimed": {"category": "proof", "text": text + " Strength: " + strength + ".", "design_ref": "DESIGN.md section 7 / " + pid},
                "level_note": BASE_NOTE,
                "technique": tech,
            })
        else:
            na.append({"property_id": pid, "reason": REASONS_PENDING})
    man = {
        "version": 1,
        "setup_cmd": "./check --setup",
        "hooks": {
            "guard": "STATHAM_VERIF",
            "enable": "no source hooks are needed: every observable is public API; the variable is reserved and exported by ./check",
            "baseline_off_cmd": "cd /repo && /venv/bin/python -m pytest -ra -q -p no:cacheprovider --timeout=900 --continue-on-collection-errors",
            "source_commits": [],
            "add_only": True,
        },
        "engines": [{"name": "coq-model", "path": "/verif/coq", "serves_properties": [c["property_id"] for c in checks],
                     "kind_free_text": "hand-written executable Gallina model + theorems (Coq 8.16.1), tables regenerated from /repo by harness/translate.py, correspondence by vm_compute"}],
        "checks": checks,
        "not_applicable": na,
        "notes": "See DESIGN.md. known_findings.json lists recorded findings and fixed defects.",
    }
    with open(os.path.join(VERIF, "MANIFEST.json"), "w") as f:
        json.dump(man, f, indent=1)
    print("claimed:", [c["property_id"] for c in checks])


if __name__ == "__main__":
    main()
