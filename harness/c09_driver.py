"""Run in a fresh interpreter with a given PYTHONHASHSEED: generate everything C09 observes for
every document of the batch and write it to one JSON file (bytes are compared by the caller)."""
import json
import os
import sys
import warnings


def main(batch_dir, out_path):
    import statham
    assert os.path.realpath(statham.__file__).startswith(os.path.realpath(os.environ["PYTHONPATH"].split(os.pathsep)[0]) + os.sep), statham.__file__
    from json_ref_dict import materialize, RefDict
    from statham.__main__ import main as generate
    from statham.schema.parser import parse
    from statham.serializers import serialize_json
    from statham.serializers.orderer import get_object_classes
    from statham.titles import title_labeller
    out = {}
    for name in sorted(os.listdir(batch_dir)):
        if not name.endswith(".json"):
            continue
        path = os.path.join(batch_dir, name)
        rec = {}
        with warnings.catch_warnings():
            warnings.simplefilter("ignore")
            try:
                rec["module"] = generate(path + "#/")
            except BaseException as exc:  # noqa
                rec["module"] = "raised " + type(exc).__name__
            try:
                schema = materialize(RefDict.from_uri(path + "#/"), context_labeller=title_labeller())
                elems = parse(schema)
                rec["json"] = json.dumps(serialize_json(*elems))
                rec["class_names"] = [c.__name__ for c in get_object_classes(*elems)]
            except BaseException as exc:  # noqa
                rec["json"] = "raised " + type(exc).__name__
        out[name] = rec
    with open(out_path, "w") as f:
        json.dump(out, f)


if __name__ == "__main__":
    main(sys.argv[1], sys.argv[2])
