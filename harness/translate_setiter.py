"""Gen_setiter: every place in statham (parser, serializers, titles, __main__, schema package) where
the ITERATION ORDER of a set can be observed: a for-loop / comprehension over, or list()/tuple()/
join/iter/next/map/filter/enumerate applied to, an expression that is syntactically a set — a set
display or comprehension, set()/frozenset(), a set-algebra operator or method on such (or on
dict.keys() views), a call to a local function that returns one, or a local name bound to one.
sorted()/len/min/max/sum/any/all/`in` consume a set without exposing its order and are not sites.
Entries are keyed by module, function and a normalised description of the expression."""
import ast
import os

from coqemit import cq_str, cq_list
from translate import REPO, register, ShapeNotFound

ORDER_EXPOSING_CALLS = {"list", "tuple", "iter", "next", "map", "filter", "enumerate", "zip", "reversed"}
SET_METHODS = {"union", "intersection", "difference", "symmetric_difference", "copy"}


def files():
    out = []
    for dirpath, _, fs in os.walk(os.path.join(REPO, "statham")):
        for f in fs:
            if f.endswith(".py"):
                out.append(os.path.relpath(os.path.join(dirpath, f), REPO))
    return sorted(out)


def set_returning_functions(trees):
    """names of functions (any module) whose return annotation mentions Set or whose returns are set-typed"""
    names = set()
    for _ in range(3):
        for tree in trees.values():
            for node in ast.walk(tree):
                if isinstance(node, (ast.FunctionDef, ast.AsyncFunctionDef)):
                    ann = ast.unparse(node.returns) if node.returns is not None else ""
                    if "Set[" in ann or ann in ("set", "Set", "frozenset"):
                        names.add(node.name)
                        continue
                    for r in ast.walk(node):
                        if isinstance(r, ast.Return) and r.value is not None and is_set_expr(r.value, {}, names):
                            names.add(node.name)
    return names


def is_set_expr(node, env, setfuncs):
    if isinstance(node, (ast.Set, ast.SetComp)):
        return True
    if isinstance(node, ast.Name):
        return env.get(node.id, False)
    if isinstance(node, ast.Call):
        f = node.func
        if isinstance(f, ast.Name):
            if f.id in ("set", "frozenset"):
                return True
            if f.id in setfuncs:
                return True
        if isinstance(f, ast.Attribute):
            if f.attr in SET_METHODS and (is_set_expr(f.value, env, setfuncs) or (isinstance(f.value, ast.Name) and f.value.id in ("set", "frozenset"))):
                return True
            if f.attr in setfuncs:
                return True
    if isinstance(node, ast.BinOp) and isinstance(node.op, (ast.BitAnd, ast.BitOr, ast.Sub, ast.BitXor)):
        def keysview(x):
            return isinstance(x, ast.Call) and isinstance(x.func, ast.Attribute) and x.func.attr in ("keys", "items")
        l, r = node.left, node.right
        if is_set_expr(l, env, setfuncs) or is_set_expr(r, env, setfuncs) or keysview(l) or keysview(r):
            return True
    if isinstance(node, ast.IfExp):
        return is_set_expr(node.body, env, setfuncs) or is_set_expr(node.orelse, env, setfuncs)
    return False


def describe(node):
    text = ast.unparse(node)
    return " ".join(text.split())[:120]


def scan_function(mod, qual, fn, setfuncs, out):
    env = {}
    for node in ast.walk(fn):
        if isinstance(node, ast.Assign) and len(node.targets) == 1 and isinstance(node.targets[0], ast.Name):
            env[node.targets[0].id] = env.get(node.targets[0].id, False) or is_set_expr(node.value, env, setfuncs)
        elif isinstance(node, ast.AnnAssign) and isinstance(node.target, ast.Name):
            ann = ast.unparse(node.annotation)
            if "Set[" in ann or (node.value is not None and is_set_expr(node.value, env, setfuncs)):
                env[node.target.id] = True
    for a in fn.args.args + fn.args.kwonlyargs:
        if a.annotation is not None and "Set[" in ast.unparse(a.annotation):
            env[a.arg] = True

    def site(kind, expr):
        out.append((mod, qual, "%s %s" % (kind, describe(expr))))

    for node in ast.walk(fn):
        if isinstance(node, (ast.For, ast.AsyncFor)) and is_set_expr(node.iter, env, setfuncs):
            site("for", node.iter)
        elif isinstance(node, (ast.ListComp, ast.SetComp, ast.DictComp, ast.GeneratorExp)):
            for g in node.generators:
                if is_set_expr(g.iter, env, setfuncs):
                    site("comprehension", g.iter)
        elif isinstance(node, ast.Call):
            f = node.func
            name = f.id if isinstance(f, ast.Name) else (f.attr if isinstance(f, ast.Attribute) else "")
            if name in ORDER_EXPOSING_CALLS or name == "join" or name == "pop":
                args = list(node.args)
                if name == "pop" and isinstance(f, ast.Attribute) and is_set_expr(f.value, env, setfuncs):
                    site("pop", f.value)
                for a in args:
                    if isinstance(a, ast.Starred):
                        a = a.value
                    if is_set_expr(a, env, setfuncs):
                        site(name, a)
        elif isinstance(node, ast.Starred) and is_set_expr(node.value, env, setfuncs):
            site("unpack", node.value)


def gen_setiter():
    trees = {}
    for rel in files():
        with open(os.path.join(REPO, rel), encoding="utf8") as f:
            trees[rel] = ast.parse(f.read())
    if len(trees) < 20:
        raise ShapeNotFound("statham package (%d files)" % len(trees))
    setfuncs = set_returning_functions(trees)
    out = []
    for rel, tree in trees.items():
        mod = rel[len("statham/"):-3].replace("/", ".")

        def visit(node, prefix):
            for child in ast.iter_child_nodes(node):
                if isinstance(child, ast.ClassDef):
                    visit(child, prefix + child.name + ".")
                elif isinstance(child, (ast.FunctionDef, ast.AsyncFunctionDef)):
                    scan_function(mod, prefix + child.name, child, setfuncs, out)
                elif isinstance(child, (ast.If, ast.Try, ast.With, ast.For, ast.While)):
                    visit(child, prefix)
        visit(tree, "")
        # module level
        fake = ast.FunctionDef(name="<module>", args=ast.arguments(posonlyargs=[], args=[], kwonlyargs=[], kw_defaults=[], defaults=[]),
                               body=[n for n in tree.body if not isinstance(n, (ast.FunctionDef, ast.AsyncFunctionDef, ast.ClassDef))] or [ast.Pass()],
                               decorator_list=[], returns=None)
        scan_function(mod, "<module>", fake, setfuncs, out)
    out = sorted(set(out))
    return ("Definition set_returning : list str := %s.\n"
            "Definition setiter_sites : list (str * str * str) :=\n  %s.\n" % (
                cq_list([cq_str(n) for n in sorted(setfuncs)]),
                cq_list(["(%s, %s, %s)" % (cq_str(a), cq_str(b), cq_str(c)) for a, b, c in out])))


def sent_setiter():
    return ('Definition set_returning : list str := [].\n'
            'Definition setiter_sites : list (str * str * str) := [(s_ "SENTINEL", s_ "shape not found", s_ "")].\n')


register("Gen_setiter", gen_setiter, sent_setiter)
