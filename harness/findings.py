"""Decidable predicates for the recorded findings (negations of theorem hypotheses)."""
import string
import unicodedata
import keyword
import re


def attr_name(name):
    """Independent port of the documented name mapping (used only to recognise K1/K5 inputs)."""
    out = []
    for i, ch in enumerate(name):
        if ch.isalnum() or ch in "_- ":
            out.append(ch)
        elif ch in string.whitespace:
            out.append("_")
        else:
            label = unicodedata.name(ch, "unknown").lower()
            if i != 0 and name[i - 1] != "_":
                label = "_" + label
            if i != len(name) - 1 and name[i + 1] != "_":
                label = label + "_"
            out.append(label)
    n = "".join(out).replace(" ", "_").replace("-", "_")
    if not n:
        return "blank"
    if n[0] not in string.ascii_letters + "_":
        n = "_" + n
    if n in dir(object) + list(keyword.kwlist) + ["_dict"]:
        n += "_"
    return n


def subschemas(s):
    """Every sub-schema at a position statham interprets."""
    if isinstance(s, dict):
        yield s
        for kw in ("items", "additionalItems", "contains", "additionalProperties", "propertyNames", "not"):
            v = s.get(kw)
            if isinstance(v, dict):
                yield from subschemas(v)
            elif isinstance(v, list):
                for x in v:
                    yield from subschemas(x)
        for kw in ("properties", "patternProperties", "dependencies", "definitions"):
            v = s.get(kw)
            if isinstance(v, dict):
                for x in v.values():
                    yield from subschemas(x)
        for kw in ("anyOf", "oneOf", "allOf"):
            v = s.get(kw)
            if isinstance(v, list):
                for x in v:
                    yield from subschemas(x)


def typed_object(s):
    t = s.get("type")
    return t == "object" or (isinstance(t, list) and "object" in t)


def k5(schema):
    """typed object, a required name with no declared property, additionalProperties restricting"""
    for s in subschemas(schema):
        if typed_object(s) and isinstance(s.get("required"), list):
            props = s.get("properties") if isinstance(s.get("properties"), dict) else {}
            declared = {attr_name(k) for k in props}
            ap = s.get("additionalProperties", True)
            if ap is not True and any(isinstance(r, str) and attr_name(r) not in declared for r in s["required"]):
                return True
    return False


def k1(schema):
    """two sibling property names (declared or required) map to one attribute name"""
    for s in subschemas(schema):
        names = set()
        if isinstance(s.get("properties"), dict):
            names |= set(s["properties"])
        if typed_object(s) and isinstance(s.get("required"), list):
            names |= {r for r in s["required"] if isinstance(r, str)}
        attrs = {}
        for n in names:
            attrs.setdefault(attr_name(n), set()).add(n)
        if any(len(v) > 1 for v in attrs.values()):
            return True
    return False


def strict_eq(a, b):
    if type(a) != type(b):
        return False
    if isinstance(a, list):
        return len(a) == len(b) and all(strict_eq(x, y) for x, y in zip(a, b))
    if isinstance(a, dict):
        return a.keys() == b.keys() and all(strict_eq(a[k], b[k]) for k in a)
    return a == b


def title_format(name):
    words = [w for w in re.split("[^a-zA-Z0-9]", name) if w]
    segs = []
    for w in words:
        segs += re.findall("[A-Z][^A-Z]*", w[0].upper() + w[1:])
    return "".join(x.title() for x in segs)


def k10(schema):
    """same-titled object schemas that are Python-== but not type-strictly equal (True vs 1 in a literal)"""
    objs = [s for s in subschemas(schema) if typed_object(s) and isinstance(s.get("title"), str)]
    for i, a in enumerate(objs):
        for b in objs[i + 1:]:
            if title_format(a["title"]) == title_format(b["title"]):
                sa = {k: v for k, v in a.items() if k != "title"}
                sb = {k: v for k, v in b.items() if k != "title"}
                try:
                    if sa == sb and not strict_eq(sa, sb):
                        return True
                except Exception:
                    pass
    return False


def classify_c01(schema):
    if k5(schema):
        return "C01-K5"
    if k1(schema):
        return "C01-K1"
    if k10(schema):
        return "C01-K10"
    return None
