"""(schema, values) cases: run the implementation, emit the Coq case term, run the model."""
import copy
import json
import os
import re
import subprocess
import unicodedata
import warnings

import common
from canon import canon_elem, canon_result, Unmodelled
from coqemit import cq_json, cq_str, cq_list, cq_option, cq_N
from gen import all_strings, patterns_of, formats_of


def impl_parse(schema):
    """-> (kind, element or None, detail)   kind in ok/SchemaParseError/NotImplemented/crash"""
    from statham.schema.parser import parse_element
    from statham.schema.exceptions import FeatureNotImplementedError, SchemaParseError
    try:
        with common.time_limit(20):
            e = parse_element(copy.deepcopy(schema))
        return "ok", e, None
    except FeatureNotImplementedError as exc:
        return "NotImplemented", None, str(exc)[:200]
    except SchemaParseError as exc:
        return "SchemaParseError", None, str(exc)[:200]
    except common.ImplTimeout as exc:
        return "crash", None, "timeout"
    except BaseException as exc:  # noqa
        return "crash", None, "%s: %s" % (type(exc).__name__, str(exc)[:200])


NP = object()


def impl_call(element, value):
    """-> (tag, result or detail)  tag in ok/rej/terr/crash;  value NP = NotPassed"""
    from statham.schema.constants import NotPassed
    from statham.schema.exceptions import ValidationError
    v = NotPassed() if value is NP else copy.deepcopy(value)
    try:
        with warnings.catch_warnings():
            warnings.simplefilter("ignore")
            with common.time_limit(20):
                r = element(v)
        return "ok", r
    except ValidationError as exc:
        return "rej", None
    except TypeError as exc:
        return "terr", str(exc)[:200]
    except common.ImplTimeout:
        return "crash", "timeout"
    except BaseException as exc:  # noqa
        return "crash", "%s: %s" % (type(exc).__name__, str(exc)[:200])


def regex_table(schema, values):
    pats = sorted(patterns_of(schema))
    strs = set()
    all_strings(schema, strs)
    for v in values:
        if v is not NP:
            all_strings(v, strs)
    table = {}
    for p in pats:
        try:
            rx = re.compile(p)
        except re.error:
            continue
        table[p] = sorted(s for s in strs if rx.search(s))
    return table, strs


def format_table(schema, strs):
    from statham.schema.validation.format import format_checker
    table = {}
    reg = format_checker._callable_register
    for f in sorted(formats_of(schema)):
        if f in reg:
            acc = []
            for s in sorted(strs):
                try:
                    if reg[f](s):
                        acc.append(s)
                except BaseException:  # noqa  (a crashing checker is C10/C16's subject)
                    pass
            table[f] = acc
    return table


def names_table(schema):
    """unicodedata.name(c, 'unknown').lower() for every non-alnum character of every string in the schema."""
    strs = all_strings(schema)
    chars = sorted({c for s in strs for c in s if not c.isalnum()})
    return [(ord(c), unicodedata.name(c, "unknown").lower()) for c in chars]


def cq_case(schema, parse_obs, vals_obs):
    """parse_obs: canonical parse observation (python); vals_obs: list of (value|NP, canonical outcome)."""
    values = [v for v, _ in vals_obs]
    ret, strs = regex_table(schema, values)
    fmt = format_table(schema, strs)
    names = names_table(schema)
    return "(mkCase %s %s %s %s %s %s)" % (
        cq_list(["(%s, %s)" % (cq_N(c), cq_str(n)) for c, n in names]),
        cq_list(["(%s, %s)" % (cq_str(p), cq_list([cq_str(s) for s in l])) for p, l in ret.items()]),
        cq_list(["(%s, %s)" % (cq_str(f), cq_list([cq_str(s) for s in l])) for f, l in fmt.items()]),
        cq_json(schema),
        cq_json(parse_obs),
        cq_list(["(%s, %s)" % (cq_option(None if v is NP else cq_json(v)), cq_json(o)) for v, o in vals_obs]),
    )


def observe(schema, values):
    """Run the implementation.  Returns dict with the canonical observations, or raises Unmodelled."""
    kind, elem, detail = impl_parse(schema)
    if kind == "ok":
        parse_obs = ["ok", canon_elem(elem)]
    else:
        parse_obs = [kind]
    vals = []
    raw = []
    if kind == "ok":
        for v in values:
            tag, r = impl_call(elem, v)
            raw.append((tag, r))
            if tag == "ok":
                vals.append((v, ["ok", canon_result(r)]))
            else:
                vals.append((v, [tag]))
    return {"kind": kind, "element": elem, "detail": detail, "parse_obs": parse_obs, "vals": vals, "raw": raw}


EXTRA = ""


def run_cases(cases, tag="sc"):
    """cases: list of Coq terms of type scase.  Returns (dict idx -> [codes], error or None)."""
    return eval_codes(["Elem", "Validate", "Parser", "RunSchema"], "run_case", cases, tag=tag)


def eval_codes(mods, fn, cases, extra="", shard=250, tag="codes"):
    shards = [cases[i:i + shard] for i in range(0, len(cases), shard)]
    common.ensure_work()
    jobs = []
    for si, sh in enumerate(shards):
        body = common.CASE_PRELUDE.format(mods=" ".join(mods), extra=extra)
        # the element type is taken from the function, so a shard whose cases all carry None / [] still type-checks
        body += "Definition typed_cases {A} (f : A -> list nat) (l : list A) : list A := l.\n"
        body += "Definition cases := typed_cases %s [\n  " % fn + ";\n  ".join(sh) + "\n].\n"
        body += ("Definition res := (fix go (i : nat) l := match l with [] => [] | c :: r => "
                 "match %s c with [] => go (S i) r | codes => (i, codes) :: go (S i) r end end) O cases.\n" % fn)
        body += "Eval vm_compute in res.\n"
        path = os.path.join(common.WORK, "%s_%d.v" % (tag, si))
        with open(path, "w", encoding="utf8") as f:
            f.write(body)
        jobs.append(path)
    results = run_parallel(jobs)
    out = {}
    for si, (rc, o, e) in enumerate(results):
        if rc != 0:
            return None, "coqc failed on shard %d: %s" % (si, (e or o)[-3000:])
        m = re.search(r"=\s*(\[.*\])\s*:\s*list \(nat \* list nat\)", o, re.S)
        if not m:
            return None, "unparsable coqc output on shard %d: %s" % (si, o[-2000:])
        for idx, codes in re.findall(r"\((\d+),\s*\[([0-9;\s]*)\]\)", m.group(1)):
            out[si * shard + int(idx)] = [int(x) for x in re.findall(r"\d+", codes)]
    return out, None


def run_parallel(jobs, timeout=900):
    import time
    results = [None] * len(jobs)
    idx, running = 0, []
    while idx < len(jobs) or running:
        while idx < len(jobs) and len(running) < common.NCPU:
            p = subprocess.Popen(["timeout", str(timeout), "coqc", "-Q", common.COQ, "Statham", "-w", "none", jobs[idx]],
                                 stdout=subprocess.PIPE, stderr=subprocess.PIPE, text=True, cwd=common.WORK)
            running.append((idx, p))
            idx += 1
        for item in list(running):
            i, p = item
            if p.poll() is not None:
                o, e = p.communicate()
                results[i] = (p.returncode, o, e)
                running.remove(item)
        time.sleep(0.02)
    return results


def show_case(case_term, fn="show_case", mods=("Elem", "Validate", "Parser", "RunSchema")):
    body = common.CASE_PRELUDE.format(mods=" ".join(mods), extra="")
    body += "Eval vm_compute in (%s %s).\n" % (fn, case_term)
    rc, o, e = common.run_coq_file(body, "show")
    return (o if rc == 0 else e)


def run_stream(items, tag="sc"):
    """items: iterable of (schema, values, stream).  Returns (metas, error): metas = list of
    dict(schema, ob, stream, codes) for the modelled cases; unmodelled ones are counted."""
    cases, metas, unmodelled = [], [], 0
    for s, vals, stream in items:
        try:
            ob = observe(s, vals)
        except Unmodelled:
            unmodelled += 1
            continue
        cases.append(cq_case(s, ob["parse_obs"], ob["vals"]))
        metas.append({"schema": s, "ob": ob, "stream": stream, "codes": []})
    codes, err = run_cases(cases, tag=tag)
    for idx, cs in (codes or {}).items():
        metas[idx]["codes"] = cs
    return metas, unmodelled, err


def vals_json(ob):
    return ["__NotPassed__" if v is NP else v for v, _ in ob["vals"]]


def vals_from_json(vs):
    return [NP if v == "__NotPassed__" else v for v in vs]


# ---------------------------------------------------------------------------------------------
# element trees given directly (DSL): Model/RunElem.v
# ---------------------------------------------------------------------------------------------
def observe_elem(elem, values):
    """-> list of (value|NP, canonical outcome) and the raw (tag, result) list"""
    vals, raw = [], []
    for v in values:
        tag, r = impl_call(elem, v)
        raw.append((tag, r))
        if tag == "ok":
            vals.append((v, ["ok", canon_result(r)]))
        else:
            vals.append((v, [tag]))
    return vals, raw


def cq_ecase(tables_src, elem, vals_obs):
    """tables_src: any JSON-like structure holding the patterns/formats/strings in play (a spec doc or schema)."""
    from canon import cq_elem
    values = [v for v, _ in vals_obs]
    ret, strs = regex_table(tables_src, values)
    fmt = format_table(tables_src, strs)
    return "(mkECase %s %s %s %s)" % (
        cq_list(["(%s, %s)" % (cq_str(p), cq_list([cq_str(s) for s in l])) for p, l in ret.items()]),
        cq_list(["(%s, %s)" % (cq_str(f), cq_list([cq_str(s) for s in l])) for f, l in fmt.items()]),
        cq_elem(elem),
        cq_list(["(%s, %s)" % (cq_option(None if v is NP else cq_json(v)), cq_json(o)) for v, o in vals_obs]),
    )


def run_ecases(cases, tag="ec", shard=120):
    return eval_codes(["Elem", "Validate", "RunElem"], "run_elem_case", cases, tag=tag, shard=shard)
