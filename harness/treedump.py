"""Canonical structural dump of a whole element tree as it is *now*: every element object, class
and property object reachable from the roots, by identity (indices instead of ids), with all
instance attributes (private ones and any newly added cache included), the binding of every
property (name, source, parent) and class attributes.  deepcopy would not copy classes, so
"unchanged" is judged on this dump."""


def _imports():
    from statham.schema.constants import NotPassed
    from statham.schema.elements import Element
    from statham.schema.elements.meta import ObjectMeta
    from statham.schema.property import _Property
    return NotPassed, Element, ObjectMeta, _Property


def dump(roots):
    NotPassed, Element, ObjectMeta, _Property = _imports()
    ids, nodes = {}, []

    def ref(o):
        if id(o) in ids:
            return ["ref", ids[id(o)]]
        n = len(nodes)
        ids[id(o)] = n
        nodes.append(None)
        if isinstance(o, _Property):
            nodes[n] = {"kind": "property", "name": val(o.name), "source": val(o.source), "required": val(o.required),
                        "parent": ref(o.parent) if isinstance(o.parent, (Element, ObjectMeta)) else val(o.parent),
                        "element": val(o.element),
                        "extra": {k: val(v) for k, v in vars(o).items() if k not in ("name", "source", "required", "parent", "element")}}
        elif isinstance(o, ObjectMeta):
            attrs = {k: val(v) for k, v in vars(o).items() if not (k.startswith("__") and k.endswith("__"))}
            nodes[n] = {"kind": "class", "name": o.__name__, "bases": [b.__name__ for b in o.__bases__], "doc": o.__doc__, "attrs": attrs}
        else:
            nodes[n] = {"kind": "element", "class": type(o).__name__, "attrs": {k: val(v) for k, v in vars(o).items()}}
        return ["ref", n]

    def val(v):
        if isinstance(v, NotPassed):
            return ["NotPassed"]
        if v is None or isinstance(v, str):
            return v
        if isinstance(v, bool):
            return ["bool", v]
        if isinstance(v, int):
            return ["int", str(v)]
        if isinstance(v, float):
            return ["float", v.hex()]
        if isinstance(v, (Element, ObjectMeta, _Property)):
            return ref(v)
        if isinstance(v, (list, tuple)):
            return [type(v).__name__] + [val(x) for x in v]
        if isinstance(v, dict):
            out = [type(v).__name__] + [[val(k), val(x)] for k, x in v.items()]
            try:
                parent = vars(v).get("_parent")
            except TypeError:
                parent = None
            if parent is not None:
                out.append(["_parent", ref(parent)])
            return out
        if isinstance(v, (set, frozenset)):
            return ["set"] + sorted(repr(x) for x in v)
        return ["other", type(v).__name__, repr(v)[:80]]

    rs = [ref(r) for r in roots]
    return {"roots": rs, "nodes": nodes}


def property_cells(roots):
    """(key, owner index, name, source, parent index or None) for every property object stored in a
    properties dict of a reachable element/class, owner indices as in dump()"""
    NotPassed, Element, ObjectMeta, _Property = _imports()
    d = dump(roots)
    cells = []
    for i, n in enumerate(d["nodes"]):
        if n["kind"] in ("element", "class"):
            props = n["attrs"].get("_properties")
            if isinstance(props, list) and props and props[0] == "_PropertyDict":
                for pair in props[1:]:
                    if pair and pair[0] == "_parent":
                        continue
                    key, pref = pair
                    p = d["nodes"][pref[1]]
                    parent = p["parent"][1] if isinstance(p["parent"], list) and p["parent"][:1] == ["ref"] else None
                    cells.append((key, i, p["name"], p["source"], parent))
    return cells
