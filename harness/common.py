"""Shared machinery of the checks: build, run the model in Coq, evidence, findings."""
import contextlib
import fcntl
import hashlib
import json
import os
import random
import re
import shutil
import signal
import subprocess
import sys
import time

VERIF = os.path.dirname(os.path.dirname(os.path.abspath(__file__)))
COQ = os.path.join(VERIF, "coq")
REPO = os.environ.get("VERIF_REPO", "/repo")
PY = "/venv/bin/python"
PYVT = shutil.which("python3-vt") or "/opt/veriftools/pyvenv/bin/python"
WORK = os.path.join(VERIF, ".work", str(os.getpid()))
NCPU = max(1, min(16, os.cpu_count() or 1))

TRUSTED_BASE = [
    "Coq 8.16.1 kernel incl. its vm_compute machine (no native_compute)",
    "axioms: none declared by the development; per-theorem Print Assumptions output is recorded in this file",
    "harness/translate.py (inspect/ast reader that regenerates coq/Generated/*.v from /repo on every run)",
    "correspondence harness: Python generators + canonicaliser; model evaluated inside Coq by vm_compute (no extraction)",
    "modelled Python semantics (==, dict order, isinstance priority, float arithmetic via Floats.SpecFloat binary64) and oracles (re, unicodedata, dateutil, uuid, json_ref_dict) as listed in DESIGN.md section 3 and 5",
]


def ensure_work():
    os.makedirs(WORK, exist_ok=True)
    return WORK


def cleanup_work():
    if not os.environ.get("VERIF_KEEP_WORK"):
        shutil.rmtree(WORK, ignore_errors=True)


@contextlib.contextmanager
def coq_lock():
    os.makedirs(COQ, exist_ok=True)
    with open(os.path.join(COQ, ".lock"), "w") as lk:
        fcntl.flock(lk, fcntl.LOCK_EX)
        try:
            yield
        finally:
            fcntl.flock(lk, fcntl.LOCK_UN)


def impl_env(hashseed="0"):
    env = dict(os.environ)
    env["PYTHONPATH"] = REPO
    env["PYTHONHASHSEED"] = str(hashseed)
    env["PYTHONDONTWRITEBYTECODE"] = "1"
    env["STATHAM_VERIF"] = "1"
    return env


def run_translator():
    """Regenerate coq/Generated from the working tree.  Returns the report dict."""
    out = subprocess.run(
        [PY, "-B", os.path.join(VERIF, "harness", "translate.py")],
        env=impl_env(), capture_output=True, text=True, timeout=300,
    )
    if out.returncode != 0:
        return {"__error__": {"status": "translator crashed: " + out.stderr[-2000:], "changed": False, "sha256": ""}}
    return json.loads(out.stdout)


def coq_project_files():
    files = []
    for sub in ("Model", "Generated", "Proofs", "Properties"):
        d = os.path.join(COQ, sub)
        if os.path.isdir(d):
            for f in sorted(os.listdir(d)):
                if f.endswith(".v") and not f.startswith("."):
                    files.append("%s/%s" % (sub, f))
    return files


def write_coq_project():
    text = (
        "-Q . Statham\n"
        "-arg -w -arg -notation-overridden,-deprecated-hint-without-locality,-deprecated-instance-without-locality,-unused-pattern-matching-variable\n"
        + "\n".join(coq_project_files()) + "\n"
    )
    p = os.path.join(COQ, "_CoqProject")
    old = open(p).read() if os.path.exists(p) else None
    if old != text or not os.path.exists(os.path.join(COQ, "Makefile")):
        with open(p, "w") as f:
            f.write(text)
        subprocess.run(["coq_makefile", "-f", "_CoqProject", "-o", "Makefile"], cwd=COQ,
                       check=True, capture_output=True, timeout=120)


def make(targets, timeout=1500, keep_going=False):
    """Full .vo build of the given targets.  Returns (ok, output)."""
    cmd = ["timeout", str(timeout), "make", "-j%d" % NCPU]
    if keep_going:
        cmd.append("-k")
    cmd += targets
    out = subprocess.run(cmd, cwd=COQ, capture_output=True, text=True)
    return out.returncode == 0, out.stdout + out.stderr


HASHES = os.path.join(COQ, ".built_hashes.json")


def _sha(path):
    import hashlib
    with open(path, "rb") as f:
        return hashlib.sha256(f.read()).hexdigest()


def invalidate_stale_objects():
    """make decides by modification time; a .v restored or copied with an OLD time stamp (rsync -a, a backup, a seeded run
    followed by a restore) would leave a newer .vo compiled from other text in place.  Every .vo is therefore tied to the
    sha256 of the source it was compiled from, and removed when the source text differs."""
    try:
        hashes = json.load(open(HASHES))
    except (OSError, ValueError):
        hashes = {}
    removed = []
    for f in coq_project_files():
        src = os.path.join(COQ, f)
        vo = src + "o"
        if os.path.exists(vo) and hashes.get(f) != _sha(src):
            for ext in ("o", "ok", "os"):
                with contextlib.suppress(FileNotFoundError):
                    os.remove(src + ext)
            removed.append(f)
    return removed


def record_object_hashes():
    hashes = {}
    for f in coq_project_files():
        src = os.path.join(COQ, f)
        if os.path.exists(src + "o"):
            hashes[f] = _sha(src)
    tmp = HASHES + ".tmp%d" % os.getpid()
    with open(tmp, "w") as fh:
        json.dump(hashes, fh)
    os.replace(tmp, HASHES)


def model_targets():
    return [f[:-2] + ".vo" for f in coq_project_files() if f.startswith("Model/")]


def build_for(prop):
    """translate; make the model (always) and Properties/<prop>.vo.
    Returns dict(translator=..., model_ok, proof_ok, log, theorems, assumptions)."""
    with coq_lock():
        rep = run_translator()
        write_coq_project()
        invalidate_stale_objects()
        m_ok, m_log = make(model_targets())
        target = "Properties/%s.vo" % prop
        # force re-check output capture: Print Assumptions text is only emitted when compiled,
        # so keep a sidecar log next to the .vo
        p_ok, p_log = make([target])
        side = os.path.join(COQ, "Properties", ".%s.log" % prop)
        if p_ok and ("Closed under" in p_log or "Axioms:" in p_log or not os.path.exists(side)):
            if "COQC Properties/%s.v" % prop in p_log:
                with open(side, "w") as f:
                    f.write(p_log)
        if p_ok and not os.path.exists(side):
            # .vo was up to date but the sidecar is missing: rebuild just that file
            try:
                os.remove(os.path.join(COQ, target))
            except FileNotFoundError:
                pass
            p_ok, p_log = make([target])
            with open(side, "w") as f:
                f.write(p_log)
        if p_ok:
            p_text = open(side).read()
        else:
            p_text = p_log
            with contextlib.suppress(FileNotFoundError):
                os.remove(side)
        record_object_hashes()
    theorems = property_theorems(prop)
    return {
        "translator": rep,
        "model_ok": m_ok,
        "model_log": "" if m_ok else m_log[-4000:],
        "proof_ok": p_ok,
        "proof_log": "" if p_ok else p_log[-6000:],
        "theorems": theorems,
        "assumptions": parse_assumptions(p_text) if p_ok else {},
        "checker_cmd": "cd /verif/coq && make -j%d Properties/%s.vo  (coq_makefile full .vo build, Coq 8.16.1)" % (NCPU, prop),
    }


def property_theorems(prop):
    p = os.path.join(COQ, "Properties", prop + ".v")
    if not os.path.exists(p):
        return []
    text = open(p).read()
    return re.findall(r"^(?:Theorem|Lemma|Example|Corollary)\s+([A-Za-z0-9_']+)", text, re.M)


def parse_assumptions(log):
    """Map 'Print Assumptions' blocks to their results, in order of appearance."""
    res = []
    cur = None
    for line in log.splitlines():
        if line.startswith("Closed under the global context"):
            res.append("closed")
            cur = None
        elif line.startswith("Axioms:"):
            cur = []
            res.append(cur)
        elif cur is not None:
            if line.startswith(" ") or ":" in line:
                cur.append(line.strip())
            else:
                cur = None
    return {"blocks": res, "all_closed": all(r == "closed" for r in res) and bool(res)}


FORBIDDEN = re.compile(r"\b(Admitted|admit|Axiom|Axioms|Parameter|Parameters|Conjecture|Hypothesis|Variable|bypass_check)\b|Unset Guard|Unset Positivity|Unset Universe|type-in-type|impredicative-set")


def grep_forbidden():
    """Fail-closed scan of the development for escape hatches (Variables inside Sections allowed)."""
    bad = []
    for f in coq_project_files():
        path = os.path.join(COQ, f)
        depth = 0
        in_comment = 0
        for i, line in enumerate(open(path, encoding="utf8"), 1):
            s = re.sub(r"\(\*.*?\*\)", "", line)
            if "(*" in s and "*)" not in s:
                in_comment += 1
                s = s.split("(*")[0]
            elif "*)" in s and in_comment:
                in_comment -= 1
                s = s.split("*)", 1)[1]
            elif in_comment:
                continue
            if re.match(r"\s*Section\b", s):
                depth += 1
            if re.match(r"\s*End\b", s) and depth:
                depth -= 1
            m = FORBIDDEN.search(s)
            if m:
                w = m.group(0)
                if w in ("Variable", "Hypothesis", "Context") and depth > 0:
                    continue
                if w == "Axioms":
                    continue
                bad.append("%s:%d: %s" % (f, i, line.strip()))
    return bad


# ---------------------------------------------------------------------------
# running the model inside Coq
# ---------------------------------------------------------------------------
CASE_PRELUDE = (
    "From Coq Require Import String Floats.SpecFloat.\n"
    "From Statham.Model Require Import Str Json {mods}.\n"
    "{extra}"
    "Local Open Scope string_scope.\nLocal Open Scope list_scope.\n"
    "Set Printing Width 1000000.\nSet Printing Depth 1000000.\n"
)


def run_coq_file(text, name, timeout=600):
    ensure_work()
    path = os.path.join(WORK, name + ".v")
    with open(path, "w", encoding="utf8") as f:
        f.write(text)
    out = subprocess.run(
        ["timeout", str(timeout), "coqc", "-Q", COQ, "Statham", "-w", "none", path],
        capture_output=True, text=True, cwd=WORK,
    )
    return out.returncode, out.stdout, out.stderr


def eval_mismatches(mods, check_fn, cases, extra="", shard=400, tag="cases", print_fn=None):
    """cases: list of Coq terms (text).  `check_fn : case -> bool` in the model.
    Returns (list of mismatching indices, dict idx -> printed model output, error text or None)."""
    shards = [cases[i:i + shard] for i in range(0, len(cases), shard)]
    jobs = []
    ensure_work()
    for si, sh in enumerate(shards):
        body = CASE_PRELUDE.format(mods=" ".join(mods), extra=extra)
        body += "Definition typed_cases {A} (f : A -> bool) (l : list A) : list A := l.\n"
        body += "Definition cases := typed_cases %s [\n  " % check_fn + ";\n  ".join(sh) + "\n].\n"
        body += (
            "Definition mism := (fix go (i : nat) l := match l with [] => [] | c :: r => "
            "if %s c then go (S i) r else i :: go (S i) r end) O cases.\n" % check_fn
        )
        body += "Eval vm_compute in mism.\n"
        path = os.path.join(WORK, "%s_%d.v" % (tag, si))
        with open(path, "w", encoding="utf8") as f:
            f.write(body)
        jobs.append(path)
    procs = []
    results = [None] * len(jobs)
    # run up to NCPU coqc in parallel
    idx = 0
    running = []
    while idx < len(jobs) or running:
        while idx < len(jobs) and len(running) < NCPU:
            p = subprocess.Popen(
                ["timeout", "900", "coqc", "-Q", COQ, "Statham", "-w", "none", jobs[idx]],
                stdout=subprocess.PIPE, stderr=subprocess.PIPE, text=True, cwd=WORK,
            )
            running.append((idx, p))
            idx += 1
        for item in list(running):
            i, p = item
            if p.poll() is not None:
                o, e = p.communicate()
                results[i] = (p.returncode, o, e)
                running.remove(item)
        time.sleep(0.02)
    mism = []
    for si, (rc, o, e) in enumerate(results):
        if rc != 0:
            return None, {}, "coqc failed on shard %d: %s" % (si, (e or o)[-3000:])
        m = re.search(r"=\s*\[(.*?)\]\s*:\s*list nat", o, re.S)
        if not m:
            return None, {}, "unparsable coqc output on shard %d: %s" % (si, o[-2000:])
        for tok in re.findall(r"\d+", m.group(1)):
            mism.append(si * shard + int(tok))
    printed = {}
    if mism and print_fn:
        for gi in mism[:10]:
            body = CASE_PRELUDE.format(mods=" ".join(mods), extra=extra)
            body += "Eval vm_compute in (%s (%s)).\n" % (print_fn, cases[gi])
            rc, o, e = run_coq_file(body, "%s_show_%d" % (tag, gi))
            printed[gi] = (o if rc == 0 else e)[-4000:]
    return mism, printed, None


# ---------------------------------------------------------------------------
# timeouts for implementation calls
# ---------------------------------------------------------------------------
class ImplTimeout(Exception):
    pass


@contextlib.contextmanager
def time_limit(seconds):
    def handler(signum, frame):
        raise ImplTimeout("implementation call exceeded %ss" % seconds)

    old = signal.signal(signal.SIGALRM, handler)
    signal.setitimer(signal.ITIMER_REAL, seconds)
    try:
        yield
    finally:
        signal.setitimer(signal.ITIMER_REAL, 0)
        signal.signal(signal.SIGALRM, old)


# ---------------------------------------------------------------------------
# findings, replays, evidence
# ---------------------------------------------------------------------------
def load_findings(prop):
    p = os.path.join(VERIF, "known_findings.json")
    if not os.path.exists(p):
        return []
    return [f for f in json.load(open(p))["findings"] if f["property"] == prop]


def write_replay(prop, payload):
    d = os.path.join(VERIF, "replays")
    os.makedirs(d, exist_ok=True)
    blob = json.dumps(payload, indent=1, default=repr)   # insertion order kept: dict order can matter
    h = hashlib.sha256(blob.encode()).hexdigest()[:12]
    path = os.path.join(d, "%s-%s.json" % (prop, h))
    with open(path, "w") as f:
        f.write(blob)
    return path


class Result:
    """Accumulates what one run of one property check found."""

    def __init__(self, prop, tier, seed):
        self.prop, self.tier, self.seed = prop, tier, seed
        self.t0 = time.time()
        self.violations = []        # list of (replay payload, suffix)
        self.known = {}             # finding id -> count
        self.known_what = {}
        self.coverage = {}
        self.samples = []
        self.notes = []
        self.evaluations = 0
        self.nontrivial = set()

    def violation(self, payload, no_input=False):
        self.violations.append((payload, no_input))

    def known_finding(self, fid, what):
        self.known[fid] = self.known.get(fid, 0) + 1
        self.known_what[fid] = what

    def sample(self, x, limit=6):
        if len(self.samples) < limit:
            self.samples.append(x)

    def count(self, key, nontrivial=True):
        self.evaluations += 1
        if nontrivial:
            self.nontrivial.add(key if isinstance(key, (str, int, tuple)) else repr(key))


def finish(res, build, extra_cov=None, assumptions_extra=None):
    """Print VIOLATION / KNOWN-FINDING lines, write evidence, return exit code."""
    prop = res.prop
    lines = []
    exit_code = 0
    seen_payload = set()
    for payload, no_input in res.violations[:5]:
        path = write_replay(prop, payload)
        if path in seen_payload:
            continue
        seen_payload.add(path)
        lines.append("VIOLATION property=%s replay=%s%s" % (prop, path, " no-failing-input-found" if no_input else ""))
        exit_code = 1
    for fid, n in sorted(res.known.items()):
        lines.append("KNOWN-FINDING: property=%s %s [%s, %d input(s) this run]" % (prop, res.known_what[fid], fid, n))
    thms = build["theorems"] if build else []
    obligations = len(thms) + len((build or {}).get("translator", {}))
    discharged = obligations if (build and build["proof_ok"]) else 0
    cov = {
        "obligations": max(obligations, 1),
        "discharged": discharged if discharged else 0,
        "checker_cmd": (build or {}).get("checker_cmd", "n/a"),
        "trusted_base": TRUSTED_BASE,
        "theorems": thms,
        "print_assumptions": (build or {}).get("assumptions", {}),
        "generated_tables": {k: v.get("status") for k, v in (build or {}).get("translator", {}).items()},
        "generated_table_sha256": {k: v.get("sha256") for k, v in (build or {}).get("translator", {}).items()},
        "evaluations": res.evaluations,
        "distinct_nontrivial": len(res.nontrivial),
        "samples": res.samples or ["(no generated cases in this run)"],
        "known_findings_seen": res.known,
        "notes": res.notes,
    }
    cov.update(res.coverage)
    if extra_cov:
        cov.update(extra_cov)
    ev = {
        "property_id": prop,
        "tier": res.tier,
        "seed": res.seed,
        "level": "proof",
        "coverage": cov,
        "assumptions": assumptions_extra or [],
        "wall_s": round(time.time() - res.t0, 2),
        "violations": len(lines) and sum(1 for l in lines if l.startswith("VIOLATION")),
    }
    os.makedirs(os.path.join(VERIF, "evidence"), exist_ok=True)
    with open(os.path.join(VERIF, "evidence", prop + ".json"), "w") as f:
        json.dump(ev, f, indent=1, sort_keys=True, default=repr)
    for l in lines:
        print(l)
    print("%s %s tier=%s seed=%d evaluations=%d wall=%.1fs proof_ok=%s" % (
        prop, "FAIL" if exit_code else "ok", res.tier, res.seed, res.evaluations,
        time.time() - res.t0, bool(build and build["proof_ok"])))
    return exit_code


def rng_for(seed, stream):
    return random.Random("%d/%s" % (seed, stream))
