"""Gen_writes: every store that statham/schema code (outside the parser) can perform on an object
that may be shared: attribute/subscript assignments, augmented assignments, in-place mutator
calls, setattr/delattr, del, global/nonlocal.  Writes to the object under construction inside
__init__/__new__ (root `self`/`cls`/the freshly created name) and mutations of locals that are
provably fresh (every binding of the name in that function is a display, a comprehension or a
call) are classified Fresh and left out.  Entries are keyed by module, function and the
normalised target expression — never by line numbers or local formatting."""
import ast
import os

from coqemit import cq_str, cq_list
from translate import REPO, register, ShapeNotFound

MODULES = [
    "statham/schema/constants.py", "statham/schema/helpers.py", "statham/schema/property.py",
    "statham/schema/elements/array.py", "statham/schema/elements/base.py", "statham/schema/elements/boolean.py",
    "statham/schema/elements/composition.py", "statham/schema/elements/items.py", "statham/schema/elements/meta.py",
    "statham/schema/elements/null.py", "statham/schema/elements/numeric.py", "statham/schema/elements/object.py",
    "statham/schema/elements/properties.py", "statham/schema/elements/string.py",
    "statham/schema/validation/__init__.py", "statham/schema/validation/array.py", "statham/schema/validation/base.py",
    "statham/schema/validation/format.py", "statham/schema/validation/numeric.py", "statham/schema/validation/object.py",
    "statham/schema/validation/string.py",
]
MUTATORS = {"append", "extend", "insert", "pop", "popitem", "remove", "clear", "sort", "reverse", "update", "setdefault",
            "add", "discard", "__setitem__", "__delitem__", "__setattr__", "__delattr__", "appendleft", "extendleft",
            "difference_update", "intersection_update", "symmetric_difference_update"}
CTORS = {"__init__", "__new__", "__prepare__"}


def root_and_text(node):
    """root Name of an attribute/subscript chain and a normalised text of the target"""
    parts = []
    cur = node
    while True:
        if isinstance(cur, ast.Attribute):
            parts.append("." + cur.attr)
            cur = cur.value
        elif isinstance(cur, ast.Subscript):
            parts.append("[]")
            cur = cur.value
        elif isinstance(cur, ast.Call):
            parts.append("()")
            cur = cur.func
        else:
            break
    root = cur.id if isinstance(cur, ast.Name) else type(cur).__name__
    return root, root + "".join(reversed(parts))


def fresh_locals(fn):
    """local names all of whose bindings in fn are displays / comprehensions / calls (fresh objects)"""
    binds = {}
    params = {a.arg for a in fn.args.args + fn.args.kwonlyargs + fn.args.posonlyargs}
    if fn.args.vararg:
        params.add(fn.args.vararg.arg)
    if fn.args.kwarg:
        params.add(fn.args.kwarg.arg)
    for node in ast.walk(fn):
        if isinstance(node, ast.Assign):
            for t in node.targets:
                if isinstance(t, ast.Name):
                    binds.setdefault(t.id, []).append(node.value)
        elif isinstance(node, ast.AnnAssign) and isinstance(node.target, ast.Name) and node.value is not None:
            binds.setdefault(node.target.id, []).append(node.value)
        elif isinstance(node, (ast.For, ast.comprehension)):
            tgt = node.target
            for n in ast.walk(tgt):
                if isinstance(n, ast.Name):
                    binds.setdefault(n.id, []).append(None)          # bound to an element of something: not fresh
        elif isinstance(node, ast.AugAssign) and isinstance(node.target, ast.Name):
            binds.setdefault(node.target.id, []).append(None)
    fresh = set()
    for name, vals in binds.items():
        if name in params:
            continue
        if all(isinstance(v, (ast.List, ast.Dict, ast.Set, ast.ListComp, ast.DictComp, ast.SetComp, ast.Tuple, ast.Constant, ast.JoinedStr))
               or (isinstance(v, ast.Call) and isinstance(v.func, ast.Name) and v.func.id in ("list", "dict", "set", "tuple", "sorted", "cast"))
               for v in vals):
            fresh.add(name)
    return fresh, params


def scan_function(mod, qual, fn, out):
    fresh, params = fresh_locals(fn)
    ctor_roots = set()
    if fn.name in CTORS and fn.args.args:
        ctor_roots.add(fn.args.args[0].arg)           # self / cls / mcs
    # names bound to a freshly created object in a constructor (e.g. cls = type.__new__(...); property_ = _Property(...))
    created = set()
    for node in ast.walk(fn):
        if isinstance(node, (ast.Assign, ast.AnnAssign)):
            val = node.value
            tgts = node.targets if isinstance(node, ast.Assign) else [node.target]
            if isinstance(val, ast.Call):
                f = val.func
                callee = f.id if isinstance(f, ast.Name) else (f.attr if isinstance(f, ast.Attribute) else "")
                if callee in ("cast",) and val.args:
                    inner = val.args[-1]
                    if isinstance(inner, ast.Call):
                        f = inner.func
                        callee = f.id if isinstance(f, ast.Name) else (f.attr if isinstance(f, ast.Attribute) else "")
                if callee[:1].isupper() or callee.lstrip("_")[:1].isupper() or callee == "__new__":
                    for t in tgts:
                        if isinstance(t, ast.Name):
                            created.add(t.id)

    def own(node):
        """walk fn's own body, not nested function definitions (they are scanned separately)"""
        for child in ast.iter_child_nodes(node):
            if isinstance(child, (ast.FunctionDef, ast.AsyncFunctionDef, ast.Lambda)) and child is not fn:
                continue
            yield child
            yield from own(child)

    def record(kind, target_node):
        root, text = root_and_text(target_node)
        if root in ctor_roots or root in created or root in fresh:
            return
        out.append((mod, qual, "%s %s" % (kind, text)))

    for node in own(fn):
        if isinstance(node, ast.Assign):
            for t in node.targets:
                for x in (t.elts if isinstance(t, (ast.Tuple, ast.List)) else [t]):
                    if isinstance(x, (ast.Attribute, ast.Subscript)):
                        record("store", x)
        elif isinstance(node, ast.AnnAssign):
            if isinstance(node.target, (ast.Attribute, ast.Subscript)) and node.value is not None:
                record("store", node.target)
        elif isinstance(node, ast.AugAssign):
            if isinstance(node.target, (ast.Attribute, ast.Subscript)):
                record("augstore", node.target)
            elif isinstance(node.target, ast.Name) and node.target.id not in fresh:
                out.append((mod, qual, "augassign %s" % node.target.id))       # may mutate an aliased object in place
        elif isinstance(node, ast.Delete):
            for t in node.targets:
                if isinstance(t, (ast.Attribute, ast.Subscript)):
                    record("del", t)
        elif isinstance(node, (ast.Global, ast.Nonlocal)):
            out.append((mod, qual, "%s %s" % (type(node).__name__.lower(), ",".join(node.names))))
        elif isinstance(node, ast.Call):
            f = node.func
            if isinstance(f, ast.Attribute) and f.attr in MUTATORS:
                record("call", f)
            elif isinstance(f, ast.Name) and f.id in ("setattr", "delattr") and node.args:
                a0 = node.args[0]
                root = a0.id if isinstance(a0, ast.Name) else type(a0).__name__
                if root not in ctor_roots and root not in created:
                    out.append((mod, qual, "%s %s" % (f.id, root)))


def scan_module(rel, out):
    with open(os.path.join(REPO, rel), encoding="utf8") as f:
        tree = ast.parse(f.read())
    mod = rel[len("statham/schema/"):-3].replace("/", ".")

    def visit(node, prefix):
        for child in ast.iter_child_nodes(node):
            if isinstance(child, ast.ClassDef):
                visit(child, prefix + child.name + ".")
            elif isinstance(child, (ast.FunctionDef, ast.AsyncFunctionDef)):
                scan_function(mod, prefix + child.name, child, out)
                visit(child, prefix + child.name + ".")
            elif isinstance(child, (ast.If, ast.Try, ast.With, ast.For, ast.While)):
                visit(child, prefix)
    visit(tree, "")
    # module-level stores to attributes/subscripts of other objects
    for node in tree.body:
        if isinstance(node, ast.Assign):
            for t in node.targets:
                if isinstance(t, (ast.Attribute, ast.Subscript)):
                    out.append((mod, "<module>", "store %s" % root_and_text(t)[1]))
        elif isinstance(node, ast.Expr) and isinstance(node.value, ast.Call):
            f = node.value.func
            if isinstance(f, ast.Attribute) and f.attr in MUTATORS:
                out.append((mod, "<module>", "call %s" % root_and_text(f)[1]))


def gen_writes():
    out = []
    found = 0
    for rel in MODULES:
        if not os.path.exists(os.path.join(REPO, rel)):
            continue
        found += 1
        scan_module(rel, out)
    # new modules under statham/schema that the list above does not know are scanned too (fail closed)
    for dirpath, _, files in os.walk(os.path.join(REPO, "statham/schema")):
        for fn in files:
            rel = os.path.relpath(os.path.join(dirpath, fn), REPO)
            if fn.endswith(".py") and rel not in MODULES and rel not in ("statham/schema/parser.py", "statham/schema/exceptions.py",
                                                                          "statham/schema/__init__.py", "statham/schema/elements/__init__.py"):
                scan_module(rel, out)
    if found < 15:
        raise ShapeNotFound("statham/schema modules (%d found)" % found)
    out = sorted(set(out))
    return "Definition writes : list (str * str * str) :=\n  %s.\n" % cq_list(
        ["(%s, %s, %s)" % (cq_str(a), cq_str(b), cq_str(c)) for a, b, c in out])


def sent_writes():
    return 'Definition writes : list (str * str * str) := [(s_ "SENTINEL", s_ "shape not found", s_ "")].\n'


register("Gen_writes", gen_writes, sent_writes)
