"""Parse the terms Coq prints for `Eval vm_compute` results (lists, pairs, constructor
applications, numerals) and decode model `json` values back to Python."""
import re

TOK = re.compile(r"\s*(?:(\[|\]|\(|\)|;|,)|(-?\d+)(?:%[A-Za-z_]+)?|([A-Za-z_][A-Za-z0-9_'.]*)|(\"(?:[^\"]|\"\")*\")(?:%[a-z]+)?|(%[A-Za-z_]+))")


def tokenize(s):
    pos, out = 0, []
    s = s.strip()
    while pos < len(s):
        m = TOK.match(s, pos)
        if not m:
            raise ValueError("cannot tokenize at %r" % s[pos:pos + 40])
        pos = m.end()
        if m.group(1):
            out.append(("p", m.group(1)))
        elif m.group(2) is not None:
            out.append(("n", int(m.group(2))))
        elif m.group(3):
            out.append(("i", m.group(3)))
        elif m.group(4):
            out.append(("s", m.group(4)[1:-1].replace('""', '"')))
        # scope annotations after parenthesised terms are dropped
    return out


class P:
    def __init__(self, toks):
        self.t, self.i = toks, 0

    def peek(self):
        return self.t[self.i] if self.i < len(self.t) else ("e", None)

    def next(self):
        x = self.peek()
        self.i += 1
        return x

    def atom(self):
        k, v = self.next()
        if k == "n":
            return v
        if k == "s":
            return ("str", v)
        if k == "i":
            return (v,)
        if (k, v) == ("p", "["):
            items = []
            if self.peek() == ("p", "]"):
                self.next()
                return items
            while True:
                items.append(self.term())
                k2, v2 = self.next()
                if (k2, v2) == ("p", "]"):
                    return items
                assert (k2, v2) == ("p", ";"), (k2, v2)
        if (k, v) == ("p", "("):
            first = self.term()
            parts = [first]
            while self.peek() == ("p", ","):
                self.next()
                parts.append(self.term())
            assert self.next() == ("p", ")")
            if len(parts) == 1:
                return first
            # Coq prints (a, b, c) for ((a, b), c)
            res = parts[0]
            for p in parts[1:]:
                res = ("pair", res, p)
            return res
        raise ValueError("unexpected token %r" % ((k, v),))

    def term(self):
        head = self.atom()
        if isinstance(head, tuple) and len(head) == 1 and not head[0][0].islower() or \
                (isinstance(head, tuple) and len(head) == 1 and head[0] in ("inl", "inr")):
            args = []
            while self.peek()[0] in ("n", "i", "s") or self.peek() in (("p", "["), ("p", "(")):
                args.append(self.atom())
            return (head[0],) + tuple(args)
        return head


def parse_term(s):
    return P(tokenize(s)).term()


def result_text(coq_output):
    """The term printed after '=' by Eval (type annotation stripped)."""
    m = re.search(r"=\s*(.*)\n\s*:\s", coq_output, re.S)
    return m.group(1) if m else coq_output


def to_str(t):
    return "".join(chr(c) for c in t)


def float_of(t):
    if t[0] == "S754_zero":
        return -0.0 if t[1] == ("true",) else 0.0
    if t[0] == "S754_finite":
        sign = -1 if t[1] == ("true",) else 1
        return sign * t[2] * (2.0 ** t[3])
    if t[0] == "S754_infinity":
        return float("-inf") if t[1] == ("true",) else float("inf")
    return float("nan")


def to_json(t):
    """decoded model json term -> Python value"""
    if t == ("JNull",):
        return None
    if t[0] == "JBool":
        return t[1] == ("true",)
    if t[0] == "JInt":
        return t[1]
    if t[0] == "JFlt":
        return float_of(t[1])
    if t[0] == "JStr":
        return to_str(t[1])
    if t[0] == "JArr":
        return [to_json(x) for x in t[1]]
    if t[0] == "JObj":
        return {to_str(p[1]): to_json(p[2]) for p in t[1]}
    raise ValueError("not json: %r" % (t,))


def pretty(t):
    """Best-effort readable rendering of any decoded term (json subterms decoded)."""
    if isinstance(t, tuple) and t and isinstance(t[0], str) and t[0].startswith("J") and t[0] in (
            "JNull", "JBool", "JInt", "JFlt", "JStr", "JArr", "JObj"):
        try:
            return to_json(t)
        except Exception:
            pass
    if isinstance(t, tuple):
        if t and t[0] == "pair":
            return [pretty(t[1]), pretty(t[2])]
        if len(t) == 1:
            return t[0]
        return {t[0]: [pretty(x) for x in t[1:]]}
    if isinstance(t, list):
        if t and all(isinstance(x, int) for x in t):
            try:
                return to_str(t)
            except Exception:
                return t
        return [pretty(x) for x in t]
    return t
