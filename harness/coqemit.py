"""Emit Coq terms (as text) for the model's data types from Python values."""
import math

HEADER = (
    "From Coq Require Import String Floats.SpecFloat.\n"
    "From Statham.Model Require Import Str Json.\n"
    "Local Open Scope string_scope.\nLocal Open Scope list_scope.\n"
)


def cq_bool(b):
    return "true" if b else "false"


def cq_nat(n):
    assert 0 <= n < 5000, n
    return "%d%%nat" % n


def cq_N(n):
    return "%d%%N" % n


def cq_Z(z):
    return "(%d)%%Z" % z


def cq_str(s):
    """Python str -> Coq term of type str (list N)."""
    if all(32 <= ord(c) < 127 and c != '"' for c in s):
        return '(s_ "%s")' % s
    return "([" + ";".join(str(ord(c)) for c in s) + "]%N : str)"


def cq_list(items):
    return "[" + "; ".join(items) + "]"


def cq_option(x):
    return "None" if x is None else "(Some %s)" % x


def float_parts(x):
    """finite float -> (sign, mantissa, exponent) canonical binary64, or 'zero'."""
    assert math.isfinite(x)
    if x == 0.0:
        return ("zero", math.copysign(1.0, x) < 0)
    sign = x < 0
    m, e = math.frexp(abs(x))  # abs(x) = m * 2**e, 0.5 <= m < 1
    mant = int(m * (1 << 53))
    exp = e - 53
    assert mant * (2.0 ** 0) == m * (1 << 53)
    if exp < -1074:
        shift = -1074 - exp
        assert mant % (1 << shift) == 0
        mant >>= shift
        exp = -1074
    return (sign, mant, exp)


def cq_float(x):
    if math.isinf(x):
        return "(S754_infinity %s)" % cq_bool(x < 0)
    if math.isnan(x):
        return "S754_nan"
    p = float_parts(x)
    if p[0] == "zero":
        return "(S754_zero %s)" % cq_bool(p[1])
    sign, mant, exp = p
    return "(S754_finite %s %d%%positive (%d)%%Z)" % (cq_bool(sign), mant, exp)


def cq_json(v):
    """Python JSON value -> Coq term of type json."""
    if v is None:
        return "JNull"
    if v is True or v is False:
        return "(JBool %s)" % cq_bool(v)
    if isinstance(v, int):
        return "(JInt %s)" % cq_Z(v)
    if isinstance(v, float):
        return "(JFlt %s)" % cq_float(v)
    if isinstance(v, str):
        return "(JStr %s)" % cq_str(v)
    if isinstance(v, (list, tuple)):
        return "(JArr %s)" % cq_list([cq_json(x) for x in v])
    if isinstance(v, dict):
        return "(JObj %s)" % cq_list(
            ["(%s, %s)" % (cq_str(k), cq_json(x)) for k, x in v.items()]
        )
    raise TypeError("not JSON: %r" % (v,))
