"""Fail-closed translator: regenerate coq/Generated/*.v from /repo's working tree.

Run as:  PYTHONPATH=/repo /venv/bin/python -B harness/translate.py [outdir]
Prefers live introspection; uses `ast` only for facts that live in function
bodies and matches them by shape, never by local names, comments or layout.
If a shape is not found, the table is emitted as a sentinel that makes its
agreement obligation false (the build of the dependent theorem then fails).
Files are only rewritten when their content changed, so `make` stays a no-op
on an unchanged tree.
"""
import ast
import hashlib
import inspect
import json
import os
import sys
import traceback

HERE = os.path.dirname(os.path.abspath(__file__))
sys.path.insert(0, HERE)
from coqemit import cq_str, cq_list, cq_bool, cq_json, cq_option  # noqa: E402

REPO = os.environ.get("VERIF_REPO", "/repo")

PRELUDE = (
    "(* GENERATED from {repo} by harness/translate.py — do not edit. *)\n"
    "From Coq Require Import String.\n"
    "From Statham.Model Require Import Str Json.\n"
    "Local Open Scope string_scope.\nLocal Open Scope list_scope.\n\n"
)


class ShapeNotFound(Exception):
    pass


def src_ast(relpath):
    with open(os.path.join(REPO, relpath), encoding="utf8") as f:
        return ast.parse(f.read())


def find_func(tree, name):
    for node in ast.walk(tree):
        if isinstance(node, (ast.FunctionDef, ast.AsyncFunctionDef)) and node.name == name:
            return node
    raise ShapeNotFound("function %s" % name)


def str_seq(node):
    """A list/tuple/set display of string constants -> list of str, else None."""
    if isinstance(node, (ast.List, ast.Tuple, ast.Set)) and node.elts and all(
        isinstance(e, ast.Constant) and isinstance(e.value, str) for e in node.elts
    ):
        return [e.value for e in node.elts]
    return None


# --------------------------------------------------------------------------
# Gen_orderer_paths: the `paths` list iterated in get_children
# --------------------------------------------------------------------------
def gen_orderer_paths():
    tree = src_ast("statham/serializers/orderer.py")
    fn = find_func(tree, "get_children")
    # shape: the (unique) display of string constants inside get_children that
    # contains dotted path syntax or is iterated by a comprehension.
    cands = []
    for node in ast.walk(fn):
        seq = str_seq(node)
        if seq is not None and len(seq) >= 2:
            cands.append(seq)
    if len(cands) != 1:
        raise ShapeNotFound("paths list in get_children (found %d)" % len(cands))
    paths = cands[0]
    return "Definition paths : list str :=\n  %s.\n" % cq_list([cq_str(p) for p in paths])


def sentinel_orderer_paths():
    return "Definition paths : list str := [].  (* SENTINEL: shape not found *)\n"


TABLES = {
    "Gen_orderer_paths": (gen_orderer_paths, sentinel_orderer_paths),
}


def register(name, gen, sentinel):
    TABLES[name] = (gen, sentinel)


def write_if_changed(path, text):
    try:
        with open(path, encoding="utf8") as f:
            if f.read() == text:
                return False
    except FileNotFoundError:
        pass
    tmp = path + ".tmp%d" % os.getpid()
    with open(tmp, "w", encoding="utf8") as f:
        f.write(text)
    os.replace(tmp, path)
    return True


def main(outdir):
    import translate_tables  # noqa: F401  (registers the remaining tables)
    import translate_writes  # noqa: F401
    import translate_setiter  # noqa: F401

    os.makedirs(outdir, exist_ok=True)
    report = {}
    for name, (gen, sentinel) in sorted(TABLES.items()):
        status = "ok"
        try:
            body = gen()
        except Exception as exc:  # fail closed
            status = "sentinel: %s: %s" % (type(exc).__name__, exc)
            if os.environ.get("VERIF_DEBUG"):
                traceback.print_exc()
            body = sentinel()
        text = PRELUDE.format(repo=REPO) + body
        changed = write_if_changed(os.path.join(outdir, name + ".v"), text)
        report[name] = {
            "status": status,
            "changed": changed,
            "sha256": hashlib.sha256(text.encode()).hexdigest(),
        }
    json.dump(report, sys.stdout, indent=1, sort_keys=True)
    print()


if __name__ == "__main__":
    import statham  # noqa: E402

    assert os.path.realpath(statham.__file__).startswith(os.path.realpath(REPO) + os.sep), (
        statham.__file__,
        REPO,
    )
    import translate as _T  # the importable instance owns TABLES (this file also runs as __main__)

    _T.main(sys.argv[1] if len(sys.argv) > 1 else os.path.join(os.path.dirname(HERE), "coq", "Generated"))
