"""Seeded generators: metaschema-valid Draft-6 schemas over the supported keywords and
schema-directed values.  Every random choice comes from the rng passed in."""
import copy
import math

STR_POOL = ["", "a", "b", "ab", "abc", "x", "p_1", "class", "a b", "foo", "A", "zz", "é", "日本", "a\tb",
            "0", "12", "b1", "aaa", "xyz", "hello world"]
KEY_POOL = ["a", "b", "c", "x", "p_1", "class", "a b", "a-b", "a_b", "foo", "$id", "b1", "default", "items",
            "é", "0", "self_", "name", "type", "__dict__", "__weakref__", "__class__", "__module__", "__slots__"]
SAFE_KEY_POOL = ["a", "b", "c", "x", "p_1", "class", "foo", "$id", "b1", "name", "type", "é", "0", "my key"]
PATTERNS = ["^a", "b$", "^[a-c]+$", "x", "^p_", "^.$", "1", "^(foo|b1)$", "^$", "[0-9]",
            # a backslash together with both kinds of quote (how a pattern is written out again matters: repr, generated source)
            "^[\\w' -]+$", "^\\w+'s\"?$"]
FORMATS = ["uuid", "date-time", "my-format", "email", "UUID", "Date-Time", "uuid "]   # case / spacing variants are OTHER (unregistered) names
TITLES = ["Foo", "Bar", "foo bar", "Baz", "Item", "Thing", "A", "nested thing"]
NUMS = [0, 1, 2, 3, 5, 10, -1, -3, 0.5, 1.5, 2.0, 3.0, 2.5, 0.1, 100, 7, 4, 6]
TYPES = ["string", "integer", "number", "boolean", "null", "array", "object"]
UNSUPPORTED = ["$defs", "if", "then", "else", "unevaluatedItems", "unevaluatedProperties"]


class Cfg:
    def __init__(self, max_depth=3, safe_names=True, allow_format=True, titles=None,
                 p_default=0.15, allow_nothing_default=False, dup_attr=False, required_undeclared=0.1):
        self.max_depth = max_depth
        self.safe_names = safe_names          # property names whose attribute names are pairwise distinct
        self.allow_format = allow_format
        self.titles = titles or TITLES
        self.p_default = p_default
        self.dup_attr = dup_attr
        self.required_undeclared = required_undeclared


def gen_literal(rng, depth=0):
    r = rng.random()
    if r < 0.12:
        return None
    if r < 0.27:
        return rng.choice([True, False])
    if r < 0.45:
        return rng.choice([0, 1, 2, 3, -1, 10])
    if r < 0.55:
        return rng.choice([0.0, 1.0, 1.5, 2.0, -0.5])
    if r < 0.72:
        return rng.choice(STR_POOL)
    if depth >= 2:
        return rng.choice([[], {}, 1, "a"])
    if r < 0.86:
        return [gen_literal(rng, depth + 1) for _ in range(rng.randint(0, 3))]
    return {rng.choice(KEY_POOL): gen_literal(rng, depth + 1) for _ in range(rng.randint(0, 3))}


def _num(rng):
    return rng.choice(NUMS)


def _nonneg(rng):
    return rng.choice([0, 1, 1, 2, 2, 3, 4])


def add_scalar_keywords(rng, s, kinds):
    """kinds: subset of {'num','str','arr','obj','any'} — which validation keywords to consider."""
    if "num" in kinds:
        for kw in ("minimum", "maximum", "exclusiveMinimum", "exclusiveMaximum"):
            if rng.random() < 0.25:
                s[kw] = _num(rng)
        if rng.random() < 0.25:
            s["multipleOf"] = rng.choice([1, 2, 3, 5, 0.5, 1.5, 0.1, 2.0, 0.25])
    if "str" in kinds:
        if rng.random() < 0.3:
            s["minLength"] = _nonneg(rng)
        if rng.random() < 0.3:
            s["maxLength"] = _nonneg(rng)
        if rng.random() < 0.3:
            s["pattern"] = rng.choice(PATTERNS)
        if rng.random() < 0.12:
            s["format"] = rng.choice(FORMATS)
    if "arr" in kinds:
        if rng.random() < 0.3:
            s["minItems"] = _nonneg(rng)
        if rng.random() < 0.3:
            s["maxItems"] = _nonneg(rng)
        if rng.random() < 0.3:
            s["uniqueItems"] = rng.choice([True, True, False])
    if "obj" in kinds:
        if rng.random() < 0.2:
            s["minProperties"] = _nonneg(rng)
        if rng.random() < 0.2:
            s["maxProperties"] = _nonneg(rng)
    if rng.random() < 0.12:
        s["const"] = gen_literal(rng)
    if rng.random() < 0.15:
        s["enum"] = [gen_literal(rng) for _ in range(rng.randint(1, 4))]
    if rng.random() < 0.08:
        s["description"] = rng.choice(["a thing", "Some description.", "x", "Two lines:\n  indented second", " leading blank", "trailing newline\n"])


def gen_schema(rng, cfg=None, depth=0, force_kind=None):
    cfg = cfg or Cfg()
    if depth > 0 and rng.random() < 0.08:
        return rng.choice([True, True, False])
    if depth >= cfg.max_depth:
        kind = rng.choice(["scalar", "scalar", "untyped_flat", "empty"])
    else:
        kind = force_kind or rng.choice(
            ["scalar", "scalar", "array", "object", "object", "untyped", "untyped", "multi", "comp", "comp", "empty"])
    s = {}
    if kind == "empty":
        return {}
    if kind == "scalar":
        t = rng.choice(["string", "integer", "number", "boolean", "null"])
        s["type"] = t
        add_scalar_keywords(rng, s, {"string": ["str"], "integer": ["num"], "number": ["num"]}.get(t, []) +
                            (["num", "str", "arr", "obj"] if rng.random() < 0.1 else []))
    elif kind == "untyped_flat":
        add_scalar_keywords(rng, s, ["num", "str", "arr", "obj"])
    elif kind == "array":
        s["type"] = "array"
        add_scalar_keywords(rng, s, ["arr"])
        add_array_subschemas(rng, s, cfg, depth)
    elif kind == "object":
        s["type"] = "object"
        s["title"] = rng.choice(cfg.titles)
        add_scalar_keywords(rng, s, ["obj"])
        add_object_subschemas(rng, s, cfg, depth)
    elif kind == "untyped":
        add_scalar_keywords(rng, s, rng.sample(["num", "str", "arr", "obj"], rng.randint(1, 3)))
        if rng.random() < 0.5:
            add_array_subschemas(rng, s, cfg, depth)
        if rng.random() < 0.6:
            add_object_subschemas(rng, s, cfg, depth)
    elif kind == "multi":
        ts = rng.sample(TYPES, rng.choice([1, 2, 2, 3]))
        s["type"] = ts
        if "object" in ts:
            s["title"] = rng.choice(cfg.titles)
        add_scalar_keywords(rng, s, ["num", "str", "arr", "obj"])
        if "array" in ts and rng.random() < 0.5:
            add_array_subschemas(rng, s, cfg, depth)
        if "object" in ts and rng.random() < 0.5:
            add_object_subschemas(rng, s, cfg, depth)
    elif kind == "comp":
        base = rng.random()
        if base < 0.35:
            s = gen_schema(rng, cfg, depth + 1, force_kind=rng.choice(["scalar", "untyped", "object", "array"]))
            if not isinstance(s, dict):
                s = {}
        for kw in rng.sample(["anyOf", "oneOf", "allOf"], rng.choice([1, 1, 1, 2, 3])):
            s[kw] = [gen_schema(rng, cfg, depth + 1) for _ in range(rng.choice([1, 2, 2, 3]))]
        if rng.random() < 0.3:
            s["not"] = gen_schema(rng, cfg, depth + 1)
    if isinstance(s, dict) and rng.random() < cfg.p_default:
        s["default"] = gen_literal(rng)
    return s


def add_array_subschemas(rng, s, cfg, depth):
    r = rng.random()
    if r < 0.45:
        s["items"] = gen_schema(rng, cfg, depth + 1)
    elif r < 0.8:
        s["items"] = [gen_schema(rng, cfg, depth + 1) for _ in range(rng.randint(0, 3))]
        a = rng.random()
        if a < 0.3:
            s["additionalItems"] = False
        elif a < 0.6:
            s["additionalItems"] = gen_schema(rng, cfg, depth + 1)
    elif r < 0.9:
        s["additionalItems"] = rng.choice([False, {"type": "integer"}])   # ignored without tuple items
    if rng.random() < 0.25:
        s["contains"] = gen_schema(rng, cfg, depth + 1)


def _keys(rng, cfg, n):
    pool = SAFE_KEY_POOL if cfg.safe_names else KEY_POOL
    return rng.sample(pool, min(n, len(pool)))


def add_object_subschemas(rng, s, cfg, depth):
    names = []
    if rng.random() < 0.8:
        names = _keys(rng, cfg, rng.randint(0, 4))
        s["properties"] = {k: gen_schema(rng, cfg, depth + 1) for k in names}
    if rng.random() < 0.3:
        s["patternProperties"] = {p: gen_schema(rng, cfg, depth + 1) for p in rng.sample(PATTERNS, rng.randint(1, 2))}
    a = rng.random()
    if a < 0.3:
        s["additionalProperties"] = False
    elif a < 0.5:
        s["additionalProperties"] = gen_schema(rng, cfg, depth + 1)
    if rng.random() < 0.5:
        req = [k for k in names if rng.random() < 0.5]
        if rng.random() < cfg.required_undeclared:
            req.append(rng.choice(["zz", "q", "other"]))
        if req:
            s["required"] = req
    if rng.random() < 0.15:
        s["propertyNames"] = rng.choice([{"pattern": rng.choice(PATTERNS)}, {"maxLength": 2}, {"minLength": 2},
                                         {"enum": _keys(rng, cfg, 3)}, False, True])
    if rng.random() < 0.2:
        deps = {}
        for k in _keys(rng, cfg, rng.randint(1, 2)):
            deps[k] = _keys(rng, cfg, rng.randint(0, 2)) if rng.random() < 0.5 else gen_schema(rng, cfg, depth + 1)
        s["dependencies"] = deps


# ---------------------------------------------------------------------------
# values
# ---------------------------------------------------------------------------
def lookalike(rng, v):
    """bool-vs-number and int-vs-float look-alikes at the top or one level down."""
    if v is True:
        return rng.choice([1, 1.0])
    if v is False:
        return rng.choice([0, 0.0])
    if isinstance(v, int):
        return rng.choice([float(v), True if v == 1 else False if v == 0 else v + 1])
    if isinstance(v, float) and v == int(v):
        return int(v)
    if isinstance(v, list) and v:
        i = rng.randrange(len(v))
        return v[:i] + [lookalike(rng, v[i])] + v[i + 1:]
    if isinstance(v, dict) and v:
        k = rng.choice(list(v))
        return {**v, k: lookalike(rng, v[k])}
    return v


def omissions(v, limit=6, depth=0):
    """values obtained from v by removing ONE member of one object (any depth up to 3), first the shallow ones:
    aimed at `required` (in whichever form it is stored or emitted) and at placeholders for omitted members"""
    out = []
    if depth > 3:
        return out
    if isinstance(v, dict):
        for k in v:
            out.append({a: b for a, b in v.items() if a != k})
        for k in v:
            for sub in omissions(v[k], limit, depth + 1):
                out.append({**v, k: sub})
    elif isinstance(v, list):
        for i, x in enumerate(v[:4]):
            for sub in omissions(x, limit, depth + 1):
                out.append(v[:i] + [sub] + v[i + 1:])
    return out[:limit]


def random_value(rng, depth=0):
    return gen_literal(rng, depth)


def gen_value(rng, s, depth=0):
    """A value aimed at schema s: usually valid-looking, near each keyword's boundary."""
    if depth > 6:
        return rng.choice([None, 1, "a"])
    if s is True or s == {}:
        return random_value(rng, 1)
    if s is False:
        return random_value(rng, 1)
    if not isinstance(s, dict):
        return random_value(rng, 1)
    r = rng.random()
    if r < 0.07:
        return random_value(rng)
    if "const" in s and rng.random() < 0.7:
        c = copy.deepcopy(s["const"])
        return c if rng.random() < 0.6 else lookalike(rng, c)
    if "enum" in s and s["enum"] and rng.random() < 0.7:
        c = copy.deepcopy(rng.choice(s["enum"]))
        return c if rng.random() < 0.6 else lookalike(rng, c)
    for kw in ("anyOf", "oneOf", "allOf"):
        if kw in s and s[kw] and rng.random() < 0.5:
            return gen_value(rng, rng.choice(s[kw]), depth + 1)
    if "not" in s and rng.random() < 0.3:
        return gen_value(rng, s["not"], depth + 1)
    t = s.get("type")
    if isinstance(t, list):
        t = rng.choice(t) if t else None
    if t is None:
        cands = []
        if any(k in s for k in ("minimum", "maximum", "exclusiveMinimum", "exclusiveMaximum", "multipleOf")):
            cands.append("number")
        if any(k in s for k in ("minLength", "maxLength", "pattern", "format")):
            cands.append("string")
        if any(k in s for k in ("items", "additionalItems", "contains", "minItems", "maxItems", "uniqueItems")):
            cands.append("array")
        if any(k in s for k in ("properties", "patternProperties", "additionalProperties", "required",
                                "propertyNames", "dependencies", "minProperties", "maxProperties")):
            cands.append("object")
        t = rng.choice(cands) if cands and rng.random() < 0.85 else rng.choice(TYPES)
    if rng.random() < 0.06:
        t = rng.choice(TYPES)
    if t == "null":
        return None
    if t == "boolean":
        return rng.choice([True, False, True, False, 0, 1])
    if t in ("integer", "number"):
        return gen_number(rng, s, t)
    if t == "string":
        return gen_string(rng, s)
    if t == "array":
        return gen_array(rng, s, depth)
    if t == "object":
        return gen_object(rng, s, depth)
    return random_value(rng)


def gen_number(rng, s, t):
    cands = [0, 1, 2, 3, -1, 5, 10, 1.5, 2.0, 0.5, True, 7, 4, 6, 2.5, -3]
    for kw in ("minimum", "maximum", "exclusiveMinimum", "exclusiveMaximum"):
        if kw in s and isinstance(s[kw], (int, float)) and not isinstance(s[kw], bool):
            b = s[kw]
            cands += [b, b + 1, b - 1, b + 0.5, b - 0.5, float(b), b, b]
    if "multipleOf" in s and isinstance(s["multipleOf"], (int, float)) and not isinstance(s["multipleOf"], bool):
        m = s["multipleOf"]
        k = rng.randint(-3, 6)
        cands += [m * k, m * k, m * k + (0.5 if rng.random() < 0.5 else 1), float(m * k), m * k, m * k]
    v = rng.choice(cands)
    if t == "integer" and isinstance(v, float) and rng.random() < 0.7:
        v = int(v)
    if isinstance(v, float) and (math.isinf(v) or math.isnan(v)):
        v = 0
    return v


def gen_string(rng, s):
    cands = list(STR_POOL)
    for kw in ("minLength", "maxLength"):
        if kw in s and isinstance(s[kw], int):
            n = s[kw]
            cands += ["a" * n, "a" * (n + 1), "a" * max(0, n - 1), "é" * n, "ab" * n] * 2
    if "pattern" in s:
        hints = {"^a": ["a", "ab", "ba"], "b$": ["b", "ab", "ba"], "^[a-c]+$": ["abc", "abd", "c"], "x": ["x", "axb"],
                 "^p_": ["p_1", "xp_"], "^.$": ["a", "ab"], "1": ["1", "b1"], "^(foo|b1)$": ["foo", "b1", "foo1"],
                 "^$": ["", "a"], "[0-9]": ["0", "a"], PATTERNS[10]: ["a b", "it's", "a+b"], PATTERNS[11]: ["it's", "its", 'it\'s"']}
        cands += hints.get(s["pattern"], []) * 3
    if s.get("format") == "uuid":
        cands += ["12345678-1234-5678-1234-567812345678", "not-a-uuid", "12345678123456781234567812345678"] * 2
    if s.get("format") == "date-time":
        cands += ["2020-01-01T00:00:00Z", "2020-13-01T00:00:00Z", "yesterday", "2020-01-01"] * 2
    return rng.choice(cands)


def gen_array(rng, s, depth):
    n_choices = [0, 1, 2, 3]
    for kw in ("minItems", "maxItems"):
        if kw in s and isinstance(s[kw], int):
            n_choices += [s[kw], s[kw] + 1, max(0, s[kw] - 1)] * 2
    items = s.get("items")
    if isinstance(items, list):
        n_choices += [len(items), len(items) + 1, max(0, len(items) - 1), len(items) + 2] * 2
    n = min(rng.choice(n_choices), 6)
    out = []
    for i in range(n):
        if isinstance(items, list):
            sub = items[i] if i < len(items) else s.get("additionalItems", True)
        elif items is not None:
            sub = items
        else:
            sub = s.get("contains", True) if rng.random() < 0.5 else True
        out.append(gen_value(rng, sub, depth + 1))
    if "contains" in s and out and rng.random() < 0.6:
        out[rng.randrange(len(out))] = gen_value(rng, s["contains"], depth + 1)
    if s.get("uniqueItems") and len(out) >= 2 and rng.random() < 0.4:
        i, j = rng.sample(range(len(out)), 2)
        out[j] = copy.deepcopy(out[i]) if rng.random() < 0.5 else lookalike(rng, copy.deepcopy(out[i]))
    if s.get("uniqueItems") and rng.random() < 0.25:
        # unhashable members (the validator's slow path) that are equal / look alike: [1] vs [1.0], {"a": 2} vs {"a": 2.0}, [True] vs [1]
        base = rng.choice([[1], {"a": 2}, [[0]], {"n": [100]}, [True], {"a": False}])
        out = out[:3] + [copy.deepcopy(base), rng.choice([copy.deepcopy(base), lookalike(rng, copy.deepcopy(base))])]
    return out


def gen_object(rng, s, depth):
    props = s.get("properties") if isinstance(s.get("properties"), dict) else {}
    req = [r for r in s.get("required", []) if isinstance(r, str)] if isinstance(s.get("required"), list) else []
    out = {}
    for k, sub in props.items():
        p = 0.9 if k in req else 0.5
        if rng.random() < p:
            out[k] = gen_value(rng, sub, depth + 1)
    for k in req:
        if k not in out and rng.random() < 0.8:
            out[k] = random_value(rng, 1)
    pp = s.get("patternProperties") if isinstance(s.get("patternProperties"), dict) else {}
    hints = {"^a": ["a", "ab", "a b"], "b$": ["b", "ab"], "^[a-c]+$": ["abc", "c"], "x": ["x"], "^p_": ["p_1"],
             "^.$": ["a", "x"], "1": ["b1", "p_1"], "^(foo|b1)$": ["foo", "b1"], "^$": [""], "[0-9]": ["0", "b1"],
             PATTERNS[10]: ["a b", "it's"], PATTERNS[11]: ["it's"]}
    for pat, sub in pp.items():
        if rng.random() < 0.6:
            k = rng.choice(hints.get(pat, ["a"]))
            out[k] = gen_value(rng, sub, depth + 1)
    if len(pp) >= 2 and rng.random() < 0.6:
        # a key matched by SEVERAL patterns (each of them applies), with a value aimed at one of their schemas
        import re as _re
        pats = list(pp)
        for cand in ["ab", "a b", "b1", "abc", "p_1", "x", "a", "foo", "0", "xb", "ax1b", "cab"]:
            try:
                hit = [p for p in pats if _re.search(p, cand)]
            except _re.error:
                hit = []
            if len(hit) >= 2:
                out[cand] = gen_value(rng, pp[rng.choice(hit)], depth + 1)
                break
    if rng.random() < 0.45:
        k = rng.choice(KEY_POOL + ["zz", "q", "class_", "a_b", "_id"])
        ap = s.get("additionalProperties", True)
        out.setdefault(k, gen_value(rng, ap if isinstance(ap, (dict, bool)) else True, depth + 1))
    deps = s.get("dependencies") if isinstance(s.get("dependencies"), dict) else {}
    for k, d in deps.items():
        if rng.random() < 0.5:
            out.setdefault(k, random_value(rng, 1))
            if isinstance(d, list) and rng.random() < 0.6:
                for n in d:
                    out.setdefault(n, random_value(rng, 1))
    for kw in ("minProperties", "maxProperties"):
        if kw in s and isinstance(s[kw], int) and rng.random() < 0.5:
            while len(out) > s[kw] and rng.random() < 0.7:
                out.pop(rng.choice(list(out)))
    if out and rng.random() < 0.15:
        keys = list(out)
        rng.shuffle(keys)
        out = {k: out[k] for k in keys}
    return out


# ---------------------------------------------------------------------------
def all_strings(j, acc=None):
    """Every string occurring anywhere (keys and values) in a JSON value."""
    acc = set() if acc is None else acc
    if isinstance(j, str):
        acc.add(j)
    elif isinstance(j, list):
        for x in j:
            all_strings(x, acc)
    elif isinstance(j, dict):
        for k, x in j.items():
            acc.add(k)
            all_strings(x, acc)
    return acc


def patterns_of(s, acc=None):
    """Every regex that can be consulted: `pattern` values and patternProperties keys, at any depth."""
    acc = set() if acc is None else acc
    if isinstance(s, dict):
        if isinstance(s.get("pattern"), str):
            acc.add(s["pattern"])
        if isinstance(s.get("patternProperties"), dict):
            acc.update(s["patternProperties"].keys())
        for v in s.values():
            patterns_of(v, acc)
    elif isinstance(s, list):
        for v in s:
            patterns_of(v, acc)
    return acc


def formats_of(s, acc=None):
    acc = set() if acc is None else acc
    if isinstance(s, dict):
        if isinstance(s.get("format"), str):
            acc.add(s["format"])
        for v in s.values():
            formats_of(v, acc)
    elif isinstance(s, list):
        for v in s:
            formats_of(v, acc)
    return acc


def floatify(v):
    """the same JSON value with every integer written as the equal float (1 -> 1.0); None if it holds no integer.
    Aimed at the documented deviation "1.0 is not an integer": such a value must be rejected at integer positions."""
    seen = [False]

    def go(x):
        if isinstance(x, bool):
            return x
        if isinstance(x, int) and abs(x) < 2 ** 53:
            seen[0] = True
            return float(x)
        if isinstance(x, list):
            return [go(y) for y in x]
        if isinstance(x, dict):
            return {k: go(y) for k, y in x.items()}
        return x
    out = go(v)
    return out if seen[0] else None
