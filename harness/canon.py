"""Canonical renderings of implementation objects, mirrored by coq/Model/Canon.v and Elem.v,
and emission of element trees as Coq terms."""
from coqemit import cq_json, cq_str, cq_list, cq_bool, cq_option

KW_ORDER = [
    "default", "const", "enum", "items", "additionalItems", "minItems", "maxItems",
    "uniqueItems", "contains", "minimum", "maximum", "exclusiveMinimum", "exclusiveMaximum",
    "multipleOf", "format", "pattern", "minLength", "maxLength", "required", "properties",
    "patternProperties", "additionalProperties", "minProperties", "maxProperties",
    "propertyNames", "dependencies", "description",
]
LIT_KW = {"default", "const", "minItems", "maxItems", "minimum", "maximum", "exclusiveMinimum",
          "exclusiveMaximum", "multipleOf", "minLength", "maxLength", "minProperties", "maxProperties"}
STR_KW = {"format", "pattern", "description"}
ELEM_KW = {"contains", "propertyNames"}


class Unmodelled(Exception):
    """The object is outside what the Coq model represents (reported, never silently dropped)."""


def _imports():
    from statham.schema.constants import NotPassed
    from statham.schema.elements import (
        Element, Nothing, Not, CompositionElement, AnyOf, OneOf, AllOf, Array, String, Integer,
        Number, Boolean, Null,
    )
    from statham.schema.elements.meta import ObjectMeta
    from statham.schema.property import _Property
    return locals()


def is_np(x):
    from statham.schema.constants import NotPassed
    return isinstance(x, NotPassed)


def lit(v):
    return ["lit", v]


def _kw_items(e):
    """(keyword, raw attribute) for the keywords the object actually carries, in KW_ORDER."""
    I = _imports()
    out = []
    for kw in KW_ORDER:
        if isinstance(e, I["ObjectMeta"]) or isinstance(e, I["Element"]):
            v = getattr(e, kw, I["NotPassed"]())
        out.append((kw, v))
    return out


def canon_kwds(e):
    I = _imports()
    Element = I["Element"]
    d = {}
    for kw, v in _kw_items(e):
        if is_np(v):
            continue
        if kw in ("additionalItems", "additionalProperties"):
            if v is True:
                continue
            d[kw] = False if v is False else canon_elem(v)
        elif kw == "uniqueItems":
            if v is False:
                continue
            if v is not True:
                raise Unmodelled("uniqueItems=%r" % (v,))
            d[kw] = True
        elif kw in LIT_KW:
            d[kw] = lit(v)
        elif kw == "enum":
            d[kw] = [lit(x) for x in v]
        elif kw in STR_KW:
            if not isinstance(v, str):
                raise Unmodelled("%s=%r" % (kw, v))
            d[kw] = v
        elif kw in ELEM_KW:
            d[kw] = canon_elem(v)
        elif kw == "items":
            d[kw] = ["tuple"] + [canon_elem(x) for x in v] if isinstance(v, list) else canon_elem(v)
        elif kw == "required":
            d[kw] = list(v)
        elif kw == "properties":
            d[kw] = [[name, p.source if p.source is not None else name, bool(p.required), canon_elem(p.element)]
                     for name, p in v.items()]
        elif kw == "patternProperties":
            d[kw] = [[k, canon_elem(x)] for k, x in v.items()]
        elif kw == "dependencies":
            d[kw] = [[k, list(x) if isinstance(x, list) else canon_elem(x)] for k, x in v.items()]
    return d


def canon_elem(e):
    I = _imports()
    if isinstance(e, I["ObjectMeta"]):
        return ["Obj", e.__name__, [b.__name__ for b in e.__bases__], canon_kwds(e)]
    if isinstance(e, I["Nothing"]):
        if not is_np(e.default):
            raise Unmodelled("Nothing() carrying a default")
        return ["Nothing"]
    if isinstance(e, I["Not"]):
        return ["Not", canon_elem(e.element)] + ([] if is_np(e.default) else [lit(e.default)])
    if isinstance(e, I["CompositionElement"]):
        return [type(e).__name__, [canon_elem(x) for x in e.elements]] + ([] if is_np(e.default) else [lit(e.default)])
    if isinstance(e, I["Element"]):
        name = type(e).__name__
        if name not in ("Element", "String", "Integer", "Number", "Boolean", "Null", "Array"):
            raise Unmodelled("element class %s" % name)
        return ["K", name, canon_kwds(e)]
    raise Unmodelled("not an element: %r" % (e,))


# ---------------------------------------------------------------------------
def canon_result(r):
    """What a call returned -> the tagged form of Elem.canon_rv."""
    from statham.schema.elements.base import _AnonymousObject
    from statham.schema.elements import Object
    if is_np(r):
        return ["NotPassed"]
    if r is None or isinstance(r, (bool, int, float, str)):
        return r
    if isinstance(r, list):
        return ["list"] + [canon_result(x) for x in r]
    if isinstance(r, _AnonymousObject):
        return ["anon", {k: canon_result(v) for k, v in r.items()}]
    if isinstance(r, dict):
        return ["dict", {k: canon_result(v) for k, v in r.items()}]
    if isinstance(r, Object):
        return ["inst", type(r).__name__, {k: canon_result(v) for k, v in r._dict.items()}]
    raise Unmodelled("result %r" % (r,))


# ---------------------------------------------------------------------------
CLS = {"Element": "CElement", "String": "CString", "Integer": "CInteger", "Number": "CNumber",
       "Boolean": "CBoolean", "Null": "CNull", "Array": "CArray"}


def cq_kwds(e):
    I = _imports()
    f = {}
    for kw, v in _kw_items(e):
        f[kw] = v
    np = is_np

    def oj(kw):
        return cq_option(None if np(f[kw]) else cq_json(f[kw]))

    def ostr(kw):
        if not np(f[kw]) and not isinstance(f[kw], str):
            raise Unmodelled("%s=%r" % (kw, f[kw]))
        return cq_option(None if np(f[kw]) else cq_str(f[kw]))

    def oe(kw):
        return cq_option(None if np(f[kw]) else cq_elem(f[kw]))

    def addl(kw):
        v = f[kw]
        if np(v) or v is True:
            return "(AddBool true)"
        if v is False:
            return "(AddBool false)"
        return "(AddElem %s)" % cq_elem(v)

    items = f["items"]
    if np(items):
        items_t = "None"
    elif isinstance(items, list):
        items_t = "(Some (ItMany %s))" % cq_list([cq_elem(x) for x in items])
    else:
        items_t = "(Some (ItOne %s))" % cq_elem(items)
    ui = f["uniqueItems"]
    if not (np(ui) or ui is True or ui is False):
        raise Unmodelled("uniqueItems=%r" % (ui,))
    props = f["properties"]
    if np(props):
        props_t = "None"
    else:
        props_t = "(Some %s)" % cq_list([
            "(%s, mkProp %s %s %s)" % (cq_str(n), cq_elem(p.element), cq_bool(bool(p.required)),
                                       cq_str(p.source if p.source is not None else n))
            for n, p in props.items()])
    pats = f["patternProperties"]
    pats_t = "None" if np(pats) else "(Some %s)" % cq_list(["(%s, %s)" % (cq_str(k), cq_elem(x)) for k, x in pats.items()])
    deps = f["dependencies"]
    if np(deps):
        deps_t = "None"
    else:
        deps_t = "(Some %s)" % cq_list([
            "(%s, %s)" % (cq_str(k), ("(DepNames %s)" % cq_list([cq_str(n) for n in x])) if isinstance(x, list)
                          else "(DepElem %s)" % cq_elem(x)) for k, x in deps.items()])
    req = f["required"]
    req_t = "None" if np(req) else "(Some %s)" % cq_list([cq_str(x) for x in req])
    enum = f["enum"]
    enum_t = "None" if np(enum) else "(Some %s)" % cq_list([cq_json(x) for x in enum])
    parts = [
        oj("default"), oj("const"), enum_t, items_t, addl("additionalItems"), oj("minItems"), oj("maxItems"),
        cq_bool(ui is True), oe("contains"), oj("minimum"), oj("maximum"), oj("exclusiveMinimum"),
        oj("exclusiveMaximum"), oj("multipleOf"), ostr("format"), ostr("pattern"), oj("minLength"),
        oj("maxLength"), req_t, props_t, pats_t, addl("additionalProperties"), oj("minProperties"),
        oj("maxProperties"), oe("propertyNames"), deps_t, ostr("description"),
    ]
    return "(mkK " + " ".join(parts) + ")"


def cq_elem(e):
    I = _imports()
    if isinstance(e, I["ObjectMeta"]):
        return "(EObj %s %s %s)" % (cq_str(e.__name__), cq_list([cq_str(b.__name__) for b in e.__bases__]), cq_kwds(e))
    if isinstance(e, I["Nothing"]):
        if not is_np(e.default):
            raise Unmodelled("Nothing() carrying a default")
        return "ENothing"
    if isinstance(e, I["Not"]):
        return "(ENot %s %s)" % (cq_elem(e.element), cq_option(None if is_np(e.default) else cq_json(e.default)))
    if isinstance(e, I["CompositionElement"]):
        mode = {"AnyOf": "MAny", "OneOf": "MOne", "AllOf": "MAll"}[type(e).__name__]
        return "(EComp %s %s %s)" % (mode, cq_list([cq_elem(x) for x in e.elements]),
                                     cq_option(None if is_np(e.default) else cq_json(e.default)))
    if isinstance(e, I["Element"]):
        name = type(e).__name__
        if name not in CLS:
            raise Unmodelled("element class %s" % name)
        return "(EK %s %s)" % (CLS[name], cq_kwds(e))
    raise Unmodelled("not an element: %r" % (e,))
