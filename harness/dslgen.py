"""Element trees written directly in the Python DSL, as pure-data *specs* (JSON-serialisable, so a
failing case replays exactly) plus `build` (spec -> live statham objects; every call gives an
independent, equal copy) and `spec_schema` (spec -> Draft-6 schema, written independently of
statham's serializer; used to aim values and as a second opinion for C03)."""
import copy

import gen

ATTRS = ["a", "b", "c", "x", "name", "class_", "value", "p_1", "items_", "type_"]
SOURCES = {"class_": "class", "p_1": "p 1", "type_": "type", "items_": "items"}
CLASS_NAMES = ["Foo", "Bar", "Baz", "Item", "Thing", "Node", "Leaf", "Owner"]
ELEM_KW = ("items", "additionalItems", "contains", "properties", "patternProperties", "additionalProperties",
           "propertyNames", "dependencies")


class Cfg:
    def __init__(self, max_depth=3, classes=True, inheritance=True, explicit_required=0.25, renamed=0.3,
                 p_default=0.2, compositions=True, shared=True, formats=False):
        self.max_depth, self.classes, self.inheritance = max_depth, classes, inheritance
        self.explicit_required, self.renamed, self.p_default = explicit_required, renamed, p_default
        self.compositions, self.shared, self.formats = compositions, shared, formats


def _scalar_kw(rng, kind, cfg):
    kw = {}
    if kind in ("Integer", "Number", "Element") and rng.random() < 0.6:
        for k in rng.sample(["minimum", "maximum", "exclusiveMinimum", "exclusiveMaximum", "multipleOf"], rng.randint(1, 2)):
            kw[k] = rng.choice([1, 2, 3, 5, 10, 0.5, 2.5]) if k == "multipleOf" else rng.choice(gen.NUMS)
    if kind in ("String", "Element") and rng.random() < 0.6:
        for k in rng.sample(["minLength", "maxLength", "pattern"], rng.randint(1, 2)):
            kw[k] = rng.choice(gen.PATTERNS) if k == "pattern" else rng.choice([0, 1, 2, 3])
        if cfg.formats and rng.random() < 0.2:
            kw["format"] = rng.choice(["uuid", "date-time"])
    if rng.random() < 0.12:
        kw["const"] = gen.gen_literal(rng, 1)
    if rng.random() < 0.12:
        kw["enum"] = [gen.gen_literal(rng, 1) for _ in range(rng.randint(1, 3))]
    if rng.random() < 0.1:
        kw["description"] = rng.choice(["a thing", "Line one\nline two", 'say "hi"', ""])
    return kw


def _default_for(rng, kind):
    r = rng.random()
    if r < 0.35:
        return gen.gen_literal(rng, 1)
    return {"String": rng.choice(["", "a", "abc"]), "Integer": rng.choice([0, 1, 5]), "Number": rng.choice([0, 1.5, 2]),
            "Boolean": rng.choice([True, False]), "Null": None, "Array": rng.choice([[], [1], ["a"]]),
            "Obj": rng.choice([{}, {"a": 1}])}.get(kind, gen.gen_literal(rng, 1))


def gen_doc(rng, cfg=None):
    """-> {"classes": {name: objspec}, "order": [names], "root": spec}"""
    cfg = cfg or Cfg()
    doc = {"classes": {}, "order": []}
    doc["root"] = gen_spec(rng, cfg, doc, 0)
    return doc


def _props(rng, cfg, doc, depth, n=None):
    props = {}
    for attr in rng.sample(ATTRS, n if n is not None else rng.randint(0, 3)):
        p = {"e": gen_spec(rng, cfg, doc, depth + 1), "required": rng.random() < 0.4, "source": None}
        if attr in SOURCES and rng.random() < (1.0 if cfg.renamed else 0.0) or attr in SOURCES:
            p["source"] = SOURCES[attr]
        props[attr] = p
    return props


def _object_kw(rng, cfg, doc, depth):
    kw = {}
    if rng.random() < 0.3:
        kw["patternProperties"] = {rng.choice(gen.PATTERNS): gen_spec(rng, cfg, doc, depth + 1) for _ in range(rng.randint(1, 2))}
    r = rng.random()
    if r < 0.2:
        kw["additionalProperties"] = False
    elif r < 0.4:
        kw["additionalProperties"] = gen_spec(rng, cfg, doc, depth + 1)
    if rng.random() < 0.15:
        kw["minProperties"] = rng.choice([0, 1, 2])
    if rng.random() < 0.15:
        kw["maxProperties"] = rng.choice([1, 2, 3])
    if rng.random() < 0.12:
        kw["propertyNames"] = {"k": "String", "kw": {"maxLength": rng.choice([1, 3, 5])}}
    if rng.random() < 0.15:
        kw["dependencies"] = {rng.choice(["a", "b", "class"]): (rng.sample(["a", "b", "c", "x"], rng.randint(0, 2)) if rng.random() < 0.5
                                                                else gen_spec(rng, cfg, doc, depth + 1))}
    return kw


def gen_spec(rng, cfg, doc, depth):
    kinds = ["String", "Integer", "Number", "Boolean", "Null", "Element", "Element"]
    if depth < cfg.max_depth:
        kinds += ["Array", "Array", "ElementObj", "ElementArr"]
        if cfg.classes:
            kinds += ["Obj", "Obj"]
        if cfg.compositions:
            kinds += ["AnyOf", "OneOf", "AllOf", "Not"]
    if depth > 0 and rng.random() < 0.04:
        return {"k": "Nothing"}
    if cfg.shared and doc["order"] and depth > 0 and rng.random() < 0.2:
        return {"k": "Ref", "name": rng.choice(doc["order"])}
    kind = rng.choice(kinds)
    if kind in ("String", "Integer", "Number", "Boolean", "Null", "Element"):
        s = {"k": kind, "kw": _scalar_kw(rng, kind, cfg)}
        if rng.random() < cfg.p_default:
            s["kw"]["default"] = _default_for(rng, kind)
        return s
    if kind in ("Array", "ElementArr"):
        r = rng.random()
        if r < 0.5:
            items = gen_spec(rng, cfg, doc, depth + 1)
        else:
            items = [gen_spec(rng, cfg, doc, depth + 1) for _ in range(rng.randint(0, 3))]
        kw = {}
        if isinstance(items, list):
            a = rng.random()
            if a < 0.3:
                kw["additionalItems"] = False
            elif a < 0.6:
                kw["additionalItems"] = gen_spec(rng, cfg, doc, depth + 1)
        else:
            a = rng.random()                 # next to a single items schema the keyword is inert for validation, but it is
            if a < 0.1:                      # still part of the element (repr, ==, serialization)
                kw["additionalItems"] = False
            elif a < 0.15:
                kw["additionalItems"] = gen_spec(rng, cfg, doc, depth + 1)
        for k in ("minItems", "maxItems"):
            if rng.random() < 0.2:
                kw[k] = rng.choice([0, 1, 2, 3])
        if rng.random() < 0.15:
            kw["uniqueItems"] = True
        if rng.random() < 0.15:
            kw["contains"] = gen_spec(rng, cfg, doc, depth + 1)
        if rng.random() < cfg.p_default:
            kw["default"] = _default_for(rng, "Array")
        if kind == "Array":
            return {"k": "Array", "items": items, "kw": kw}
        kw["items"] = items
        return {"k": "Element", "kw": kw}
    if kind == "ElementObj":
        kw = _object_kw(rng, cfg, doc, depth)
        props = _props(rng, cfg, doc, depth)
        if props:
            kw["properties"] = props
        if rng.random() < cfg.explicit_required:
            kw["required"] = rng.sample(["a", "b", "class", "zz"], rng.randint(1, 2))
        if rng.random() < cfg.p_default:
            kw["default"] = _default_for(rng, "Obj")
        return {"k": "Element", "kw": kw}
    if kind == "Obj":
        free = [n for n in CLASS_NAMES if n not in doc["classes"]]
        if not free:
            return {"k": "Ref", "name": rng.choice(doc["order"])}
        name = free[0]
        doc["classes"][name] = None      # reserve (prevents self reference while generating children)
        kw = _object_kw(rng, cfg, doc, depth)
        if rng.random() < cfg.explicit_required:
            kw["required"] = rng.sample(["a", "b", "class", "zz"], rng.randint(1, 2))
        if rng.random() < cfg.p_default:
            kw["default"] = _default_for(rng, "Obj")
        base = None
        if cfg.inheritance and doc["order"] and rng.random() < 0.3:
            base = rng.choice(doc["order"])
        spec = {"k": "Obj", "name": name, "base": base, "kw": kw, "props": _props(rng, cfg, doc, depth),
                "doc": rng.choice([None, None, None, "A %s." % name])}
        doc["classes"][name] = spec
        doc["order"].append(name)
        return {"k": "Ref", "name": name}
    if kind == "Not":
        s = {"k": "Not", "element": gen_spec(rng, cfg, doc, depth + 1)}
        if rng.random() < cfg.p_default:
            s["default"] = gen.gen_literal(rng, 1)
        return s
    s = {"k": kind, "elements": [gen_spec(rng, cfg, doc, depth + 1) for _ in range(rng.randint(1, 3))]}
    if rng.random() < cfg.p_default:
        s["default"] = gen.gen_literal(rng, 1)
    return s


# ---------------------------------------------------------------------------------------------
def build(doc, objs=None, classes=None):
    """-> (root element, {class name: class}) — fresh objects on every call.
    If `objs` is a dict it is filled with id(spec dict) -> the live object built from it."""
    from statham.schema import elements as E
    from statham.schema.elements import Object
    from statham.schema.property import Property

    classes = classes if classes is not None else {}      # pre-seeded: reuse these live classes

    def prop(p):
        kw = {"required": p["required"]}
        if p.get("source") is not None:
            kw["source"] = p["source"]
        return Property(el(p["e"]), **kw)

    def kwargs(kw):
        out = {}
        for k, v in kw.items():
            if k == "items":
                out[k] = [el(x) for x in v] if isinstance(v, list) else el(v)
            elif k in ("additionalItems", "additionalProperties"):
                out[k] = v if isinstance(v, bool) else el(v)
            elif k in ("contains", "propertyNames"):
                out[k] = el(v)
            elif k == "patternProperties":
                out[k] = {p: el(x) for p, x in v.items()}
            elif k == "properties":
                out[k] = {a: prop(p) for a, p in v.items()}
            elif k == "dependencies":
                out[k] = {key: (list(x) if isinstance(x, list) else el(x)) for key, x in v.items()}
            else:
                out[k] = copy.deepcopy(v)
        return out

    def cls(name):
        if name in classes:
            return classes[name]
        spec = doc["classes"][name]
        base = cls(spec["base"]) if spec.get("base") else Object
        cd = type(base).__prepare__(name, (base,))
        if spec.get("doc"):
            cd["__doc__"] = spec["doc"]
        for a, p in spec["props"].items():
            cd[a] = prop(p)
        # "pyname": the class's __name__ when it differs from its key in the doc (two distinct classes with one name)
        c = type(base)(spec.get("pyname") or name, (base,), cd, **kwargs(spec["kw"]))
        classes[name] = c
        if objs is not None:
            objs[id(spec)] = c
            objs.setdefault("__specs__", {})[id(spec)] = spec      # keeps the spec alive: ids are never reused
        return c

    def el(s):
        o = el_(s)
        if objs is not None and s["k"] != "Ref":
            objs[id(s)] = o
            objs.setdefault("__specs__", {})[id(s)] = s
        return o

    def el_(s):
        k = s["k"]
        if k == "Ref":
            return cls(s["name"])
        if k == "Nothing":
            return E.Nothing()
        if k == "Not":
            extra = {"default": copy.deepcopy(s["default"])} if "default" in s else {}
            return E.Not(el(s["element"]), **extra)
        if k in ("AnyOf", "OneOf", "AllOf"):
            extra = {"default": copy.deepcopy(s["default"])} if "default" in s else {}
            return getattr(E, k)(*[el(x) for x in s["elements"]], **extra)
        if k == "Array":
            items = [el(x) for x in s["items"]] if isinstance(s["items"], list) else el(s["items"])
            return E.Array(items, **kwargs(s["kw"]))
        return getattr(E, k)(**kwargs(s["kw"]))

    for name in doc["order"]:
        cls(name)
    root = el(doc["root"])
    return root, classes


# ---------------------------------------------------------------------------------------------
TYPE_OF = {"String": "string", "Integer": "integer", "Number": "number", "Boolean": "boolean", "Null": "null", "Array": "array"}


def spec_schema(doc, spec, _stack=()):
    """Independent Draft-6 reading of a spec (classes inlined)."""
    k = spec["k"]
    if k == "Nothing":
        return False
    if k == "Ref":
        if spec["name"] in _stack:
            return {}
        return _class_schema(doc, spec["name"], _stack + (spec["name"],))
    if k == "Not":
        return {"not": spec_schema(doc, spec["element"], _stack)}
    if k in ("AnyOf", "OneOf", "AllOf"):
        return {k[0].lower() + k[1:]: [spec_schema(doc, x, _stack) for x in spec["elements"]]}
    out = {}
    if k in TYPE_OF:
        out["type"] = TYPE_OF[k]
    kw = dict(spec.get("kw", {}))
    if k == "Array":
        kw["items"] = spec["items"]
    _kw_schema(doc, kw, out, _stack)
    return out


def _kw_schema(doc, kw, out, _stack, props=None):
    req = list(kw.get("required", []))
    for key, v in kw.items():
        if key in ("default", "description", "required"):
            continue
        if key == "items":
            out[key] = [spec_schema(doc, x, _stack) for x in v] if isinstance(v, list) else spec_schema(doc, v, _stack)
        elif key in ("additionalItems", "additionalProperties"):
            out[key] = v if isinstance(v, bool) else spec_schema(doc, v, _stack)
        elif key in ("contains", "propertyNames"):
            out[key] = spec_schema(doc, v, _stack)
        elif key == "patternProperties":
            out[key] = {p: spec_schema(doc, x, _stack) for p, x in v.items()}
        elif key == "dependencies":
            out[key] = {d: (list(x) if isinstance(x, list) else spec_schema(doc, x, _stack)) for d, x in v.items()}
        elif key == "properties":
            props = v
        else:
            out[key] = copy.deepcopy(v)
    if props:
        out["properties"] = {}
        for attr, p in props.items():
            src = p["source"] if p.get("source") is not None else attr
            out["properties"][src] = spec_schema(doc, p["e"], _stack)
            if p["required"] and not _has_default(doc, p["e"]) and src not in req:
                req.append(src)
    if req:
        out["required"] = req
    return out


def _has_default(doc, spec):
    if spec["k"] == "Ref":
        return "default" in merged_class(doc, spec["name"])["kw"]
    if spec["k"] in ("Not", "AnyOf", "OneOf", "AllOf"):
        return "default" in spec
    return "default" in spec.get("kw", {})


def merged_class(doc, name):
    """The flat equivalent of a class: inherited keywords and properties merged (child wins).
    A docstring becomes the description only when no description was passed or inherited
    (Object.__init_subclass__), so the flat class carries the effective description as a keyword."""
    spec = doc["classes"][name]
    if not spec.get("base"):
        kw = dict(spec["kw"])
        if "description" not in kw and spec.get("doc"):
            kw["description"] = spec["doc"]
        return {"k": "Obj", "name": name, "base": None, "kw": kw, "props": dict(spec["props"]), "doc": None}
    parent = merged_class(doc, spec["base"])
    kw = dict(parent["kw"])
    kw.update(spec["kw"])
    if "description" not in kw and spec.get("doc"):
        kw["description"] = spec["doc"]
    props = dict(parent["props"])
    props.update(spec["props"])
    return {"k": "Obj", "name": name, "base": None, "kw": kw, "props": props, "doc": None}


def _class_schema(doc, name, _stack):
    m = merged_class(doc, name)
    out = {"type": "object", "title": name}
    _kw_schema(doc, m["kw"], out, _stack, props=m["props"])
    return out


def gen_values(rng, doc, n=6):
    s = spec_schema(doc, doc["root"])
    vals = []
    for _ in range(n):
        v = gen.gen_value(rng, s if isinstance(s, dict) else {})
        vals.append(v)
    if vals and rng.random() < 0.5:
        vals.append(gen.lookalike(rng, vals[0]))
    return vals
