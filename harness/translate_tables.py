"""Remaining generated tables (registered into translate.TABLES on import)."""
