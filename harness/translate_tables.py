"""Remaining generated tables (registered into translate.TABLES on import)."""
import ast
import inspect
import keyword
import sys
import unicodedata

from translate import (
    ShapeNotFound, find_func, register, src_ast, str_seq,
)
from coqemit import cq_str, cq_list, cq_bool, cq_json, cq_option, cq_N


def _cls_name(c):
    return c.__name__


# --------------------------------------------------------------------------
def gen_constants():
    from statham.schema import constants as C
    comp = list(C.COMPOSITION_KEYWORDS)
    unsup = sorted(C.UNSUPPORTED_SCHEMA_KEYWORDS)
    if not all(isinstance(x, str) for x in comp + unsup):
        raise ShapeNotFound("constants are not strings")
    ordered = isinstance(C.COMPOSITION_KEYWORDS, (tuple, list))
    return (
        "Definition composition_keywords : list str := %s.\n"
        "Definition composition_keywords_ordered : bool := %s.\n"
        "Definition unsupported_keywords : list str := %s.\n"
        % (cq_list([cq_str(x) for x in comp]), cq_bool(ordered), cq_list([cq_str(x) for x in unsup]))
    )


def sent_constants():
    return ("Definition composition_keywords : list str := [].\n"
            "Definition composition_keywords_ordered : bool := false.\n"
            "Definition unsupported_keywords : list str := [].\n")


register("Gen_constants", gen_constants, sent_constants)


# --------------------------------------------------------------------------
def _sig_rows(fn, skip_first=True):
    from statham.schema.constants import NotPassed
    params = list(inspect.signature(fn).parameters.values())
    if skip_first:
        params = params[1:]
    rows = []
    for p in params:
        kind = {p.POSITIONAL_OR_KEYWORD: "PosOrKw", p.VAR_POSITIONAL: "VarPos", p.KEYWORD_ONLY: "KwOnly",
                p.POSITIONAL_ONLY: "PosOrKw", p.VAR_KEYWORD: "VarKw"}[p.kind]
        if p.default is inspect.Parameter.empty:
            d = "SDRequired"
        elif isinstance(p.default, NotPassed):
            d = "SDNotPassed"
        else:
            d = "(SDJson %s)" % cq_json(p.default)
        holds_elem = any(t in str(p.annotation) for t in ("Element", "_Property"))
        rows.append("(%s, %s, %s, %s)" % (cq_str(p.name), kind, d, cq_bool(holds_elem)))
    return cq_list(rows)


def gen_signatures():
    from statham.schema.elements import (
        Element, String, Integer, Number, Boolean, Null, Array, Not, AnyOf, OneOf, AllOf, Nothing,
    )
    from statham.schema.elements.meta import ObjectMeta
    from statham.schema.property import _Property
    out = []
    for cls in (Element, String, Integer, Number, Boolean, Null, Array, Not, AnyOf, OneOf, AllOf, Nothing):
        out.append("Definition sig_%s : list sigrow := %s.\n" % (cls.__name__, _sig_rows(cls.__init__)))
    # parameters of ObjectMeta.__new__ after (mcs, name, bases, classdict)
    params = list(inspect.signature(ObjectMeta.__new__).parameters.values())
    kwonly = [p for p in params if p.kind == p.KEYWORD_ONLY]
    if [p.name for p in params if p.kind != p.KEYWORD_ONLY] != ["mcs", "name", "bases", "classdict"]:
        raise ShapeNotFound("ObjectMeta.__new__ positional parameters")

    class _F:  # reuse _sig_rows on a synthetic signature
        pass
    sig = inspect.Signature([inspect.Parameter("self", inspect.Parameter.POSITIONAL_OR_KEYWORD)] + kwonly)

    def fake():
        pass
    fake.__signature__ = sig
    out.append("Definition sig_ObjectMeta : list sigrow := %s.\n" % _sig_rows(fake))
    out.append("Definition sig_Property : list sigrow := %s.\n" % _sig_rows(_Property.__init__))
    # the filter used by the parser includes the bound `self` name
    fparams = [p.name for p in inspect.signature(Element.__init__).parameters.values()]
    out.append("Definition filter_includes_self : bool := %s.\n" % cq_bool("self" in fparams))
    return "From Statham.Model Require Import Tables.\n" + "".join(out)


def sent_signatures():
    names = ["Element", "String", "Integer", "Number", "Boolean", "Null", "Array", "Not", "AnyOf", "OneOf",
             "AllOf", "Nothing", "ObjectMeta", "Property"]
    return ("From Statham.Model Require Import Tables.\n" +
            "".join("Definition sig_%s : list sigrow := [].\n" % n for n in names) +
            "Definition filter_includes_self : bool := true.\n")


register("Gen_signatures", gen_signatures, sent_signatures)


# --------------------------------------------------------------------------
def gen_type_mapping():
    from statham.schema import parser as P
    from statham.serializers import json as J
    rows = ["(%s, %s)" % (cq_str(k), cq_str(v.__name__)) for k, v in P._TYPE_MAPPING.items()]
    rows_j = ["(%s, %s)" % (cq_str(k.__name__), cq_str(v)) for k, v in J._TYPE_MAPPING.items()]
    return ("Definition parser_type_mapping : list (str * str) := %s.\n"
            "Definition json_type_mapping : list (str * str) := %s.\n" % (cq_list(rows), cq_list(rows_j)))


register("Gen_type_mapping", gen_type_mapping,
         lambda: "Definition parser_type_mapping : list (str * str) := [].\nDefinition json_type_mapping : list (str * str) := [].\n")


# --------------------------------------------------------------------------
OPS = {ast.Lt: "OpLt", ast.LtE: "OpLe", ast.Gt: "OpGt", ast.GtE: "OpGe"}
NEG = {"OpLt": "OpGe", "OpLe": "OpGt", "OpGt": "OpLe", "OpGe": "OpLt"}
FLIP = {"OpLt": "OpGt", "OpLe": "OpGe", "OpGt": "OpLt", "OpGe": "OpLe"}


def _param_kw(node):
    """self.params["kw"] -> kw"""
    if (isinstance(node, ast.Subscript) and isinstance(node.value, ast.Attribute) and node.value.attr == "params"):
        sl = node.slice
        if isinstance(sl, ast.Constant) and isinstance(sl.value, str):
            return sl.value
    return None


def _subject(node, argname):
    if isinstance(node, ast.Name) and node.id == argname:
        return "false"
    if (isinstance(node, ast.Call) and isinstance(node.func, ast.Name) and node.func.id == "len"
            and len(node.args) == 1 and isinstance(node.args[0], ast.Name) and node.args[0].id == argname):
        return "true"
    return None


def _threshold_of(cls):
    """If cls._validate is `if <cmp>: raise ValidationError` return (kw, is_len, op) else None."""
    import textwrap
    try:
        fn = ast.parse(textwrap.dedent(inspect.getsource(cls._validate))).body[0]
    except (OSError, TypeError, SyntaxError):
        return None
    body = [n for n in fn.body if not (isinstance(n, ast.Expr) and isinstance(n.value, ast.Constant))]
    if len(body) != 1 or not isinstance(body[0], ast.If) or body[0].orelse:
        return None
    iff = body[0]
    if len(iff.body) != 1 or not isinstance(iff.body[0], ast.Raise):
        return None
    argname = fn.args.args[1].arg
    test = iff.test
    neg = False
    while isinstance(test, ast.UnaryOp) and isinstance(test.op, ast.Not):
        neg = not neg
        test = test.operand
    if not (isinstance(test, ast.Compare) and len(test.ops) == 1 and type(test.ops[0]) in OPS):
        return None
    op = OPS[type(test.ops[0])]
    left, right = test.left, test.comparators[0]
    kw, subj = _param_kw(right), _subject(left, argname)
    if kw is None or subj is None:
        kw, subj = _param_kw(left), _subject(right, argname)
        op = FLIP[op]
    if kw is None or subj is None:
        return None
    if neg:
        op = NEG[op]
    return kw, subj, op


def gen_validators():
    from statham.schema import validation as V
    from statham.schema.validation.base import Validator, InstanceOf, NoMatch
    from statham.schema.elements.meta import ObjectMeta
    subs = sorted(V._all_subclasses(Validator), key=lambda c: c.__name__)
    rows, thr = [], []
    for c in subs:
        types = [t.__name__ for t in (c.types or ())]
        rows.append("(%s, %s, %s)" % (cq_str(c.__name__), cq_list([cq_str(t) for t in types]),
                                      cq_list([cq_str(k) for k in c.keywords])))
        t = _threshold_of(c)
        if t:
            thr.append("(%s, %s, %s)" % (cq_str(t[0]), t[1], t[2]))
    # the classes get_validators skips: names compared in an `in (...)` test inside get_validators
    tree = src_ast("statham/schema/validation/__init__.py")
    fn = find_func(tree, "get_validators")
    skipped = None
    for node in ast.walk(fn):
        if isinstance(node, ast.Compare) and len(node.ops) == 1 and isinstance(node.ops[0], ast.In):
            c = node.comparators[0]
            if isinstance(c, (ast.Tuple, ast.List, ast.Set)) and all(isinstance(e, ast.Name) for e in c.elts):
                skipped = sorted(e.id for e in c.elts)
    if skipped is None:
        raise ShapeNotFound("skip set in get_validators")
    # ObjectMeta.validators: the list display of calls/attributes in the property body
    mtree = src_ast("statham/schema/elements/meta.py")
    objv = None
    for node in ast.walk(mtree):
        if isinstance(node, ast.FunctionDef) and node.name == "validators":
            for sub in ast.walk(node):
                if isinstance(sub, ast.List) and len(sub.elts) >= 5:
                    names = []
                    for e in sub.elts:
                        if isinstance(e, ast.Call):
                            f = e.func
                            if isinstance(f, ast.Attribute) and f.attr == "from_element" and isinstance(f.value, ast.Name):
                                names.append(f.value.id)
                            elif isinstance(f, ast.Name):
                                names.append(f.id)
                            else:
                                names.append("?")
                        elif isinstance(e, ast.Attribute):
                            names.append(e.attr)
                        else:
                            names.append("?")
                    objv = names
    if objv is None:
        raise ShapeNotFound("ObjectMeta.validators list")
    return (
        "From Statham.Model Require Import PyNum.\n"
        "Definition validators : list (str * list str * list str) := %s.\n"
        "Definition thresholds : list (str * bool * cmpop) := %s.\n"
        "Definition skipped_validators : list str := %s.\n"
        "Definition object_validators : list str := %s.\n"
        % (cq_list(rows), cq_list(sorted(thr)), cq_list([cq_str(s) for s in skipped]),
           cq_list([cq_str(s) for s in objv]))
    )


register("Gen_validators", gen_validators,
         lambda: ("From Statham.Model Require Import PyNum.\n"
                  "Definition validators : list (str * list str * list str) := [].\n"
                  "Definition thresholds : list (str * bool * cmpop) := [].\n"
                  "Definition skipped_validators : list str := [].\n"
                  "Definition object_validators : list str := [].\n"))


# --------------------------------------------------------------------------
def gen_parser_tables():
    tree = src_ast("statham/schema/parser.py")
    pe = find_func(tree, "parse_element")
    literal_keys, table = None, None
    for node in ast.walk(pe):
        if isinstance(node, ast.For):
            seq = str_seq(node.iter)
            if seq is not None:
                literal_keys = seq
            elif isinstance(node.iter, (ast.Tuple, ast.List)) and node.iter.elts and all(
                    isinstance(e, ast.Tuple) and len(e.elts) == 2 and isinstance(e.elts[0], ast.Constant)
                    and isinstance(e.elts[1], ast.Name) for e in node.iter.elts):
                table = [(e.elts[0].value, e.elts[1].id) for e in node.iter.elts]
    if literal_keys is None or table is None:
        raise ShapeNotFound("literal keys / sub-parser table in parse_element")
    po = find_func(tree, "_parse_object")
    cls_keys = None
    for node in ast.walk(po):
        if isinstance(node, ast.For):
            seq = str_seq(node.iter)
            if seq is not None and len(seq) >= 5:
                cls_keys = seq
    if cls_keys is None:
        raise ShapeNotFound("cls_args key list in _parse_object")
    # how _parse_composition iterates the list-valued composition keywords: take the for-loop whose
    # body stores into a subscript keyed by the loop variable, and EVALUATE its iteration expression
    # in the parser module's own namespace (robust to any spelling of the same sequence).  The kind
    # is decided by the type of the value: a set/frozenset has no defined order.
    pc = find_func(tree, "_parse_composition")
    it_expr = None
    for node in ast.walk(pc):
        if isinstance(node, ast.For) and isinstance(node.target, ast.Name):
            var = node.target.id
            stores = [n for n in ast.walk(node) if isinstance(n, ast.Subscript) and isinstance(n.ctx, ast.Store)
                      and isinstance(n.slice, ast.Name) and n.slice.id == var]
            if stores:
                it_expr = node.iter
    if it_expr is None:
        raise ShapeNotFound("composition loop in _parse_composition")
    from statham.schema import parser as P
    try:
        val = eval(compile(ast.Expression(it_expr), "<comp-iter>", "eval"), dict(vars(P)))
    except Exception as exc:
        raise ShapeNotFound("composition loop iterable cannot be evaluated: %s" % exc)
    if isinstance(val, (set, frozenset)):
        kind = "SetIter"
        order_now = list(val)
    else:
        order_now = list(val)
        kind = "FixedOrder" if all(isinstance(x, str) for x in order_now) else "Other"
    # a syntactically set-typed iterable counts as SetIter whatever its evaluated type
    import translate_setiter as TS
    if TS.is_set_expr(it_expr, {}, set()):
        kind = "SetIter"
    return (
        "Inductive comp_iter_kind := FixedOrder | SetIter | OtherIter.\n"
        "Definition literal_keys : list str := %s.\n"
        "Definition subparser_table : list (str * str) := %s.\n"
        "Definition cls_args_keys : list str := %s.\n"
        "Definition comp_iter : comp_iter_kind := %s.\n"
        "Definition comp_order_now : list str := %s.\n"
        % (cq_list([cq_str(k) for k in literal_keys]),
           cq_list(["(%s, %s)" % (cq_str(a), cq_str(b)) for a, b in table]),
           cq_list([cq_str(k) for k in cls_keys]),
           {"FixedOrder": "FixedOrder", "SetIter": "SetIter"}.get(kind, "OtherIter"),
           cq_list([cq_str(k) for k in order_now]))
    )


register("Gen_parser_tables", gen_parser_tables,
         lambda: ("Inductive comp_iter_kind := FixedOrder | SetIter | OtherIter.\n"
                  "Definition literal_keys : list str := [].\nDefinition subparser_table : list (str * str) := [].\n"
                  "Definition cls_args_keys : list str := [].\nDefinition comp_iter : comp_iter_kind := OtherIter.\n"
                  "Definition comp_order_now : list str := [].\n"))


# --------------------------------------------------------------------------
def _ranges(pred):
    out, start = [], None
    for c in range(0x110000):
        if pred(c):
            if start is None:
                start = c
        elif start is not None:
            out.append((start, c - 1))
            start = None
    if start is not None:
        out.append((start, 0x10FFFF))
    return out


def _cq_ranges(rs):
    return "[" + ";".join("(%d,%d)" % r for r in rs) + "]%N"


def gen_unicode():
    alnum = _ranges(lambda c: chr(c).isalnum())
    ident_start = _ranges(lambda c: chr(c).isidentifier())
    ident_cont = _ranges(lambda c: ("a" + chr(c)).isidentifier())
    nfkc_unstable = _ranges(lambda c: unicodedata.normalize("NFKC", chr(c)) != chr(c))
    # checked fact: every character name is over [A-Z0-9 -] (so lower-cased labels are [a-z0-9 -])
    bad = 0
    for c in range(0x110000):
        n = unicodedata.name(chr(c), None)
        if n is not None and not all(ch.isupper() and ch.isascii() or ch.isdigit() or ch in " -" for ch in n):
            bad += 1
    return (
        "Definition unidata_version : str := %s.\n"
        "Definition alnum_ranges : list (N * N) := %s.\n"
        "Definition ident_start_ranges : list (N * N) := %s.\n"
        "Definition ident_continue_ranges : list (N * N) := %s.\n"
        "Definition nfkc_unstable_ranges : list (N * N) := %s.\n"
        "Definition names_outside_upper_digit_space_hyphen : N := %d%%N.\n"
        % (cq_str(unicodedata.unidata_version), _cq_ranges(alnum), _cq_ranges(ident_start),
           _cq_ranges(ident_cont), _cq_ranges(nfkc_unstable), bad)
    )


register("Gen_unicode", gen_unicode,
         lambda: ("Definition unidata_version : str := [].\nDefinition alnum_ranges : list (N * N) := [].\n"
                  "Definition ident_start_ranges : list (N * N) := [].\nDefinition ident_continue_ranges : list (N * N) := [].\n"
                  "Definition nfkc_unstable_ranges : list (N * N) := [].\n"
                  "Definition names_outside_upper_digit_space_hyphen : N := 1%N.\n"))


# --------------------------------------------------------------------------
def gen_reserved():
    from statham.schema.elements.meta import RESERVED_PROPERTIES
    tree = src_ast("statham/schema/parser.py")
    fn = find_func(tree, "_parse_attribute_name")
    kept = None
    for node in ast.walk(fn):
        if isinstance(node, ast.Compare) and len(node.ops) == 1 and isinstance(node.ops[0], ast.In):
            seq = str_seq(node.comparators[0])
            if seq is not None and all(len(x) == 1 for x in seq):
                kept = seq
    if kept is None:
        raise ShapeNotFound("kept characters in _char_map")
    return (
        "Definition reserved : list str := %s.\n"
        "Definition kwlist : list str := %s.\n"
        "Definition softkwlist : list str := %s.\n"
        "Definition kept_chars : list str := %s.\n"
        % (cq_list([cq_str(x) for x in RESERVED_PROPERTIES]), cq_list([cq_str(x) for x in keyword.kwlist]),
           cq_list([cq_str(x) for x in getattr(keyword, "softkwlist", [])]),
           cq_list([cq_str(x) for x in kept]))
    )


register("Gen_reserved", gen_reserved,
         lambda: ("Definition reserved : list str := [].\nDefinition kwlist : list str := [[]].\n"
                  "Definition softkwlist : list str := [].\nDefinition kept_chars : list str := [].\n"))
