"""C01 — validation verdicts match JSON Schema Draft 6 (with the documented deviations)."""
import copy
import json
import os
import random

import common
import gen
import schemacase as sc
from canon import Unmodelled
from common import Result, rng_for
from findings import classify_c01

CORPUS = [
    # a composition keyword whose ONLY sibling is additionalProperties / additionalItems (the base element consists of that one keyword)
    ({"allOf": [{"properties": {"a": {}}}], "additionalProperties": False}, [{"a": 1}, {}, {"b": 1}, 1]),
    ({"anyOf": [{"required": ["a"]}, {"required": ["b"]}], "additionalProperties": {"type": "integer"}}, [{"a": "x"}, {"a": 1}, {"b": 2, "a": 1}, {}]),
    ({"not": {"required": ["x"]}, "additionalProperties": False}, [{"y": None}, {}, {"x": 1}]),
    ({"oneOf": [{"minItems": 1}, {"maxItems": 0}], "additionalItems": False, "items": [{"type": "string"}]}, [["a"], ["a", 1], [], [1]]),
    ({"anyOf": [{"type": "array"}], "additionalItems": {"type": "null"}, "items": []}, [[None], [1], []]),
    ({"allOf": [{}], "additionalProperties": False, "default": {"k": 1}}, [{}, {"k": 1}]),
    # enum / const holding booleans next to the numbers they alias in Python
    ({"enum": [True]}, [1, 1.0, True, 0]), ({"enum": [False]}, [0, 0.0, False, ""]), ({"type": "integer", "enum": [True, 2]}, [1, 2, True]),
    ({"items": [{"enum": [True]}]}, [[1], [True]]), ({"properties": {"flag": {"enum": [True, False]}}}, [{"flag": 1}, {"flag": 0}, {"flag": True}]),
    ({"enum": [1]}, [True, 1, 1.0]), ({"enum": [[True]]}, [[1], [True]]), ({"const": True}, [1, True]), ({"enum": [{"on": 1}]}, [{"on": True}, {"on": 1}, {"on": 1.0}]),
    # the only matching member of `contains` is a FALSY value (0, "", null, false, [], {}) - and the falsy keyword values themselves
    ({"contains": {"type": "integer"}}, [[0], ["a", 0], [0.0], [], ["a"]]),
    ({"contains": {"type": "null"}}, [[None], [0], [False]]),
    ({"contains": True}, [[None], [0], [""], [[]], [{}], []]),
    ({"not": {"contains": {"const": ""}}}, [[""], ["a"], [0]]),
    ({"contains": {"enum": [False, [], {}]}}, [[False], [[]], [{}], [0], [None]]),
    ({"type": "array", "items": {"type": "boolean"}, "contains": {"const": False}}, [[False], [True], [False, True]]),
    ({"minimum": 0, "maximum": 0}, [-1, 0, 1, 0.5, -0.0]), ({"exclusiveMinimum": 0}, [0, 1, -1]), ({"exclusiveMaximum": 0}, [0, 1, -1]),
    ({"maxItems": 0}, [[], [1]]), ({"maxLength": 0}, ["", "a"]), ({"maxProperties": 0}, [{}, {"a": 1}]), ({"minItems": 0, "minLength": 0, "minProperties": 0}, [[], "", {}]),
    ({"const": 0}, [0, False, 1, None, 0.0]), ({"const": False}, [False, 0, None]), ({"const": None}, [None, 0, False, ""]), ({"const": ""}, ["", 0, None]),
    ({"const": []}, [[], 0, None, {}]), ({"const": {}}, [{}, [], None]), ({"enum": [0]}, [0, False, 1]), ({"enum": []}, [0, None]),
    ({"contains": False}, [[1], []]), ({"propertyNames": False}, [{"a": 1}, {}]), ({"multipleOf": 0.5}, [1, 0.25]), ({"uniqueItems": False}, [[1, 1]]),
    ({"type": "object", "title": "Z", "required": [], "properties": {"a": {"const": 0}, "b": {"maximum": 0}}}, [{"a": 0}, {"a": 1}, {"b": 1}, {"b": 0}]),
    # keywords parsed once, then re-visited because of a sibling composition keyword / type list
    ({"dependencies": {"a": {"required": ["b"]}, "c": False}, "not": {"type": "string"}}, [{"a": 1}, {"a": 1, "b": 2}, {"c": 1}, {}, "s"]),
    ({"type": ["object", "array"], "title": "D", "dependencies": {"a": {"minProperties": 2}}, "items": {"type": "integer"},
      "patternProperties": {"^x": {"type": "string"}}, "propertyNames": {"maxLength": 2}, "contains": {"const": 1}},
     [{"a": 1}, {"a": 1, "b": 2}, [1], ["a"], [2], {"x": 1}, {"x": "s"}, {"abc": 1}]),
    ({"anyOf": [{"minimum": 1}], "properties": {"p": {"type": "integer"}}, "items": [{"type": "string"}], "additionalItems": False,
      "additionalProperties": {"type": "null"}, "contains": {"type": "string"}, "propertyNames": {"pattern": "^[pq]"}},
     [{"p": 1}, {"p": "a"}, {"q": None}, {"q": 1}, {"z": None}, ["a"], ["a", "b"], [1], 0, 1]),
    # interaction templates named in the property's quantifier
    ({"type": "object", "title": "T", "required": ["a"], "additionalProperties": False}, [{"a": 1}, {}, {"b": 1}]),
    ({"required": ["a"], "additionalProperties": False}, [{"a": 1}, {}]),
    ({"const": [1]}, [[True], [1], [1.0]]),
    ({"enum": [{"a": False}, [0]]}, [{"a": 0}, {"a": False}, [False], [0.0]]),
    ({"uniqueItems": True}, [[[1], [True]], [1, True], [1, 1.0], [{"a": 1}, {"a": True}], [[0], [False]],
                             [[1], [1.0]], [{"a": 2}, {"a": 2.0}], [[], 3, 3.0], [{"n": [100.0]}, {"n": [100]}], [[0, 1], [0.0, 1]], [[1], [2]]]),
    ({"properties": {"rows": {"uniqueItems": True}}}, [{"rows": [[0, 1], [0.0, 1]]}, {"rows": [[0, 1], [1, 0]]}]),
    # a member name matched by several patternProperties: every matching schema applies (also next to a declared property)
    ({"patternProperties": {"^a": {"type": "integer"}, "b$": {"minimum": 5}}}, [{"ab": 3}, {"ab": 7}, {"ab": "x"}, {"a": 3}, {"b": 3}, {"b": 7}]),
    ({"type": "object", "title": "T", "properties": {"ab": {"type": "number"}}, "patternProperties": {"^a": {"maximum": 10}, "b$": {"minimum": 5}}},
     [{"ab": 3}, {"ab": 7}, {"ab": 12}, {"ab": "s"}]),
    ({"patternProperties": {"^x": True, "y$": False}, "additionalProperties": False}, [{"xy": 1}, {"x": 1}, {"y": 1}, {"z": 1}, {}]),
    ({"patternProperties": {"^x": {"type": "string"}, "y$": {"maxLength": 2}, "^.y$": {"minLength": 2}}}, [{"xy": "a"}, {"xy": "ab"}, {"xy": "abc"}, {"xy": 1}]),
    ({"type": "object", "title": "T", "properties": {"a b": {"type": "string"}, "a_b": {"type": "integer"}}},
     [{"a b": "x", "a_b": 1}, {"a b": 1}, {"a_b": "x"}]),
    ({"type": "object", "title": "T", "properties": {"a": {"type": "integer", "default": 3}}, "required": ["a"]}, [{}, {"a": 1}, {"a": "x"}]),
    ({"properties": {"a": {"type": "integer", "default": 3}}, "required": ["a"]}, [{}, {"a": 1}]),
    ({"type": "integer", "oneOf": [{"minimum": 3}, {"maximum": 5}], "anyOf": [{"multipleOf": 2}, {"multipleOf": 3}]}, [2, 3, 4, 6, 7, 9, 4.0]),
    ({"type": ["string", "integer"], "minLength": 2, "minimum": 3}, ["a", "ab", 2, 3, 3.0, True, None]),
    ({"items": [{"type": "integer"}, {"type": "string"}], "additionalItems": False}, [[1, "a"], [1, "a", 2], [1], [], ["a"]]),
    ({"items": [{"type": "integer"}], "additionalItems": {"type": "string"}, "contains": {"const": "z"}}, [[1, "z"], [1, "a"], [1, 2], ["z"]]),
    ({"items": [], "additionalItems": {"type": "string"}}, [["a"], [1], []]),
    ({"items": False}, [[], [1]]),
    ({"dependencies": {"a": ["b"], "c": {"required": ["d"]}}}, [{"a": 1}, {"a": 1, "b": 2}, {"c": 1}, {"c": 1, "d": 1}, {"x": 1}]),
    ({"dependencies": {"card": ["billing"], "ship": ["address"]}}, [{"ship": 3}, {"ship": 3, "address": 1}, {"card": 1}]),
    ({"propertyNames": {"maxLength": 2}, "patternProperties": {"^a": {"type": "integer"}}, "properties": {"ab": {"minimum": 3}},
      "additionalProperties": {"type": "string"}}, [{"ab": 5}, {"ab": 1}, {"ab": "x"}, {"x": "s"}, {"x": 1}, {"abc": 1}, {"a": "x"}]),
    ({"not": {"type": "integer"}, "minimum": 2}, [1, 2, 2.5, 1.5, "a"]),
    ({"allOf": [{"type": "object", "title": "A", "properties": {"x": {"type": "integer"}}}], "required": ["x"]}, [{}, {"x": 1}, {"x": "a"}]),
    ({"type": "number", "multipleOf": 0.1}, [0.3, 0.5, 1, 0.25]),
    ({"type": "integer"}, [1, 1.0, True]),
    ({"type": "boolean"}, [True, 0, 1]),
    ({"enum": [1, "a"]}, [True, 1.0, 1, "a"]),
    ({"contains": False}, [[], [1]]),
    ({"contains": True}, [[], [1]]),
    ({"minProperties": 1, "maxProperties": 1}, [{}, {"a": 1}, {"a": 1, "b": 2}, [1, 2]]),
    ({"anyOf": [{"type": "object", "title": "T", "properties": {"k": {"const": True}}},
                {"type": "object", "title": "T", "properties": {"k": {"const": 1}}}]}, [{"k": 1}, {"k": True}, {"k": 2}]),
]


def make_cases(rng, tier, res, stats):
    n_schemas = 350 if tier == "quick" else 5000
    n_vals = 5 if tier == "quick" else 8
    cfg = gen.Cfg(max_depth=3 if tier == "quick" else 4)
    items = [(s, vals + no_value(s), "corpus") for s, vals in CORPUS]
    for i in range(n_schemas):
        r = rng.random()
        if r < 0.12:
            c = gen.Cfg(max_depth=cfg.max_depth, safe_names=False, required_undeclared=0.4)   # interaction stream
            s = gen.gen_schema(rng, c, force_kind=rng.choice(["object", "untyped"]))
            stream = "interaction"
        else:
            s = gen.gen_schema(rng, cfg)
            stream = "directed"
        if not isinstance(s, dict):
            s = {"not": s}
        vals = [gen.gen_value(rng, s) for _ in range(n_vals)]
        if rng.random() < 0.5:
            vals.append(gen.lookalike(rng, vals[0]))
        items.append((s, vals + no_value(s), stream))
    # documents after $ref resolution: one object schema (the same JSON) in several positions
    for i in range(n_schemas // 8):
        shared = gen.gen_schema(rng, gen.Cfg(max_depth=2), force_kind="object")
        if not isinstance(shared, dict):
            continue
        shared.setdefault("title", rng.choice(["Shared", "Point", "Item"]))
        shared["type"] = "object"
        holder = {"type": "object", "title": "Holder%d" % (i % 3), "properties": {"a": copy.deepcopy(shared), "b": copy.deepcopy(shared)}}
        r = rng.random()
        if r < 0.4:
            holder["properties"]["l"] = {"type": "array", "items": copy.deepcopy(shared)}
        elif r < 0.7:
            holder["properties"]["c"] = {"anyOf": [copy.deepcopy(shared), {"type": "null"}]}
        else:
            holder["additionalProperties"] = copy.deepcopy(shared)
        if rng.random() < 0.4:
            holder["required"] = ["a"]
        vals = [gen.gen_value(rng, holder) for _ in range(n_vals)]
        items.append((holder, vals + no_value(holder), "shared-subschema"))
    return items


def no_value(s):
    """the no-value call, checked against the model here too - except where finding C05-K14 applies (a class-level default
    next to a property named `default`: the call raises TypeError; recorded under C05, and not a JSON value anyway)"""
    import findings
    for x in findings.subschemas(s):
        if isinstance(x, dict) and x.get("type") == "object" and "default" in x and isinstance(x.get("properties"), dict) and "default" in x["properties"]:
            return []
    return [sc.NP]


def run(tier, seed, replay=None):
    res = Result("C01", tier, seed)
    rng = rng_for(seed, "C01")
    stats = {"streams": {}, "parse_kinds": {}, "verdicts": {"ok": 0, "rej": 0, "terr": 0, "crash": 0},
             "unmodelled": 0, "codes": {}, "keywords": {}}
    if replay:
        payload = json.load(open(replay))
        items = [(payload["schema"], [sc.NP if v == "__NotPassed__" else v for v in payload["values"]], "replay")]
    else:
        items = make_cases(rng, tier, res, stats)
    if not replay:
        # the reference semantics itself against jsonschema's Draft6Validator (a test of Spec6.v, see specref.py)
        import specref
        n_ref = 150 if tier == "quick" else 1500
        ref = specref.compare([(s, vals) for s, vals, _ in items[:n_ref]], tag="c01ref")
        stats["reference_semantics_vs_jsonschema"] = ref
        if ref.get("unexplained"):
            res.notes.append("Spec6.v differs from jsonschema outside the documented deviations on %d verdict(s): %s"
                             % (ref["unexplained"], json.dumps(ref["unexplained_samples"][:2], default=repr)[:600]))
    cases, metas = [], []
    for s, vals, stream in items:
        if not replay and not no_value(s):
            # finding C05-K14 (class-level default next to a property named `default`): every call that reaches the class
            # with no value raises TypeError; recorded and judged under C05, not here
            stats["skipped_k14"] = stats.get("skipped_k14", 0) + 1
            continue
        try:
            ob = sc.observe(s, vals)
        except Unmodelled as exc:
            stats["unmodelled"] += 1
            continue
        stats["streams"][stream] = stats["streams"].get(stream, 0) + 1
        stats["parse_kinds"][ob["kind"]] = stats["parse_kinds"].get(ob["kind"], 0) + 1
        for k in s:
            stats["keywords"][k] = stats["keywords"].get(k, 0) + 1
        for (v, o), raw in zip(ob["vals"], ob["raw"]):
            stats["verdicts"][o[0]] += 1
            res.count(json.dumps(s, sort_keys=True) + "|" + ("NP" if v is sc.NP else json.dumps(v, sort_keys=True)),
                      nontrivial=len(s) >= 1)
            if o[0] == "terr" and v is not sc.NP:     # the no-value call is not a JSON value (C05's subject)
                res.violation({"property": "C01", "kind": "oracle", "what": "value rejected with TypeError instead of the library's ValidationError: %s" % raw[1],
                               "schema": s, "values": [v], "replay": "./check C01 --replay <this file>"})
        if ob["kind"] == "crash":
            # C10's subject; noted, not judged here
            stats.setdefault("parse_crashes", []).append(ob["detail"])
        cases.append(sc.cq_case(s, ob["parse_obs"], ob["vals"]))
        metas.append((s, ob, stream))
        res.sample({"schema": s, "values": ["NotPassed" if v is sc.NP else v for v, _ in ob["vals"]][:3],
                    "verdicts": [o[0] for _, o in ob["vals"]][:3]}, limit=4)
    codes, err = sc.eval_codes(["Elem", "Validate", "Parser", "RunSchema"], "run_case_c01", cases, tag="c01")
    res.corr_error = err
    res.corr_mismatches = []
    stats["theorem_applies"] = {"cases": 0, "calls": 0, "class_free_cases": 0, "with_classes_cases": 0, "with_revisited_schemas_cases": 0}
    for idx, cs in sorted((codes or {}).items()):
        s, ob, stream = metas[idx]
        if 9 in cs:
            stats["theorem_applies"]["class_free_cases"] += 1
        elif 10 in cs:
            stats["theorem_applies"]["with_classes_cases"] += 1
        elif 11 in cs:
            stats["theorem_applies"]["with_revisited_schemas_cases"] += 1
        if 9 in cs or 10 in cs or 11 in cs:
            # the schema lies in the fragment of C01_validity_plain (9), C01_validity_classes_top (10) or, with schema objects met again,
            # C01_validity_classes_revisits (11): on these cases the
            # model's verdicts are Draft 6 by theorem, so the implementation is tied to Draft 6 by correspondence alone
            stats["theorem_applies"]["cases"] += 1
            stats["theorem_applies"]["calls"] += len(ob["vals"])
            cs = [c for c in cs if c not in (9, 10, 11)]
            if 5 in cs:
                res.corr_mismatches.append({"schema": s, "codes": cs, "what": "model verdict differs from valid6 on a schema of the proved fragment: contradicts C01_validity_plain / C01_validity_classes_top / C01_validity_classes_revisits (cannot happen unless the build is inconsistent)"})
            if not cs:
                continue
        for c in cs:
            stats["codes"][c] = stats["codes"].get(c, 0) + 1
        vals_json = ["__NotPassed__" if v is sc.NP else v for v, _ in ob["vals"]]
        if 4 in cs:
            fid = classify_c01(s)
            res.violation({"property": "C01", "kind": "oracle", "finding": fid,
                           "what": "implementation verdict lies outside Draft 6 (with the documented deviations) as computed by Spec6.v",
                           "schema": s, "values": vals_json, "impl_verdicts": [o[0] for _, o in ob["vals"]],
                           "replay": "./check C01 --replay <this file>"})
        if any(c in cs for c in (1, 2)):
            res.corr_mismatches.append({"schema": s, "values": vals_json, "codes": cs,
                                        "what": "model (Parser.v/Validate.v) and implementation disagree: 1=parse tree, 2=verdict class"})
    stats["accept_ratio"] = round(stats["verdicts"]["ok"] / max(1, stats["verdicts"]["ok"] + stats["verdicts"]["rej"]), 3)
    res.coverage["distribution"] = stats
    res.coverage["traces_validated_against_impl"] = sum(len(m[1]["vals"]) for m in metas)
    res.coverage["rule"] = ("corpus of interaction templates + seeded schema-directed stream (gen.py): schemas over all supported keywords "
                            "to depth 3 (quick) / 4 (thorough), values aimed at each keyword's boundary plus bool/int/float look-alikes; "
                            "distinct = distinct (schema, value) pair; non-trivial = schema has at least one keyword")
    if not replay and not (0.2 <= stats["accept_ratio"] <= 0.8):
        res.notes.append("sanity gate: degenerate accept ratio %s" % stats["accept_ratio"])
    return res
