"""C08 — validation is pure: it changes neither schema nor data, and is repeatable."""
import copy
import json
import warnings

import common
import dslgen
import gen
import schemacase as sc
import treedump
from canon import canon_result, Unmodelled
from common import Result, rng_for
from coqemit import cq_str, cq_list, cq_option, cq_nat

CORPUS_DOCS = [
    # explicit required list + required properties (element and class): the list must not grow
    {"classes": {}, "order": [], "root": {"k": "Element", "kw": {"required": ["a"], "properties": {
        "b": {"e": {"k": "String", "kw": {}}, "required": True, "source": None}}}}},
    {"classes": {"Foo": {"k": "Obj", "name": "Foo", "base": None, "kw": {"required": ["x"]}, "doc": None, "props": {
        "y": {"e": {"k": "Integer", "kw": {}}, "required": True, "source": None}}},
        "Bar": {"k": "Obj", "name": "Bar", "base": "Foo", "kw": {}, "doc": None, "props": {
            "z": {"e": {"k": "Integer", "kw": {}}, "required": True, "source": None}}}},
     "order": ["Foo", "Bar"], "root": {"k": "AnyOf", "elements": [{"k": "Ref", "name": "Bar"}, {"k": "Ref", "name": "Foo"}]}},
    # tuple items, arrays longer than the tuple, additionalItems true / element
    {"classes": {}, "order": [], "root": {"k": "Array", "items": [{"k": "Integer", "kw": {}}, {"k": "String", "kw": {}}], "kw": {}}},
    {"classes": {}, "order": [], "root": {"k": "Element", "kw": {"items": [{"k": "Integer", "kw": {}}], "additionalItems": {"k": "String", "kw": {}}}}},
    # composition branches share one input value; Not returns the raw input
    {"classes": {}, "order": [], "root": {"k": "AllOf", "elements": [
        {"k": "Not", "element": {"k": "String", "kw": {}}},
        {"k": "Element", "kw": {"properties": {"a": {"e": {"k": "Integer", "kw": {"default": 3}}, "required": False, "source": None},
                                               "class_": {"e": {"k": "String", "kw": {}}, "required": False, "source": "class"}}}}]}},
    {"classes": {}, "order": [], "root": {"k": "AllOf", "elements": [
        {"k": "AnyOf", "elements": [{"k": "Not", "element": {"k": "Array", "items": {"k": "Element", "kw": {}}, "kw": {}}}]},
        {"k": "Element", "kw": {"properties": {"a": {"e": {"k": "Integer", "kw": {"default": 3}}, "required": False, "source": None}},
                                "patternProperties": {"^b": {"k": "Integer", "kw": {"default": 1}}}}}]}},
    {"classes": {}, "order": [], "root": {"k": "OneOf", "elements": [
        {"k": "Element", "kw": {"properties": {"a": {"e": {"k": "String", "kw": {}}, "required": True, "source": None}}}},
        {"k": "Element", "kw": {"properties": {"a": {"e": {"k": "Integer", "kw": {}}, "required": False, "source": None},
                                               "b": {"e": {"k": "Null", "kw": {"default": None}}, "required": False, "source": None}},
                                "dependencies": {"a": {"k": "Element", "kw": {"properties": {"c": {"e": {"k": "Element", "kw": {"default": []}}, "required": False, "source": None}}}}}}}]}},
]
CORPUS_VALUES = [{"a": 1}, {"a": "x"}, {"b": 2}, {"x": 1, "y": 2, "z": 3}, {"y": 1}, [1, "a", 2, 3], [1], [1, "a"], ["a"], {}, {"class": "c", "a": 1},
                 {"b1": 1}, "s", 5, None, {"a": 1, "b": None}]


def tagged(v):
    """type- and order-preserving image of a JSON value"""
    if isinstance(v, bool):
        return ["bool", v]
    if isinstance(v, int):
        return ["int", str(v)]
    if isinstance(v, float):
        return ["float", v.hex()]
    if isinstance(v, list):
        return ["list"] + [tagged(x) for x in v]
    if isinstance(v, dict):
        return ["dict"] + [[k if isinstance(k, str) else repr(k), tagged(x)] for k, x in v.items()]
    if v is None or isinstance(v, str):
        return v
    return ["other", type(v).__name__, repr(v)[:60]]


def observe_tree(root, classes):
    from statham.serializers import serialize_json, serialize_python
    roots = [root] + list(classes.values())
    obs = {"dump": treedump.dump(roots), "repr": repr(root)}
    for name, fn in (("json", lambda: serialize_json(root)), ("python", lambda: serialize_python(root, *classes.values()))):
        try:
            with common.time_limit(20):
                obs[name] = fn()
        except BaseException as exc:  # noqa  (serializer errors are C02/C03's subject; here they only have to stay the same)
            obs[name] = "raised " + type(exc).__name__
    return obs


def call(e, v):
    from statham.schema.exceptions import ValidationError
    try:
        with warnings.catch_warnings():
            warnings.simplefilter("ignore")
            with common.time_limit(20):
                r = e(v)
        try:
            return "ok", canon_result(r), r
        except Unmodelled:
            return "ok", repr(r), r
    except ValidationError:
        return "rej", None, None
    except TypeError:
        return "terr", None, None
    except BaseException as exc:  # noqa
        return "crash:" + type(exc).__name__, None, None


def first_diff(a, b, path="$"):
    if type(a) != type(b):
        return path
    if isinstance(a, dict):
        for k in list(a) + [k for k in b if k not in a]:
            if k not in a or k not in b:
                return "%s.%s" % (path, k)
            d = first_diff(a[k], b[k], "%s.%s" % (path, k))
            if d:
                return d
        return None
    if isinstance(a, list):
        if len(a) != len(b):
            return path + "(len %d->%d)" % (len(a), len(b))
        for i, (x, y) in enumerate(zip(a, b)):
            d = first_diff(x, y, "%s[%d]" % (path, i))
            if d:
                return d
        return None
    return None if a == b else path


def bind_histories(rng, n):
    """random _Property.bind histories on the implementation -> Coq cases"""
    from statham.schema.elements import Element, Nothing, String
    from statham.schema.property import _Property
    parents = [Element(), String(), Nothing(), Element(minimum=1)]     # Nothing() is falsy: `if parent:` skips it
    names = [None, "", "a", "b", "class_", "x y"]
    cases = []
    for _ in range(n):
        src = rng.choice([None, "", "src", "class"])
        p = _Property(Element(), required=False, source=src)
        pid = {id(x): i for i, x in enumerate(parents)}

        def cell(p):
            return "(mkCell %s %s %s)" % (cq_option(None if p.name is None else cq_str(p.name)),
                                          cq_option(None if p.source is None else cq_str(p.source)),
                                          cq_option(None if p.parent is None else cq_nat(pid[id(p.parent)])))
        init = cell(p)
        steps = []
        for _ in range(rng.randint(1, 6)):
            nm = rng.choice(names)
            par = rng.choice([None] + parents)
            p.bind(name=nm, parent=par)
            par_model = None if (par is None or not par) else cq_nat(pid[id(par)])
            steps.append("(%s, %s, %s)" % (cq_option(None if nm is None else cq_str(nm)), cq_option(par_model), cell(p)))
        cases.append("(%s, %s)" % (init, cq_list(steps)))
    return cases


def run(tier, seed, replay=None):
    res = Result("C08", tier, seed)
    rng = rng_for(seed, "C08")
    stats = {"trees": 0, "calls": 0, "accepted": 0, "rejected": 0, "typeerror": 0, "repeat_groups": 0, "parsed_trees": 0, "cells": 0,
             "bind_histories": 0, "tree_changed": 0, "input_changed": 0}
    docs = []
    if replay:
        payload = json.load(open(replay))
        docs = [(payload["doc"], payload.get("values"), "replay")]
    else:
        docs = [(d, CORPUS_VALUES, "corpus") for d in CORPUS_DOCS]
        for _ in range(120 if tier == "quick" else 2000):
            docs.append((dslgen.gen_doc(rng, dslgen.Cfg(max_depth=rng.choice([1, 2, 3]))), None, "dsl"))
    wb_cases, wb_meta = [], []
    for doc, values, stream in docs:
        root, classes = dslgen.build(doc)
        fresh, _ = dslgen.build(doc)
        stats["trees"] += 1
        before = observe_tree(root, classes)
        vals = list(values) if values is not None else dslgen.gen_values(rng, doc, 6)
        history = []
        payload = {"property": "C08", "doc": doc, "values": vals, "replay": "./check C08 --replay <this file>"}
        failed = False
        for v in vals:
            keep = copy.deepcopy(v)
            tag0 = tagged(keep)
            outs = []
            for rep in range(3):
                arg = v if rep == 0 else copy.deepcopy(keep)
                outs.append(call(root, arg)[:2])
                stats["calls"] += 1
                if rep == 0 and tagged(v) != tag0:
                    stats["input_changed"] += 1
                    res.violation(dict(payload, kind="oracle", value=keep, after=tagged(v),
                                       what="the input value was changed by validation (at %s)" % first_diff(tag0, tagged(v))))
                    failed = True
            stats["repeat_groups"] += 1
            stats[{"ok": "accepted", "rej": "rejected", "terr": "typeerror"}.get(outs[0][0], "rejected")] += 1
            history.append([keep, outs[0][0]])
            if any(o != outs[0] for o in outs[1:]):
                res.violation(dict(payload, kind="oracle", value=keep, outcomes=[o[0] for o in outs],
                                   what="repeating the same call gives a different verdict or an unequal result"))
                failed = True
            now = treedump.dump([root] + list(classes.values()))
            if now != before["dump"]:
                stats["tree_changed"] += 1
                res.violation(dict(payload, kind="oracle", value=keep, history=history,
                                   what="the element tree changed during validation: first difference at %s" % first_diff(before["dump"], now)))
                failed = True
            if failed:
                break
        res.count(json.dumps(doc, sort_keys=True, default=repr), nontrivial=len(vals) > 0)
        if failed:
            continue
        after = observe_tree(root, classes)
        for k in ("repr", "json", "python"):
            if after[k] != before[k]:
                res.violation(dict(payload, kind="oracle", what="%s output differs after the calls" % k, before=str(before[k])[:800], after=str(after[k])[:800]))
        if (root == fresh) is not True or (fresh == root) is not True:
            res.violation(dict(payload, kind="oracle", what="after the calls the tree no longer equals a freshly built copy"))
        res.sample({"tree": before["repr"][:200], "calls": history[:4]}, limit=4)
        cells = treedump.property_cells([root] + list(classes.values()))
        stats["cells"] += len(cells)
        if cells:
            wb_cases.append(cq_list(["(%s, %s, (mkCell %s %s %s))" % (
                cq_str(k), cq_nat(owner), cq_option(None if nm is None else cq_str(nm)),
                cq_option(None if src is None else cq_str(src)), cq_option(None if par is None else cq_nat(par)))
                for k, owner, nm, src, par in cells if owner < 5000 and (par is None or par < 5000)]))
            wb_meta.append(doc)
    # ---- parsed trees (parser output, classes shared by de-duplication) ------------------------
    if not replay:
        from statham.schema.parser import parse_element
        for _ in range(40 if tier == "quick" else 600):
            s = gen.gen_schema(rng, gen.Cfg(max_depth=3))
            if not isinstance(s, dict):
                continue
            try:
                e = parse_element(copy.deepcopy(s))
            except BaseException:  # noqa
                continue
            stats["parsed_trees"] += 1
            d0 = treedump.dump([e])
            r0 = repr(e)
            for v in [gen.gen_value(rng, s) for _ in range(4)]:
                keep = copy.deepcopy(v)
                o1 = call(e, v)[:2]
                o2 = call(e, copy.deepcopy(keep))[:2]
                stats["calls"] += 2
                res.count("parsed:" + json.dumps(s, sort_keys=True, default=repr) + json.dumps(keep, sort_keys=True, default=repr))
                why = None
                if tagged(v) != tagged(keep):
                    why = "the input value was changed by validation"
                elif o1 != o2:
                    why = "repeating the same call gives a different outcome"
                elif treedump.dump([e]) != d0 or repr(e) != r0:
                    why = "the parsed element tree changed during validation: %s" % first_diff(d0, treedump.dump([e]))
                if why:
                    res.violation({"property": "C08", "kind": "oracle-parsed", "schema": s, "value": keep, "what": why})
                    break
    # ---- the Store.v tie: bind histories and well-boundness of real trees ------------------------
    bcases = bind_histories(rng, 150 if tier == "quick" else 2000)
    stats["bind_histories"] = len(bcases)
    codes, err = sc.eval_codes(["Store", "RunStore"], "run_bind_case", bcases, tag="c08b", shard=400)
    res.corr_error = err
    res.corr_mismatches = [{"bind_history": bcases[i], "steps": cs, "what": "Store.bind disagrees with _Property.bind"} for i, cs in sorted((codes or {}).items())]
    codes2, err2 = sc.eval_codes(["Store", "RunStore"], "run_wb_case", wb_cases, tag="c08w", shard=200)
    res.corr_error = res.corr_error or err2
    for i, cs in sorted((codes2 or {}).items()):
        res.corr_mismatches.append({"doc": wb_meta[i], "codes": cs,
                                    "what": "a constructed tree is not well-bound (1) or a call's re-bind would change a property cell (2): premise WB of C08_pure"})
    res.coverage["distribution"] = stats
    res.coverage["traces_validated_against_impl"] = len(bcases) + len(wb_cases)
    res.coverage["rule"] = ("DSL trees (corpus of interaction templates + dslgen) and parsed trees; per tree a sequence of calls with accepted and "
                            "rejected values, each repeated 3 times; after every call: identity-structural dump of all elements/classes/property "
                            "bindings vs before, input vs a deep copy (type- and order-strict); at the end repr, serialize_json, serialize_python and "
                            "== against a freshly built copy.  Store.v is tied by random _Property.bind histories and by checking WB on the dumped "
                            "property cells in Coq.  non-trivial = tree with at least one call; distinct = distinct spec")
    return res
