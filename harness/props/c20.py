"""C20 — unsupported schema features are refused, never silently mis-modelled."""
import copy
import json
import os

import common
import gen
import schemacase as sc
from canon import Unmodelled
from common import Result, rng_for

UNSUPPORTED_DOC = ["$defs", "if", "then", "else", "unevaluatedItems", "unevaluatedProperties"]
# values an unsupported keyword may carry (truthy and falsy ones: a refusal must not depend on the value)
PLANT_VALUES = [True, False, {}, {"type": "string"}, [], 0, "", None, {"properties": {"a": {}}}, 1]


def positions(s, path=()):
    """Paths of every dict statham interprets as a schema (independent of the Coq definition)."""
    if not isinstance(s, dict):
        return
    yield path
    for kw in ("propertyNames", "contains", "not", "additionalProperties", "additionalItems"):
        if isinstance(s.get(kw), dict):
            yield from positions(s[kw], path + (kw,))
    it = s.get("items")
    if isinstance(it, dict):
        yield from positions(it, path + ("items",))
    elif isinstance(it, list):
        for i, x in enumerate(it):
            yield from positions(x, path + ("items", i))
    for kw in ("properties", "patternProperties", "dependencies"):
        d = s.get(kw)
        if isinstance(d, dict):
            for k, x in d.items():
                yield from positions(x, path + (kw, k))
    for kw in ("anyOf", "oneOf", "allOf"):
        l = s.get(kw)
        if isinstance(l, list):
            for i, x in enumerate(l):
                yield from positions(x, path + (kw, i))


def plant(s, path, kw, val):
    s = copy.deepcopy(s)
    node = s
    for p in path:
        node = node[p]
    node[kw] = copy.deepcopy(val)
    return s


TEMPLATES = [
    {"type": "object", "title": "T", "properties": {"a": {"type": "string"}}, "additionalProperties": {"type": "integer"}},
    {"type": ["object", "null"], "title": "T", "properties": {"a": {"items": [{"type": "string"}, {}]}}},
    {"anyOf": [{"type": "string"}, {"items": {"not": {"type": "null"}}}], "oneOf": [{}, {"contains": {}}], "allOf": [{"minimum": 1}]},
    {"type": "array", "items": [{"type": "integer"}, {"type": "object", "title": "I", "patternProperties": {"^a": {"minLength": 1}}}],
     "additionalItems": {"propertyNames": {"maxLength": 3}}},
    {"dependencies": {"a": {"required": ["b"]}, "c": ["d"]}, "propertyNames": {"pattern": "^a"}},
    {"type": "string", "not": {"enum": ["x"]}, "default": "y"},
    {"properties": {"if": {"type": "string"}, "then": {"type": "integer"}}},   # property NAMES are not keywords
    {"enum": [{"if": 1}], "const": {"if": 1}, "default": {"else": 2}},            # literals are not schemas
]


def impl_parse_doc(doc):
    from statham.schema.parser import parse
    from statham.schema.exceptions import FeatureNotImplementedError, SchemaParseError
    try:
        with common.time_limit(20):
            parse(copy.deepcopy(doc))
        return "ok"
    except FeatureNotImplementedError:
        return "NotImplemented"
    except SchemaParseError:
        return "SchemaParseError"
    except BaseException as exc:  # noqa
        return "crash:" + type(exc).__name__


CYCLE_POSITIONS = [
    ("properties", lambda ref: {"type": "object", "properties": {"next": ref}}),
    ("additionalProperties", lambda ref: {"type": "object", "additionalProperties": ref}),
    ("patternProperties", lambda ref: {"type": "object", "patternProperties": {"^n": ref}}),
    ("propertyNames", lambda ref: {"type": "object", "propertyNames": ref}),
    ("dependencies", lambda ref: {"type": "object", "dependencies": {"a": ref}}),
    ("items", lambda ref: {"type": "array", "items": ref}),
    ("tuple_items", lambda ref: {"type": "array", "items": [{"type": "string"}, ref]}),
    ("additionalItems", lambda ref: {"type": "array", "items": [{}], "additionalItems": ref}),
    ("contains", lambda ref: {"type": "array", "contains": ref}),
    ("anyOf", lambda ref: {"anyOf": [{"type": "string"}, ref]}),
    ("oneOf", lambda ref: {"oneOf": [ref, {"type": "null"}]}),
    ("allOf", lambda ref: {"allOf": [ref]}),
    ("not", lambda ref: {"not": ref}),
    ("untyped_properties", lambda ref: {"properties": {"next": ref}}),
]


def cycle_docs(rng, tier):
    """(label, document) with recursive references through every interpreted position,
    cycle lengths 1..3, rooted at the document root or in definitions."""
    docs = []
    for name, mk in CYCLE_POSITIONS:
        docs.append(("self:" + name, {"title": "Node", **mk({"$ref": "#"})}))
        docs.append(("defs-self:" + name, {"type": "object", "title": "Root", "properties": {"n": {"$ref": "#/definitions/node"}},
                                           "definitions": {"node": {"title": "Node", **mk({"$ref": "#/definitions/node"})}}}))
    n_mixed = 12 if tier == "quick" else 80
    for i in range(n_mixed):
        length = rng.randint(2, 3)
        chain = [rng.choice(CYCLE_POSITIONS) for _ in range(length)]
        defs = {}
        for j, (nm, mk) in enumerate(chain):
            defs["n%d" % j] = {"title": "N%d" % j, **mk({"$ref": "#/definitions/n%d" % ((j + 1) % length)})}
        docs.append(("cycle%d:%s" % (length, "+".join(nm for nm, _ in chain)),
                     {"title": "Root", "type": "object", "properties": {"start": {"$ref": "#/definitions/n0"}}, "definitions": defs}))
    return docs


def impl_main(doc, tag):
    """Run statham.__main__.main on a document written to the scratch directory."""
    from statham.__main__ import main
    from statham.schema.exceptions import FeatureNotImplementedError, SchemaParseError
    d = common.ensure_work()
    path = os.path.join(d, "c20_%s.json" % tag)
    with open(path, "w") as f:
        json.dump(doc, f)
    try:
        with common.time_limit(60):
            main(path + "#/")
        return "ok"
    except FeatureNotImplementedError:
        return "NotImplemented"
    except SchemaParseError:
        return "SchemaParseError"
    except common.ImplTimeout:
        return "timeout"
    except BaseException as exc:  # noqa
        return "crash:%s:%s" % (type(exc).__name__, str(exc)[:100])


TEMPLATES_CLASH = [
    {"type": "object", "title": "Person", "properties": {"first-name": {"type": "string", "minLength": 1}, "first_name": {"type": "string"},
                                                        "class": {"items": {"type": "null"}}, "class_": {"type": "integer"}, "1st": {"not": {"type": "null"}}, "_1st": {}}},
    {"properties": {"a b": {"properties": {"x": {"type": "string"}}}, "a-b": {"anyOf": [{"type": "string"}, {"type": "null"}]}, "a_b": {"type": "integer"}}},
]
DRAFT_URIS = ["http://json-schema.org/draft-04/schema#", "http://json-schema.org/draft-06/schema#", "http://json-schema.org/draft-07/schema#",
              "https://json-schema.org/draft/2019-09/schema", "https://json-schema.org/draft/2020-12/schema", "http://json-schema.org/schema#"]


def run(tier, seed, replay=None):
    res = Result("C20", tier, seed)
    rng = rng_for(seed, "C20")
    stats = {"bases": 0, "planted": 0, "by_keyword": {}, "by_position_kind": {}, "by_value": {}, "codes": {},
             "cycle_docs": 0, "doc_plants": 0, "unmodelled": 0, "base_not_ok": 0}
    items = []   # (schema, expectation, meta)
    if replay:
        payload = json.load(open(replay))
        if payload.get("kind") == "cycle":
            out = impl_main(payload["document"], "replay")
            if out != "NotImplemented":
                res.violation(payload)
            res.count("replay")
            return res
        items.append((payload["schema"], payload.get("expect", "NotImplemented"), {"replay": True}))
    else:
        n_bases = 120 if tier == "quick" else 1500
        cfg = gen.Cfg(max_depth=3 if tier == "quick" else 4)
        bases = [copy.deepcopy(t) for t in TEMPLATES] + [copy.deepcopy(t) for t in TEMPLATES_CLASH] * 3
        while len(bases) < n_bases:
            s = gen.gen_schema(rng, cfg)
            if isinstance(s, dict):
                bases.append(s)
        for b in bases:
            kind, _, _ = sc.impl_parse(b)
            if kind != "ok":
                stats["base_not_ok"] += 1
                continue
            stats["bases"] += 1
            items.append((b, "ok", {"base": True}))
            pos = list(positions(b))
            n_plants = 5 if tier == "quick" else 8
            for _ in range(n_plants):
                path = rng.choice(pos)
                kw = rng.choice(UNSUPPORTED_DOC)
                val = rng.choice(PLANT_VALUES)
                planted = plant(b, path, kw, val)
                items.append((planted, "NotImplemented", {"path": list(path), "kw": kw, "val": val, "base": b}))
                if rng.random() < 0.35:
                    # whatever draft the document says it is written in: the keyword is unsupported by statham all the same
                    uri = rng.choice(DRAFT_URIS)
                    items.append((dict(planted, **{"$schema": uri}), "NotImplemented",
                                  {"path": list(path), "kw": kw, "val": val, "base": b, "declared_draft": uri}))
    # ---- implementation + model on every item ------------------------------------
    cases, metas = [], []
    for s, expect, meta in items:
        try:
            ob = sc.observe(s, [])
        except Unmodelled:
            stats["unmodelled"] += 1
            ob = None
        kind = ob["kind"] if ob else sc.impl_parse(s)[0]
        res.count(json.dumps(s, sort_keys=True, default=repr), nontrivial=expect == "NotImplemented")
        if expect == "NotImplemented":
            stats["planted"] += 1
            stats["by_keyword"][meta.get("kw")] = stats["by_keyword"].get(meta.get("kw"), 0) + 1
            pk = str(meta["path"][-2] if len(meta.get("path", [])) >= 2 and isinstance(meta["path"][-1], (int,)) or
                     (len(meta.get("path", [])) >= 2 and meta["path"][-2] in ("properties", "patternProperties", "dependencies"))
                     else (meta["path"][-1] if meta.get("path") else "root"))
            stats["by_position_kind"][pk] = stats["by_position_kind"].get(pk, 0) + 1
            stats["by_value"][json.dumps(meta.get("val"))] = stats["by_value"].get(json.dumps(meta.get("val")), 0) + 1
            if kind != "NotImplemented":
                res.violation({"property": "C20", "kind": "oracle", "schema": s, "expect": "NotImplemented", "got": kind,
                               "what": "unsupported keyword %r (value %r) planted at interpreted position %r of a schema that parses: "
                                       "parse_element did not raise FeatureNotImplementedError" % (meta.get("kw"), meta.get("val"), meta.get("path")),
                               "replay": "./check C20 --replay <this file>"})
            res.sample({"schema": s, "planted": meta.get("kw"), "at": meta.get("path"), "value": meta.get("val"), "impl": kind}, limit=5)
        elif expect == "ok" and kind == "NotImplemented":
            res.violation({"property": "C20", "kind": "oracle", "schema": s, "expect": "ok", "got": kind,
                           "what": "a schema without any unsupported keyword raises FeatureNotImplementedError"})
        if ob is not None:
            cases.append(sc.cq_case(s, ob["parse_obs"], []))
            metas.append((s, expect, meta, kind))
    codes, err = sc.eval_codes(["Elem", "Validate", "Parser", "RunSchema"], "run_case20", cases, tag="c20")
    res.corr_error = err
    res.corr_mismatches = []
    for idx, cs in sorted((codes or {}).items()):
        s, expect, meta, kind = metas[idx]
        for c in cs:
            stats["codes"][c] = stats["codes"].get(c, 0) + 1
        if 6 in cs or 8 in cs:
            res.violation({"property": "C20", "kind": "oracle-in-coq", "schema": s, "expect": expect, "got": kind, "codes": cs,
                           "what": "6: element returned although Unsupported.uses_unsupported holds; 8: not-implemented error although it does not"})
        if 1 in cs or 7 in cs:
            res.corr_mismatches.append({"schema": s, "codes": cs, "impl": kind,
                                        "what": "model parse result differs from the implementation (1) / model contradicts theorem (7)"})
    # ---- whole documents: definitions and recursive references --------------------
    if not replay:
        for i in range(20 if tier == "quick" else 200):
            b = rng.choice(TEMPLATES)
            kw, val = rng.choice(UNSUPPORTED_DOC), rng.choice(PLANT_VALUES)
            inner = plant(b, rng.choice(list(positions(b))), kw, val)
            doc = {"type": "object", "title": "Root", "definitions": {"d%d" % i: inner, "junk": 3}}
            out = impl_parse_doc(doc)
            stats["doc_plants"] += 1
            res.count("doc:" + json.dumps(doc, sort_keys=True, default=repr))
            if out != "NotImplemented":
                res.violation({"property": "C20", "kind": "oracle", "document": doc, "got": out,
                               "what": "unsupported keyword inside root definitions: parse() did not raise FeatureNotImplementedError"})
        for label, doc in cycle_docs(rng, tier):
            out = impl_main(doc, "cyc%d" % stats["cycle_docs"])
            stats["cycle_docs"] += 1
            res.count("cycle:" + label)
            if out != "NotImplemented":
                res.violation({"property": "C20", "kind": "cycle", "label": label, "document": doc, "got": out,
                               "what": "recursive references (%s): generation did not raise FeatureNotImplementedError" % label,
                               "replay": "./check C20 --replay <this file>"})
        res.sample({"cycle_document": cycle_docs(rng_for(seed, "C20s"), "quick")[3][1]}, limit=6)
    res.coverage["distribution"] = stats
    res.coverage["traces_validated_against_impl"] = len(metas)
    res.coverage["rule"] = ("base schemas: templates + seeded generator (gen.py), kept when the implementation parses them; each base gets "
                            "an unsupported keyword (6 documented) with a truthy or falsy value planted at a random interpreted position "
                            "(independent Python walker); expectation: planted -> FeatureNotImplementedError, base -> parses; the same cases are "
                            "evaluated in Coq (RunSchema.run_case20: model parser + Unsupported.uses_unsupported); documents with planted "
                            "definitions and with $ref cycles through every interpreted position go through parse()/main(). "
                            "non-trivial = planted case; distinct = distinct schema/document")
    return res
