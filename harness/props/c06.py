"""C06 — serialize-then-parse is the identity on statham's normal form."""
import copy
import json
import os
import warnings

import common
import gen
import schemacase as sc
from canon import canon_elem, Unmodelled
from coqemit import cq_json
from common import Result, rng_for
from props.c17 import strict_eq
from props.c07 import exec_module


def pipeline(doc, tag):
    """materialize (json_ref_dict, with statham's title labeller) -> parse -> serialize_json; -> (document, elements)"""
    from json_ref_dict import materialize, RefDict
    from statham.schema.parser import parse
    from statham.serializers import serialize_json
    from statham.titles import title_labeller
    d = common.ensure_work()
    path = os.path.join(d, "c06_%s.json" % tag)
    with open(path, "w") as f:
        json.dump(doc, f)
    with common.time_limit(60):
        schema = materialize(RefDict.from_uri(path + "#/"), context_labeller=title_labeller())
        elems = parse(schema)
        out = serialize_json(*elems)
    return out, elems


def classify(exc):
    from statham.schema.exceptions import FeatureNotImplementedError, SchemaParseError
    if isinstance(exc, FeatureNotImplementedError):
        return "NotImplemented"
    if isinstance(exc, SchemaParseError):
        return "SchemaParseError"
    return "crash:" + type(exc).__name__


def first_diff(a, b, path="$"):
    if isinstance(a, dict) and isinstance(b, dict):
        for k in list(a) + [k for k in b if k not in a]:
            if k not in a or k not in b:
                return "%s.%s (only on one side)" % (path, k)
            d = first_diff(a[k], b[k], "%s.%s" % (path, k))
            if d:
                return d
        return None
    if isinstance(a, list) and isinstance(b, list):
        if len(a) != len(b):
            return "%s (length %d vs %d)" % (path, len(a), len(b))
        for i, (x, y) in enumerate(zip(a, b)):
            d = first_diff(x, y, "%s[%d]" % (path, i))
            if d:
                return d
        return None
    return None if strict_eq(a, b) else "%s (%r vs %r)" % (path, a, b)


TEMPLATES = [
    # a definition that is a structural twin of the root, referenced from another definition
    {"type": "object", "title": "Point", "properties": {"x": {"type": "number"}, "y": {"type": "number"}},
     "definitions": {"vector": {"type": "object", "title": "Vector", "properties": {"x": {"type": "number"}, "y": {"type": "number"}}},
                     "segment": {"type": "object", "title": "Segment", "properties": {"direction": {"$ref": "#/definitions/vector"}}}}},
    # an array property whose annotation is a bare List
    {"type": "object", "title": "Holder", "properties": {"empty": {"type": "array", "items": [], "additionalItems": False}}},
    {"type": "object", "title": "Holder2", "properties": {"t": {"type": "array", "items": [{"type": "string"}], "additionalItems": False},
                                                         "u": {"type": "array", "items": [{"type": "string"}, {}]}, "v": {"type": "array"}}},
    {"type": "object", "title": "Root", "properties": {"class": {"type": "string", "default": ""}, "n": {"type": ["integer", "null"], "default": None},
                                                      "child": {"type": "object", "title": "Child", "required": ["a b"], "properties": {"a b": {"type": "integer"}}}},
     "required": ["class", "extra"], "additionalProperties": False},
    {"anyOf": [{"type": "string"}, {"type": "null"}], "default": None, "description": "d"},
    {"type": "array", "items": [{"type": "object", "title": "item"}, {"type": "object", "title": "item", "properties": {"x": {}}}], "additionalItems": False},
    {"title": "T", "type": "object", "properties": {"a": {"$ref": "#/definitions/thing"}, "b": {"$ref": "#/definitions/thing"}},
     "definitions": {"thing": {"type": "object", "properties": {"v": {"type": "number", "multipleOf": 0.5}}}}},
    {"type": "object", "title": "foo_1", "properties": {"p": {"type": "object", "title": "Foo"}, "q": {"type": "object", "title": "foo", "required": ["z"]}}},
    {"type": ["object"], "title": "Single", "default": {}, "patternProperties": {"^x": {"type": "object", "title": "single"}}},
    {"oneOf": [{"type": "object", "title": "A", "properties": {"k": {"const": True}}}, {"type": "object", "title": "A", "properties": {"k": {"const": 1}}}], "not": {"required": ["zz"]}},
    # object descriptions with significant white space (they travel through the generated class docstring)
    {"type": "object", "title": "Totals", "description": "Totals:\n  - net\n  - gross",
     "properties": {"a": {"type": "object", "title": "Amounts", "description": "Amounts in\n    minor units (cents)."},
                    "b": {"type": "object", "title": "Lead", "description": " starts with a blank"},
                    "c": {"type": "object", "title": "Trail", "description": "ends with a line break\n"},
                    "d": {"type": "object", "title": "Blank", "description": "\n\n  two blank lines first, tab\tinside  "},
                    "e": {"type": "string", "description": "  not an object:\n    kept by repr  "}}},
    # JSON names that are a Python keyword followed by "_" (they need no renaming: the generated source omits `source=`)
    {"type": "object", "title": "Transfer", "required": ["from_"],
     "properties": {"from_": {"type": "string"}, "to": {"type": "string"}, "is_": {"type": "null"}, "not_": {"type": "boolean"},
                    "window": {"properties": {"in_": {"type": "integer"}, "class_": {"type": "string"}}, "required": ["in_"]}}},
    # recorded finding K24: an allOf member (or the keywords next to a composition) that differs from Element() but serializes to {}
    {"allOf": [{"required": []}, {"type": "string"}]},
    {"properties": {}, "anyOf": [{"type": "integer"}, {"type": "null"}]},
    # recorded finding K23: a composition collapsing to Nothing() with a default
    {"type": "object", "title": "T", "properties": {"p": {"oneOf": [False], "default": 2}, "q": {"allOf": [{}, False], "default": 10}}},
]


def nothing_with_default(roots):
    """finding predicate K23: some Nothing() in the tree carries a default (set by _parse_composition as a plain instance attribute)"""
    from statham.schema.elements import Nothing, Element
    from statham.schema.elements.meta import ObjectMeta
    from statham.schema.constants import NotPassed
    from statham.schema.property import _Property
    seen, stack = set(), list(roots)
    while stack:
        x = stack.pop()
        if id(x) in seen:
            continue
        seen.add(id(x))
        if isinstance(x, _Property):
            stack.append(x.element)
            continue
        if isinstance(x, (list, tuple)):
            stack.extend(x)
            continue
        if isinstance(x, dict):
            stack.extend(x.values())
            continue
        if isinstance(x, Nothing) and not isinstance(getattr(x, "default", NotPassed()), NotPassed):
            return True
        if isinstance(x, (Element, ObjectMeta)):
            for attr in ("items", "additionalItems", "contains", "properties", "patternProperties", "additionalProperties",
                         "propertyNames", "dependencies", "elements", "element"):
                try:
                    v = getattr(x, attr, None)
                except Exception:  # noqa
                    v = None
                if isinstance(v, (Element, ObjectMeta, _Property, list, tuple, dict)):
                    stack.append(v)
                elif hasattr(v, "values") and not isinstance(v, (str, bytes)):
                    try:
                        stack.extend(list(v.values()))
                    except Exception:  # noqa
                        pass
    return False


def empty_allof_member(j):
    """finding predicate K24: some allOf list of the document has the empty schema {} as a member.  The parser never keeps an
    Element() there (it drops members equal to Element()), so this member is an element that differs from Element() and yet
    serializes to {} : Element(required=[]) or Element(properties={}) (the serializer deletes empty required / properties)."""
    if isinstance(j, dict):
        a = j.get("allOf")
        if isinstance(a, list) and any(isinstance(m, dict) and not m for m in a):
            return True
        return any(empty_allof_member(v) for v in j.values())
    if isinstance(j, list):
        return any(empty_allof_member(v) for v in j)
    return False


def diff_chain(a, b, chain=()):
    """the nodes of `a` from the root down to the innermost container in which first_diff(a, b) lies"""
    chain = chain + (a,)
    if isinstance(a, dict) and isinstance(b, dict):
        for k in list(a) + [k for k in b if k not in a]:
            if k not in a or k not in b:
                return chain
            if first_diff(a[k], b[k]):
                return diff_chain(a[k], b[k], chain)
        return chain
    if isinstance(a, list) and isinstance(b, list) and len(a) == len(b):
        for x, y in zip(a, b):
            if first_diff(x, y):
                return diff_chain(x, y, chain)
    return chain


def trip_finding(J, Jnext):
    """which recorded finding, if any, explains that the next round trip of J gives Jnext"""
    # K22 is the SWAP of de-duplication suffixes between same-titled classes: both documents carry the same class names
    # (titles, definitions keys); a trip that invents or loses a name is something else
    if has_suffixed_title(J) and sorted(all_titles(J)) == sorted(all_titles(Jnext)):
        return "C06-K22"
    # K24: the difference lies in a schema object one of whose allOf members is {} (that member is dropped by the next parse)
    for node in diff_chain(J, Jnext)[-2:]:
        if isinstance(node, dict) and isinstance(node.get("allOf"), list) and any(isinstance(m, dict) and not m for m in node["allOf"]):
            return "C06-K24"
    return None


def all_titles(j, acc=None):
    acc = [] if acc is None else acc
    if isinstance(j, dict):
        if isinstance(j.get("title"), str):
            acc.append(j["title"])
        if isinstance(j.get("definitions"), dict):
            acc.extend("def:" + k for k in j["definitions"])
        for v in j.values():
            all_titles(v, acc)
    elif isinstance(j, list):
        for v in j:
            all_titles(v, acc)
    return acc


def has_suffixed_title(j):
    import re
    if isinstance(j, dict):
        t = j.get("title")
        if isinstance(t, str) and re.search(r"_\d+$", t):
            return True
        return any(has_suffixed_title(v) for v in j.values())
    if isinstance(j, list):
        return any(has_suffixed_title(v) for v in j)
    return False


def run(tier, seed, replay=None):
    from statham.serializers import serialize_python
    from statham.schema.elements.meta import ObjectMeta
    from statham.serializers.orderer import get_object_classes
    res = Result("C06", tier, seed)
    rng = rng_for(seed, "C06")
    stats = {"documents": 0, "normalised": 0, "refused_first_parse": 0, "idempotent": 0, "second_parse_failed": 0, "python_checked": 0, "classes_compared": 0,
             "keywords": {}}
    docs = [json.load(open(replay))["schema"]] if replay else list(TEMPLATES)
    if not replay:
        from props.c02 import minimal_modules
        docs += [copy.deepcopy(files["main.json"]) for files, _ in minimal_modules()]      # each kind of sub-schema exactly once, in each position
    if not replay:
        for _ in range(150 if tier == "quick" else 3000):
            s = gen.gen_schema(rng, gen.Cfg(max_depth=3, p_default=0.3))
            if isinstance(s, dict):
                if rng.random() < 0.3:
                    s.setdefault("definitions", {})["d%d" % rng.randint(0, 3)] = gen.gen_schema(rng, gen.Cfg(max_depth=2))
                docs.append(s)
    corr = []
    for i, J0 in enumerate(docs):
        stats["documents"] += 1
        payload = {"property": "C06", "schema": J0, "replay": "./check C06 --replay <this file>"}
        res.count(json.dumps(J0, sort_keys=True, default=repr), nontrivial=len(J0) > 1)
        for k in J0:
            stats["keywords"][k] = stats["keywords"].get(k, 0) + 1
        try:
            J1, e1 = pipeline(copy.deepcopy(J0), "a%d" % i)
        except BaseException as exc:  # noqa   (what the first parse refuses is C10/C20's subject)
            stats["refused_first_parse"] += 1
            continue
        stats["normalised"] += 1
        try:
            json.dumps(J1)
        except BaseException:  # noqa  (C03's subject)
            continue
        try:
            J2, e2 = pipeline(copy.deepcopy(J1), "b%d" % i)
        except BaseException as exc:  # noqa
            stats["second_parse_failed"] += 1
            res.violation(dict(payload, kind="oracle", first_trip=J1, what="the serialized document cannot be parsed again: %s (%s)" % (classify(exc), str(exc)[:120])))
            continue
        d = first_diff(J1, J2)
        if d:
            res.violation(dict(payload, kind="oracle", first_trip=J1, second_trip=J2, finding=trip_finding(J1, J2),
                               what="serialize(parse(.)) is not idempotent: the second round trip differs at %s" % d))
            continue
        stats["idempotent"] += 1
        # a third trip for good measure (no keyword value lost, altered or invented by ANY further round trip)
        try:
            J3, _ = pipeline(copy.deepcopy(J2), "c%d" % i)
            d3 = first_diff(J2, J3)
            if d3:
                res.violation(dict(payload, kind="oracle", finding=trip_finding(J2, J3), what="the third round trip differs at %s" % d3))
                continue
        except BaseException as exc:  # noqa
            res.violation(dict(payload, kind="oracle", what="the twice-serialized document cannot be parsed: %s" % classify(exc)))
            continue
        # ---- Python half: executing the generated source yields classes equal to the parsed ones -------------------
        classes = []
        for c in get_object_classes(*e1):
            if not any(c is x for x in classes):
                classes.append(c)
        if classes:
            try:
                text = serialize_python(*e1)
                ns = exec_module(text)
            except BaseException as exc:  # noqa
                ns = None
                import findings as _f
                from props.c12 import k2, k3
                names_bad = any(k3(c.__name__) for c in classes) or any(k2(p.source or "") for c in classes for p in c.properties.values()) or _f.k1(J0)
                doc_bad = any(isinstance(getattr(c, "description", None), str) and ('"""' in c.description or c.description.endswith('"') or "\\" in c.description)
                              for c in classes)
                if not (names_bad or doc_bad):
                    res.violation(dict(payload, kind="oracle", what="the generated Python source cannot be produced/executed: %s: %s" % (type(exc).__name__, str(exc)[:150])))
                    continue
            if ns is not None:
                stats["python_checked"] += 1
                for c in classes:
                    stats["classes_compared"] += 1
                    g = ns.get(c.__name__)
                    if g is None or (g == c) is not True or (c == g) is not True:
                        res.violation(dict(payload, kind="oracle", class_name=c.__name__, module=text[:1500],
                                           finding="C06-K23" if nothing_with_default(classes) else None,
                                           what="the class %s obtained by executing the generated source does not equal the parsed class" % c.__name__))
                        break
        res.sample({"schema": J0, "normal_form": J1} if len(json.dumps(J0)) < 400 else {"normal_form_keys": sorted(J1) if isinstance(J1, dict) else J1}, limit=3)
        corr.append((J0, J1))
    # parser model on the same documents (the serializer model is tied by C03), and on the documents whose parsed element lies
    # in the normal form of C06_round_trip_normal_form (code 9): the model's document vs the pipeline's first normal form (6)
    cases, metas = [], []
    for J0, J1 in corr[:400 if tier == "quick" else 4000]:
        try:
            ob = sc.observe(J0, [])
            pure = '"$ref"' not in json.dumps(J0) and isinstance(J1, dict) and "definitions" not in J1
            cases.append("(%s, %s)" % (sc.cq_case(J0, ob["parse_obs"], ob["vals"]), ("(Some %s)" % cq_json(J1)) if pure else "None"))
            metas.append({"schema": J0, "first_normal_form": J1, "codes": []})
        except (Unmodelled, TypeError, AssertionError):
            stats["unmodelled"] = stats.get("unmodelled", 0) + 1
    codes, err = sc.eval_codes(["Elem", "Validate", "Parser", "RunSchema", "RunRound"], "run_case_c06", cases, tag="c06", shard=100) if cases else ({}, None)
    for idx, cs in (codes or {}).items():
        metas[idx]["codes"] = cs
    res.corr_error = err
    res.corr_mismatches = [{"schema": m["schema"], "codes": [c for c in m["codes"] if c not in (9, 10)],
                            "what": "1 = Parser.v and the implementation build different trees; 6 = SerJson.v on the model's element differs from the "
                                    "pipeline's first normal form; 7 = the model's round trip is not the identity on a normal-form element "
                                    "(would contradict C06_round_trip_normal_form); 8 = schema in the fragment of C06_idempotent_classfree but the parsed "
                                    "element fails the normal-form checker (would contradict C06_parser_image_normal)"}
                           for m in metas if any(c in m["codes"] for c in (1, 6, 7, 8))]
    # code 9: the parsed element lies in the class-free normal form (NfFrag.nfb, proved sound): there J2 == J1 holds in the model by
    # theorem, and the implementation is tied to the model by the tree and document comparisons of this run
    # code 10: the SCHEMA lies in the fragment of C06_idempotent_classfree (class-free, named, tidy): the parser's image is in the normal form
    stats["theorem_applies"] = {"documents": sum(1 for m in metas if 9 in m["codes"]), "schemas_in_fragment": sum(1 for m in metas if 10 in m["codes"]),
                                "of": len(metas)}
    res.coverage["distribution"] = stats
    res.coverage["traces_validated_against_impl"] = len(metas)
    res.coverage["rule"] = ("documents (templates: renamed/required properties, repeated and case-variant titles, single-element type lists, local $ref "
                            "shared twice, falsy defaults on compositions; generated schemas, 30% with definitions) through the REAL pipeline "
                            "materialize -> parse -> serialize_json three times: J1 == J2 == J3 type-strictly; executed serialize_python classes == "
                            "parsed classes; parse trees also built by Parser.v in Coq.  non-trivial = schema with more than one keyword")
    return res
