"""C13 — elements always validate according to their current configuration."""
import copy
import json
import warnings

import common
import dslgen
import gen
import schemacase as sc
import treedump
from canon import canon_result, Unmodelled
from common import Result, rng_for
from coqemit import cq_str, cq_list, cq_option, cq_nat
from props.c08 import call, CORPUS_VALUES

SIG = {
    "String": ["default", "const", "enum", "format", "pattern", "minLength", "maxLength", "description"],
    "Integer": ["default", "const", "enum", "minimum", "maximum", "exclusiveMinimum", "exclusiveMaximum", "multipleOf", "description"],
    "Number": ["default", "const", "enum", "minimum", "maximum", "exclusiveMinimum", "exclusiveMaximum", "multipleOf", "description"],
    "Boolean": ["default", "const", "enum", "description"],
    "Null": ["default", "const", "enum", "description"],
    "Array": ["default", "const", "enum", "additionalItems", "minItems", "maxItems", "uniqueItems", "contains", "description"],
    "Element": ["default", "const", "enum", "items", "additionalItems", "minItems", "maxItems", "uniqueItems", "contains", "minimum", "maximum",
                "exclusiveMinimum", "exclusiveMaximum", "multipleOf", "pattern", "minLength", "maxLength", "required",
                "patternProperties", "additionalProperties", "minProperties", "maxProperties", "propertyNames", "dependencies", "description"],
    "Obj": ["default", "const", "enum", "required", "minProperties", "maxProperties", "patternProperties", "additionalProperties",
            "propertyNames", "dependencies", "description"],
}
ELEMENT_VALUED = {"items", "additionalItems", "contains", "patternProperties", "additionalProperties", "propertyNames", "dependencies"}
FLAT = dslgen.Cfg(max_depth=1, classes=False, shared=False, compositions=True)


def sub_spec(rng):
    return dslgen.gen_spec(rng, FLAT, {"classes": {}, "order": []}, 1)


def new_value(rng, kw):
    """a spec-level value for keyword kw"""
    if kw in ("minimum", "maximum", "exclusiveMinimum", "exclusiveMaximum"):
        return rng.choice(gen.NUMS)
    if kw == "multipleOf":
        return rng.choice([1, 2, 3, 0.5, 2.5])
    if kw in ("minLength", "maxLength", "minItems", "maxItems", "minProperties", "maxProperties"):
        return rng.choice([0, 1, 2, 3])
    if kw == "pattern":
        return rng.choice(gen.PATTERNS)
    if kw == "format":
        return rng.choice(["uuid", "date-time"])
    if kw in ("const", "default"):
        return gen.gen_literal(rng, 1)
    if kw == "enum":
        return [gen.gen_literal(rng, 1) for _ in range(rng.randint(1, 3))]
    if kw == "description":
        return rng.choice(["d", "other"])
    if kw == "uniqueItems":
        return rng.choice([True, True, False])          # the constructor default too, written explicitly
    if kw == "required":
        return rng.sample(["a", "b", "class", "zz"], rng.randint(1, 2))
    if kw in ("additionalItems", "additionalProperties"):
        return rng.choice([False, True, sub_spec(rng)])  # True = the constructor default, written explicitly (re-opens a closed parent)
    if kw in ("contains", "propertyNames"):
        return sub_spec(rng) if kw == "contains" else {"k": "String", "kw": {"maxLength": rng.choice([1, 2, 5])}}
    if kw == "items":
        return sub_spec(rng) if rng.random() < 0.5 else [sub_spec(rng) for _ in range(rng.randint(0, 2))]
    if kw == "patternProperties":
        return {rng.choice(gen.PATTERNS): sub_spec(rng) for _ in range(rng.randint(1, 2))}
    if kw == "dependencies":
        return {rng.choice(["a", "b", "class"]): (rng.sample(["a", "b", "c"], rng.randint(0, 2)) if rng.random() < 0.5 else sub_spec(rng))}
    raise KeyError(kw)


def live_value(kw, v):
    """the live object for a spec-level keyword value"""
    def el(s):
        return dslgen.build({"classes": {}, "order": [], "root": s})[0]
    if kw == "items":
        return [el(x) for x in v] if isinstance(v, list) else el(v)
    if kw in ("additionalItems", "additionalProperties"):
        return v if isinstance(v, bool) else el(v)
    if kw in ("contains", "propertyNames"):
        return el(v)
    if kw == "patternProperties":
        return {p: el(x) for p, x in v.items()}
    if kw == "dependencies":
        return {k: (list(x) if isinstance(x, list) else el(x)) for k, x in v.items()}
    return copy.deepcopy(v)


def unset_live(kw):
    from statham.schema.constants import NotPassed
    if kw in ("additionalItems", "additionalProperties"):
        return True
    if kw == "uniqueItems":
        return False
    return NotPassed()


def prop_spec(rng):
    return {"e": sub_spec(rng), "required": rng.random() < 0.4, "source": rng.choice([None, None, "class", "p 1"])}


def live_prop(p):
    from statham.schema.property import Property
    kw = {"required": p["required"]}
    if p.get("source") is not None:
        kw["source"] = p["source"]
    return Property(dslgen.build({"classes": {}, "order": [], "root": p["e"]})[0], **kw)


def has_unbound(root):
    """a property put in through dict.update / setdefault / |= is bound (gets its names) by the next call that reaches it, not before:
    until then it has no JSON name to compare, so structural equality with a fresh element is not demanded (the verdicts are)"""
    from props.c18 import walk
    for e in walk(root)[0]:
        props = getattr(e, "properties", None)
        if isinstance(props, dict) and any(getattr(p, "name", 0) is None or getattr(p, "source", 0) is None for p in props.values()):
            return True
    return False


def sites_of(doc, objs):
    out = []
    seen = set()

    def visit(s):
        if not isinstance(s, dict) or "k" not in s or id(s) in seen:
            return
        seen.add(id(s))
        if id(s) in objs and objs.get("__specs__", {}).get(id(s)) is s and s["k"] in SIG:
            out.append(s)
        for v in list(s.get("kw", {}).values()) + [s.get("items"), s.get("element")] + list(s.get("elements", [])):
            for x in (v if isinstance(v, list) else [v]):
                if isinstance(x, dict) and "k" in x:
                    visit(x)
                elif isinstance(x, dict):
                    for y in x.values():
                        if isinstance(y, dict) and "k" in y:
                            visit(y)
                        elif isinstance(y, dict) and "e" in y:
                            visit(y["e"])
        for p in s.get("props", {}).values():
            visit(p["e"])
    visit(doc["root"])
    for c in doc["classes"].values():
        visit(c)
    return out


def props_holder(s):
    """(dict holding the property specs or None, setter)"""
    if s["k"] == "Obj":
        return s["props"]
    if s["k"] == "Element":
        return s["kw"].get("properties")
    return None


def random_op(rng, doc, objs):
    ss = sites_of(doc, objs)
    if not ss:
        return None
    for _ in range(10):
        s = rng.choice(ss)
        live = objs[id(s)]
        r = rng.random()
        if r < 0.45:
            kw = rng.choice(SIG[s["k"]])
            if kw in s.get("kw", {}) and rng.random() < 0.4:
                return ("unset", s, live, kw)
            return ("set", s, live, kw, new_value(rng, kw))
        holder = props_holder(s)
        if s["k"] not in ("Obj", "Element"):
            continue
        if r < 0.6:
            return ("set_props", s, live, {a: prop_spec(rng) for a in rng.sample(dslgen.ATTRS, rng.randint(0, 3))})
        if holder is None:
            continue
        if r < 0.75:
            return ("set_prop", s, live, rng.choice(dslgen.ATTRS), prop_spec(rng))
        if r < 0.83:
            # the other ways a mapping takes a new entry: update / setdefault / |=
            a = rng.choice(dslgen.ATTRS)
            how = rng.choice(["update", "ior"] + (["setdefault"] if a not in holder else []))
            return ("update_prop", s, live, a, prop_spec(rng), how)
        if r < 0.9 and holder:
            # the same property OBJECT moved to another key of its owner: its JSON name stays what it was
            a = rng.choice(sorted(holder))
            free = [b for b in dslgen.ATTRS if b not in holder]
            if free:
                return ("move_prop", s, live, a, rng.choice(free))
        if holder:
            return ("del_prop", s, live, rng.choice(sorted(holder)))
    return None


def apply_op(op):
    kind, s, live = op[0], op[1], op[2]
    if kind == "set":
        kw, v = op[3], op[4]
        if s["k"] == "Array" and kw == "items":
            s["items"] = v
        else:
            s["kw"][kw] = v
        setattr(live, kw, live_value(kw, v))
    elif kind == "unset":
        kw = op[3]
        del s["kw"][kw]
        if kw == "description" and s["k"] == "Obj":
            s["doc"] = None        # the class statement's docstring is what an unset description would otherwise fall back to
        setattr(live, kw, unset_live(kw))
    elif kind == "set_props":
        new = op[3]
        if s["k"] == "Obj":
            s["props"] = new
        else:
            s["kw"]["properties"] = new
        live.properties = {a: live_prop(p) for a, p in new.items()}
    elif kind == "set_prop":
        a, p = op[3], op[4]
        props_holder(s)[a] = p
        live.properties[a] = live_prop(p)
    elif kind == "update_prop":
        a, p, how = op[3], op[4], op[5]
        props_holder(s)[a] = p
        if how == "update":
            live.properties.update({a: live_prop(p)})
        elif how == "ior":
            live.properties |= {a: live_prop(p)}
        else:
            live.properties.setdefault(a, live_prop(p))
    elif kind == "move_prop":
        a, b = op[3], op[4]
        holder = props_holder(s)
        spec = holder.pop(a)
        moved = live.properties.pop(a)
        # a property that was bound under `a` keeps `a` as its JSON name; one that was put in with update() / setdefault() and has not
        # been reached by a call yet has no JSON name so far and takes the new key's
        was_bound = getattr(moved, "source", None) is not None
        holder[b] = dict(spec, source=spec["source"] if spec.get("source") is not None else (a if was_bound else None))
        live.properties[b] = moved
    elif kind == "del_prop":
        a = op[3]
        del props_holder(s)[a]
        del live.properties[a]


def describe(op):
    return [op[0], op[1]["k"] + ":" + op[1].get("name", "")] + [x if not isinstance(x, dict) else "<spec>" for x in op[3:]]


HIST_TEMPLATES = [
    # (doc, script) — script items: ("call", value) or ("op", path-less op builder)
    ({"classes": {}, "order": [], "root": {"k": "String", "kw": {"minLength": 2}}},
     [("call", "abcdef"), ("set", "maxLength", 3), ("call", "abcdef"), ("call", "abc"), ("unset", "minLength"), ("call", "a"), ("set", "pattern", "^a"), ("call", "b")]),
    ({"classes": {}, "order": [], "root": {"k": "Element", "kw": {"properties": {"a": {"e": {"k": "Element", "kw": {}}, "required": False, "source": None}},
                                                                   "patternProperties": {"^a": {"k": "Integer", "kw": {}}}}}},
     [("call", {"a": "x"}), ("call", {"a": 1}), ("set", "patternProperties", {"^a": {"k": "String", "kw": {}}}), ("call", {"a": "x"}), ("call", {"a": 1}),
      ("unset", "patternProperties"), ("call", {"a": None}), ("call", {"a": "x"})]),
    ({"classes": {"Foo": {"k": "Obj", "name": "Foo", "base": None, "doc": None, "kw": {"patternProperties": {"^n": {"k": "Integer", "kw": {"minimum": 3}}}},
                          "props": {"name": {"e": {"k": "Integer", "kw": {}}, "required": True, "source": None}}}},
      "order": ["Foo"], "root": {"k": "Ref", "name": "Foo"}},
     [("call", {"name": 1}), ("call", {"name": 5}), ("unset", "patternProperties"), ("call", {"name": 1}), ("set", "minProperties", 2), ("call", {"name": 1}),
      ("set", "additionalProperties", False), ("call", {"name": 1, "x": 2}), ("call", {"name": 1, "x": 2, "y": 3})]),
    ({"classes": {}, "order": [], "root": {"k": "Array", "items": {"k": "Integer", "kw": {}}, "kw": {}}},
     [("call", [1, 2]), ("set", "maxItems", 1), ("call", [1, 2]), ("set", "items", {"k": "String", "kw": {}}), ("call", ["a"]), ("call", [1]),
      ("set", "uniqueItems", True), ("unset", "maxItems"), ("call", ["a", "a"])]),
]


def run(tier, seed, replay=None):
    res = Result("C13", tier, seed)
    rng = rng_for(seed, "C13")
    stats = {"histories": 0, "ops": {}, "calls": 0, "agree_ok": 0, "agree_rej": 0, "wb_checks": 0}
    wb_cases, wb_meta = [], []

    def check_call(doc, root, v, trace):
        fresh, _ = dslgen.build(doc)
        a = call(root, copy.deepcopy(v))[:2]
        b = call(fresh, copy.deepcopy(v))[:2]
        stats["calls"] += 1
        stats["agree_ok" if a[0] == "ok" else "agree_rej"] += 1
        why = None
        if a != b:
            why = "live element answers %r, a freshly constructed element with the same configuration answers %r" % (a[0], b[0]) if a[0] != b[0] \
                else "live element and fresh element accept but build different results"
        elif not has_unbound(root) and ((root == fresh) is not True or (fresh == root) is not True):
            why = "the reconfigured live element does not equal a freshly constructed element with the same configuration"
        if why:
            diff = None
            try:
                from canon import canon_elem
                from props.c06 import first_diff
                diff = first_diff(canon_elem(root), canon_elem(fresh))
            except BaseException as exc:  # noqa
                diff = "n/a (%s)" % type(exc).__name__
            res.violation({"property": "C13", "kind": "oracle", "doc_now": doc, "value": v, "trace": trace, "what": why, "first_difference": diff})
        return why is None

    def record_wb(root, classes, doc):
        cells = treedump.property_cells([root] + list(classes.values()))
        if any(nm is None for _, _, nm, _, _ in cells):
            # entries put in through dict.update / setdefault / |= bypass _PropertyDict.__setitem__ and are bound by the next call that
            # reaches them: such a state is outside the premise of C13_current (well-bound cells after every reconfiguration); the
            # live-vs-fresh oracle alone decides these histories
            stats["wb_skipped_unbound_cells"] = stats.get("wb_skipped_unbound_cells", 0) + 1
            return
        if cells:
            stats["wb_checks"] += 1
            wb_cases.append(cq_list(["(%s, %s, (mkCell %s %s %s))" % (
                cq_str(k), cq_nat(owner), cq_option(None if nm is None else cq_str(nm)),
                cq_option(None if src is None else cq_str(src)), cq_option(None if par is None else cq_nat(par)))
                for k, owner, nm, src, par in cells if owner < 5000 and (par is None or par < 5000)]))
            wb_meta.append(copy.deepcopy(doc))

    # ---- scripted histories ---------------------------------------------------------------------
    for doc0, script in HIST_TEMPLATES:
        doc = copy.deepcopy(doc0)
        objs = {}
        root, classes = dslgen.build(doc, objs)
        target = doc["classes"][doc["root"]["name"]] if doc["root"]["k"] == "Ref" else doc["root"]
        live = objs[id(target)]
        trace = []
        stats["histories"] += 1
        for step in script:
            if step[0] == "call":
                trace.append(["call", step[1]])
                if not check_call(doc, root, step[1], trace):
                    break
            else:
                op = (step[0], target, live) + tuple(step[1:])
                trace.append(describe(op))
                apply_op(op)
                stats["ops"][step[0]] = stats["ops"].get(step[0], 0) + 1
                record_wb(root, classes, doc)
        res.count("script:" + json.dumps(doc0, sort_keys=True), nontrivial=True)
    # ---- random histories -----------------------------------------------------------------------
    for _ in range(0 if replay else (120 if tier == "quick" else 2000)):
        doc = dslgen.gen_doc(rng, dslgen.Cfg(max_depth=rng.choice([1, 2, 3]), inheritance=False))
        objs = {}
        root, classes = dslgen.build(doc, objs)
        trace = []
        stats["histories"] += 1
        ok = True
        n_steps = rng.randint(3, 12 if tier == "quick" else 30)
        for _ in range(n_steps):
            if rng.random() < 0.5:
                v = rng.choice(dslgen.gen_values(rng, doc, 2) + [rng.choice(CORPUS_VALUES)])
                trace.append(["call", v])
                if not check_call(doc, root, v, trace):
                    ok = False
                    break
            else:
                op = random_op(rng, doc, objs)
                if op is None:
                    continue
                trace.append(describe(op))
                try:
                    apply_op(op)
                except BaseException as exc:  # noqa  (the DSL may refuse a configuration, e.g. a reserved attribute name)
                    trace[-1].append("refused:" + type(exc).__name__)
                    ok = False
                    break
                stats["ops"][op[0]] = stats["ops"].get(op[0], 0) + 1
                record_wb(root, classes, doc)
        res.count(json.dumps(trace, sort_keys=True, default=repr), nontrivial=any(t[0] != "call" for t in trace) and any(t[0] == "call" for t in trace))
        res.sample({"trace": trace[:6]}, limit=3)
    codes, err = sc.eval_codes(["Store", "RunStore"], "run_wb_case", wb_cases, tag="c13w", shard=300)
    res.corr_error = err
    res.corr_mismatches = [{"doc_now": wb_meta[i], "codes": cs,
                            "what": "after a reconfiguration a property cell is not well-bound (1) or a call's re-bind would change it (2): premise of C13_current"}
                           for i, cs in sorted((codes or {}).items())]
    res.coverage["distribution"] = stats
    res.coverage["traces_validated_against_impl"] = len(wb_cases)
    res.coverage["rule"] = ("histories (4 scripted templates + seeded random, <=12 steps quick / <=30 thorough) interleaving calls with keyword "
                            "reassignment (set/unset, every keyword of the class signature), properties assignment, property add/replace/remove, on "
                            "elements and model classes of dslgen trees; after every call the live element is compared (verdict, result, ==) with an "
                            "element freshly built from the configuration the history has reached; after every reconfiguration the property cells "
                            "are checked well-bound in Coq.  non-trivial = history with at least one reconfiguration and one call")
    return res
