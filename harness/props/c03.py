"""C03 — JSON Schema serialization preserves the meaning of any element tree."""
import copy
import json
import os
import subprocess
import warnings

import common
import dslgen
import gen
import schemacase as sc
from canon import cq_elem, Unmodelled
from common import Result, rng_for
from coqemit import cq_json, cq_str, cq_list, cq_bool
from props.c05 import quiet_call
from props.c18 import walk

VT_SCRIPT = r'''
import json, sys
import jsonschema
from jsonschema import Draft6Validator
docs = json.load(open(sys.argv[1]))
out = []
def strip(j):
    if isinstance(j, dict):
        return {k: strip(v) for k, v in j.items() if not (k == "items" and v == [])}
    if isinstance(j, list):
        return [strip(v) for v in j]
    return j
for d in docs:
    try:
        Draft6Validator.check_schema(d)
        out.append(None)
    except Exception as exc:
        try:
            Draft6Validator.check_schema(strip(d))
            out.append("EMPTY-ITEMS-ONLY " + str(exc)[:300])
        except Exception as exc2:
            out.append(str(exc2)[:300])
json.dump(out, open(sys.argv[2], "w"))
'''


def refs_of(j, acc=None):
    acc = [] if acc is None else acc
    if isinstance(j, dict):
        for k, v in j.items():
            if k == "$ref" and isinstance(v, str):
                acc.append(v)
            else:
                refs_of(v, acc)
    elif isinstance(j, list):
        for v in j:
            refs_of(v, acc)
    return acc


def resolve(doc):
    """inline every #/definitions/X reference (documents statham emits are acyclic); None if a ref dangles/cycles"""
    defs = doc.get("definitions", {}) if isinstance(doc, dict) else {}

    def go(j, stack):
        if isinstance(j, dict):
            if set(j) == {"$ref"} and isinstance(j["$ref"], str):
                name = j["$ref"].split("/")[-1]
                if not j["$ref"].startswith("#/definitions/") or name not in defs or name in stack:
                    raise KeyError(j["$ref"])
                return go(defs[name], stack + (name,))
            return {k: go(v, stack) for k, v in j.items() if k != "definitions" or stack}
        if isinstance(j, list):
            return [go(v, stack) for v in j]
        return j
    try:
        return go(doc, ())
    except KeyError:
        return None


def distinct_classes(*elems):
    from statham.serializers.orderer import get_object_classes
    out = []
    for c in get_object_classes(*elems):
        if not any(c is d for d in out):
            out.append(c)
    return out


def homonyms(doc):
    """finding predicate K25: the tree has two distinct, unequal object classes with the same __name__"""
    try:
        _, classes = dslgen.build(doc)
    except BaseException:  # noqa
        return False
    cs = list(classes.values())
    return any(a is not b and a.__name__ == b.__name__ and (a == b) is not True for i, a in enumerate(cs) for b in cs[i + 1:])


TEMPLATES = [
    # renamed property + required; explicit required list next to properties; inherited class; shared class
    {"classes": {"Base": {"k": "Obj", "name": "Base", "base": None, "doc": None, "kw": {"required": ["extra"]},
                          "props": {"class_": {"e": {"k": "String", "kw": {}}, "required": True, "source": "class"},
                                    "n": {"e": {"k": "Integer", "kw": {"default": 1}}, "required": True, "source": None}}},
                 "Child": {"k": "Obj", "name": "Child", "base": "Base", "doc": None, "kw": {"additionalProperties": False},
                           "props": {"p_1": {"e": {"k": "Ref", "name": "Base"}, "required": False, "source": "p 1"}}}},
     "order": ["Base", "Child"], "root": {"k": "Array", "items": [{"k": "Ref", "name": "Child"}, {"k": "Ref", "name": "Base"}],
                                            "kw": {"additionalItems": {"k": "Ref", "name": "Base"}}}},
    {"classes": {}, "order": [], "root": {"k": "Element", "kw": {"required": ["x", "class"], "properties": {
        "class_": {"e": {"k": "String", "kw": {}}, "required": False, "source": "class"},
        "y": {"e": {"k": "Integer", "kw": {}}, "required": True, "source": None}}, "additionalProperties": False}}},
    {"classes": {}, "order": [], "root": {"k": "Element", "kw": {"required": ["x"], "properties": {}}}},
]
TEMPLATES.append(
    # structurally identical classes under different names, both referenced
    {"classes": {"Billing": {"k": "Obj", "name": "Billing", "base": None, "doc": None, "kw": {}, "props": {
        "street": {"e": {"k": "String", "kw": {}}, "required": True, "source": None}}},
        "Shipping": {"k": "Obj", "name": "Shipping", "base": None, "doc": None, "kw": {}, "props": {
            "street": {"e": {"k": "String", "kw": {}}, "required": True, "source": None}}}},
     "order": ["Billing", "Shipping"], "root": {"k": "Element", "kw": {"properties": {
         "a": {"e": {"k": "Ref", "name": "Billing"}, "required": False, "source": None},
         "b": {"e": {"k": "Ref", "name": "Shipping"}, "required": False, "source": None}}}}})
TEMPLATES.append(
    # recorded finding K25: two DISTINCT classes with the same __name__ (constructible in the DSL) share one definitions entry
    {"classes": {"Foo": {"k": "Obj", "name": "Foo", "base": None, "doc": None, "kw": {}, "props": {
        "a": {"e": {"k": "String", "kw": {}}, "required": False, "source": None}}},
        "Foo2": {"k": "Obj", "name": "Foo2", "pyname": "Foo", "base": None, "doc": None, "kw": {}, "props": {
            "a": {"e": {"k": "Integer", "kw": {}}, "required": False, "source": None}}}},
     "order": ["Foo", "Foo2"], "root": {"k": "Array", "items": [{"k": "Ref", "name": "Foo"}, {"k": "Ref", "name": "Foo2"}], "kw": {"additionalItems": False}}})
TEMPLATES.append(
    # classes reachable ONLY through a keyword that is inert in its context (additionalItems next to single / absent items),
    # through contains, propertyNames, dependencies and a Not: each needs its definitions entry
    {"classes": {"Extra": {"k": "Obj", "name": "Extra", "base": None, "doc": None, "kw": {}, "props": {
        "e": {"e": {"k": "Integer", "kw": {}}, "required": True, "source": None}}},
        "Dep": {"k": "Obj", "name": "Dep", "base": None, "doc": None, "kw": {}, "props": {
            "d": {"e": {"k": "String", "kw": {}}, "required": False, "source": None}}},
        "Cont": {"k": "Obj", "name": "Cont", "base": None, "doc": None, "kw": {"minProperties": 1}, "props": {}}},
     "order": ["Extra", "Dep", "Cont"],
     "root": {"k": "Element", "kw": {"properties": {
         "l": {"e": {"k": "Array", "items": {"k": "String", "kw": {}}, "kw": {"additionalItems": {"k": "Ref", "name": "Extra"}}}, "required": False, "source": None},
         "m": {"e": {"k": "Element", "kw": {"additionalItems": {"k": "Ref", "name": "Extra"}, "contains": {"k": "Ref", "name": "Cont"}}}, "required": False, "source": None},
         "n": {"e": {"k": "Not", "element": {"k": "Ref", "name": "Dep"}}, "required": False, "source": None}},
         "dependencies": {"l": {"k": "Ref", "name": "Dep"}}}}})
TEMPLATES.append(
    # caller definitions that LOOK like elements of the tree but are not == to them (false/0, true/1, 1/1.0 inside enum / const / default):
    # nothing may be replaced by a reference to them
    {"classes": {"Settings": {"k": "Obj", "name": "Settings", "base": None, "doc": None, "kw": {}, "props": {
        "enabled": {"e": {"k": "Element", "kw": {"enum": [False, True]}}, "required": False, "source": None},
        "flag": {"e": {"k": "Element", "kw": {"const": True}}, "required": False, "source": None},
        "bits": {"e": {"k": "Array", "items": {"k": "Element", "kw": {"const": 0}}, "kw": {}}, "required": False, "source": None},
        "same": {"e": {"k": "Element", "kw": {"enum": [0, 1]}}, "required": False, "source": None}}}},
     "order": ["Settings"], "root": {"k": "Ref", "name": "Settings"},
     "defs": {"bit": {"k": "Element", "kw": {"enum": [0, 1]}}, "one": {"k": "Element", "kw": {"const": 1}}, "no": {"k": "Element", "kw": {"const": False}}}})
TEMPLATES.append(
    # a property whose explicit JSON name is the empty string (falsy): the tree and the document must name the same member
    {"classes": {"Blank": {"k": "Obj", "name": "Blank", "base": None, "doc": None, "kw": {}, "props": {
        "blank": {"e": {"k": "String", "kw": {}}, "required": False, "source": ""}}}},
     "order": ["Blank"], "root": {"k": "Array", "items": [{"k": "Ref", "name": "Blank"},
                                                          {"k": "Element", "kw": {"properties": {"blank": {"e": {"k": "Integer", "kw": {}}, "required": True, "source": ""}}}}], "kw": {}}})
TEMPLATE_VALUES = [{"enabled": True}, {"enabled": 1}, {"flag": True}, {"flag": 1}, {"bits": [0]}, {"bits": [False]}, {"same": 1}, {"same": True},
                   [{"": 5}], [{"blank": 5}], [{"blank": "s"}, {"blank": 1}], [{}, {"": 1}], [{}, {}],
                   {"l": ["a"], "m": [{"z": 1}], "n": 1}, {"l": ["a"], "d": 3}, {"m": [{}]}, {"n": {"d": "s"}},
                   [{"a": "x"}, {"a": 1}], [{"a": 1}, {"a": 1}], [{"class": "c", "n": 1, "extra": 0}], [{"class": "c", "extra": 0, "p 1": {"class": "d", "extra": 1}}, {"class": "c", "extra": 1}, {"class": "e", "extra": 2}],
                   [{"class_": "c", "extra": 0}], {"x": 1, "class": "c", "y": 2}, {"class": "c", "y": 2}, {"x": 1, "y": 2}, {"x": 1, "class_": "c", "y": 2},
                   {"x": 1}, {}, [{"class": "c", "extra": 0, "zzz": 1}]]


def run(tier, seed, replay=None):
    from statham.serializers import serialize_json
    from statham.schema.elements.meta import ObjectMeta
    res = Result("C03", tier, seed)
    rng = rng_for(seed, "C03")
    stats = {"documents": 0, "with_definitions_arg": 0, "multi_root": 0, "refs": 0, "values": 0, "accepted": 0, "rejected": 0, "k15": 0,
             "metaschema_checked": 0, "unresolvable": 0}
    # the templates run twice: first bare (no caller definitions, one root), then with the random extras below
    docs = [json.load(open(replay))["doc"]] if replay else list(TEMPLATES) + list(TEMPLATES)
    if not replay:
        for _ in range(140 if tier == "quick" else 2500):
            d = dslgen.gen_doc(rng, dslgen.Cfg(max_depth=rng.choice([2, 3]), explicit_required=0.4))
            if d["order"] and rng.random() < 0.3:        # a twin: same shape, another name, referenced next to the original
                src = rng.choice(d["order"])
                twin = copy.deepcopy(d["classes"][src])
                twin["name"] = src + "Twin"
                d["classes"][src + "Twin"] = twin
                d["order"].append(src + "Twin")
                d["root"] = {"k": "Array", "items": [d["root"], {"k": "Ref", "name": src}, {"k": "Ref", "name": src + "Twin"}], "kw": {}}
            elif d["order"] and rng.random() < 0.1:       # a homonym: another, different class with the same __name__ (finding K25)
                src = rng.choice(d["order"])
                other = copy.deepcopy(d["classes"][src])
                other["name"], other["pyname"] = src + "H", src
                other["kw"] = dict(other["kw"], minProperties=1 + int(other["kw"].get("minProperties", 0) or 0))
                d["classes"][src + "H"] = other
                d["order"].append(src + "H")
                d["root"] = {"k": "Array", "items": [d["root"], {"k": "Ref", "name": src + "H"}, {"k": "Ref", "name": src}], "kw": {}}
                stats["homonym_docs"] = stats.get("homonym_docs", 0) + 1
            docs.append(d)
    ser_cases, ser_meta, doc_cases, doc_meta, all_docs = [], [], [], [], []
    for di, doc in enumerate(docs):
        try:
            root, classes = dslgen.build(doc)
        except BaseException:  # noqa
            continue
        payload = {"property": "C03", "doc": doc, "replay": "./check C03 --replay <this file>"}
        res.count(json.dumps(doc, sort_keys=True, default=repr), nontrivial=bool(classes) or "properties" in json.dumps(doc))
        # caller-supplied definitions: some sub-elements of the tree, referenced everywhere else
        elems, _ = walk(root)
        defs = None
        bare = not replay and di < len(TEMPLATES)
        if doc.get("defs"):
            defs = {k: dslgen.build({"classes": {}, "order": [], "root": s})[0] for k, s in doc["defs"].items()}
            stats["with_definitions_arg"] += 1
        if defs is None and not replay and not bare and rng.random() < 0.3 and len(elems) > 1:
            picks = [e for e in rng.sample(elems[1:], min(2, len(elems) - 1)) if not isinstance(e, ObjectMeta)]
            if picks:
                defs = {"def%d" % i: e for i, e in enumerate(picks)}
                stats["with_definitions_arg"] += 1
        roots = [root]
        if not replay and not bare and classes and rng.random() < 0.25:
            roots.append(rng.choice(list(classes.values())))
            stats["multi_root"] += 1
        try:
            with common.time_limit(20):
                J = serialize_json(*roots, definitions=defs) if defs else serialize_json(*roots)
        except BaseException as exc:  # noqa
            res.violation(dict(payload, kind="oracle", what="serialize_json raised %s: %s" % (type(exc).__name__, str(exc)[:120])))
            continue
        stats["documents"] += 1
        # 0. a history of calls on the SAME live tree: each result is what a fresh tree gives for those arguments
        if not replay or True:
            others = [e for e in elems[1:] if not isinstance(e, ObjectMeta)][:2]
            alt = {"alt%d" % i: e for i, e in enumerate(others)}
            hist_bad = None
            for args in ([alt] if alt else []) + [None, defs]:
                try:
                    again = serialize_json(*roots, definitions=args) if args else serialize_json(*roots)
                except BaseException as exc:  # noqa
                    hist_bad = "a later serialize_json call on the same tree raised %s" % type(exc).__name__
                    break
                fresh_root, fresh_classes = dslgen.build(doc)
                f_elems, _ = walk(fresh_root)
                idx = {id(e): i for i, e in enumerate(elems)}
                f_args = {k: (f_elems[idx[id(e)]] if id(e) in idx else
                              dslgen.build({"classes": {}, "order": [], "root": doc["defs"][k]})[0])       # a definition from outside the tree
                          for k, e in args.items()} if args else None
                f_roots = [fresh_root] + [fresh_classes[r.__name__] for r in roots[1:]]
                fresh = serialize_json(*f_roots, definitions=f_args) if f_args else serialize_json(*f_roots)
                if json.dumps(again, sort_keys=True, default=repr) != json.dumps(fresh, sort_keys=True, default=repr):
                    hist_bad = "serializing the same tree again with definitions=%s gives a document that differs from a fresh tree's" % (sorted(args) if args else None)
                    break
            if hist_bad:
                res.violation(dict(payload, kind="oracle", what=hist_bad))
                continue
        # 1. JSON-serialisable
        try:
            text = json.dumps(J)
            J2 = json.loads(text)
        except BaseException as exc:  # noqa
            res.violation(dict(payload, kind="oracle", what="the document is not JSON-serialisable: %s" % exc))
            continue
        # 2. every reference resolves inside the document
        refs = refs_of(J)
        stats["refs"] += len(refs)
        dangling = [r for r in refs if not (r.startswith("#/definitions/") and r.split("/")[-1] in J.get("definitions", {}))]
        if dangling:
            primary_ref = isinstance(roots[0], ObjectMeta) and all(r == "#/definitions/" + roots[0].__name__ for r in dangling)
            if primary_ref:
                stats["k15"] += 1
            res.violation(dict(payload, kind="oracle", document=J, finding="C03-K15" if primary_ref else None,
                               what="reference(s) %r do not resolve inside the document" % dangling[:3]))
            continue
        all_docs.append(J2)
        # 3. same meaning: the element's verdicts vs Draft 6 on the resolved document
        R = resolve(J2)
        if R is None:
            stats["unresolvable"] += 1
            res.violation(dict(payload, kind="oracle", document=J, what="the document's references are cyclic or malformed"))
            continue
        vals = (TEMPLATE_VALUES if di < 2 * len(TEMPLATES) and not replay else []) + dslgen.gen_values(rng, doc, 8)
        # one member removed from the first accepted object-bearing values: aimed at `required` in both of its stored forms
        extra = []
        for v in vals:
            if len(extra) >= 6:
                break
            if isinstance(v, (dict, list)) and quiet_call(root, v)[0] == "ok":
                extra.extend(gen.omissions(v, 4))
        vals = vals + extra[:6]
        stats["omission_values"] = stats.get("omission_values", 0) + len(extra[:6])
        judged = []
        for v in vals:
            tag, _ = quiet_call(root, v)
            if tag in ("ok", "rej", "terr"):
                judged.append((v, tag == "ok"))
                stats["values"] += 1
                stats["accepted" if tag == "ok" else "rejected"] += 1
        if judged and isinstance(R, (dict, bool)):
            ret, strs = sc.regex_table(R, [v for v, _ in judged])
            fmt = sc.format_table(R, strs)
            try:
                # the RAW document goes to Coq: Resolve.resolve_doc inlines the references there (the Python `resolve` above only
                # feeds the regex / format tables and the dangling-reference diagnostic)
                doc_cases.append("((%s : list (str * list str)), (%s : list (str * list str)), %s, (%s : list (json * bool)))" % (
                    cq_list(["(%s, %s)" % (cq_str(p), cq_list([cq_str(s) for s in l])) for p, l in ret.items()]),
                    cq_list(["(%s, %s)" % (cq_str(f), cq_list([cq_str(s) for s in l])) for f, l in fmt.items()]),
                    cq_json(J2), cq_list(["(%s, %s)" % (cq_json(v), cq_bool(b)) for v, b in judged])))
                doc_meta.append((doc, J, judged))
            except (TypeError, AssertionError):
                pass
        # 4. the model serializer on the same tree
        try:
            # the collection as serialize_json iterates it (repeats included: with two classes of one name the LAST occurrence wins)
            from statham.serializers.orderer import get_object_classes
            others = [c for c in get_object_classes(*roots) if c is not roots[0]]
            ser_cases.append("((%s : list (str * elem)), %s, (%s : list elem), %s)" % (
                cq_list(["(%s, %s)" % (cq_str(k), cq_elem(e)) for k, e in (defs or {}).items()]),
                cq_elem(roots[0]), cq_list([cq_elem(c) for c in others]), cq_json(J2)))
            ser_meta.append((doc, J))
        except (Unmodelled, TypeError, AssertionError):
            pass
        res.sample({"root": repr(root)[:120], "document": J if len(text) < 600 else text[:300]}, limit=3)
    # ---- one element OBJECT used at several positions of a tree (nothing cyclic about it): the document is the one the same tree
    #      built from distinct, equal objects gives -------------------------------------------------------------------------------------
    if not replay:
        from statham.schema.elements import String, Integer, Array, Element, Object, AnyOf
        from statham.schema.property import Property

        def shared_trees(share):
            mk = (lambda f, memo={}: memo.setdefault(f, f())) if share else (lambda f: f())     # one object per kind, or a new one each time
            name = lambda: String(minLength=1)           # noqa
            num = lambda: Integer(minimum=0)             # noqa
            person = Object.inline("Person", properties={"first": Property(mk(name), required=True), "last": Property(mk(name), required=True),
                                                         "age": Property(mk(num))})
            return [Array([mk(name), mk(name)]),
                    Element(properties={"a": Property(mk(name)), "b": Property(mk(name))}, additionalProperties=mk(name)),
                    AnyOf(mk(num), Array(mk(num)), Element(items=[mk(num), mk(num)], additionalItems=mk(num))),
                    Array(person), Element(properties={"p": Property(person), "q": Property(person), "n": Property(mk(name))})]
        for i, (shared, distinct) in enumerate(zip(shared_trees(True), shared_trees(False))):
            stats["shared_instance_trees"] = stats.get("shared_instance_trees", 0) + 1
            res.count("shared-instance:%d" % i, nontrivial=True)
            try:
                Js, Jd = serialize_json(shared), serialize_json(distinct)
            except BaseException as exc:  # noqa
                res.violation({"property": "C03", "kind": "oracle", "tree": repr(shared)[:300],
                               "what": "serialize_json raised %s on an acyclic tree in which one element object is used at several positions: %s" % (type(exc).__name__, str(exc)[:120])})
                continue
            if json.dumps(Js, sort_keys=True) != json.dumps(Jd, sort_keys=True):
                res.violation({"property": "C03", "kind": "oracle", "tree": repr(shared)[:300], "document": Js,
                               "what": "a tree in which one element object is used at several positions serializes differently from the same tree built of distinct equal objects"})
    # ---- Draft-6 metaschema validity (jsonschema, tooling interpreter) ------------------------------------------------
    if all_docs:
        d = common.ensure_work()
        with open(os.path.join(d, "vt.py"), "w") as f:
            f.write(VT_SCRIPT)
        json.dump(all_docs, open(os.path.join(d, "docs.json"), "w"))
        env = {k: v for k, v in os.environ.items() if k not in ("PYTHONPATH",)}
        p = subprocess.run([common.PYVT, os.path.join(d, "vt.py"), os.path.join(d, "docs.json"), os.path.join(d, "out.json")],
                           capture_output=True, text=True, env=env, timeout=600)
        if p.returncode == 0:
            outs = json.load(open(os.path.join(d, "out.json")))
            stats["metaschema_checked"] = len(outs)
            for J, o in zip(all_docs, outs):
                if o is not None:
                    res.violation({"property": "C03", "kind": "oracle", "document": J,
                                   "finding": "C03-K21" if o.startswith("EMPTY-ITEMS-ONLY") else None,
                                   "what": "the document is not a valid Draft-6 schema: %s" % o})
        else:
            res.notes.append("metaschema check skipped: %s" % p.stderr[-300:])
    codes, err = sc.eval_codes(["Elem", "Validate", "SerJson", "RunSer"], "run_doc_case_raw", doc_cases, tag="c03d", shard=60)
    for i, cs in sorted((codes or {}).items()):
        d0, J, judged = doc_meta[i]
        if 11 in cs:
            res.violation({"property": "C03", "kind": "oracle-in-coq", "doc": d0, "document": J,
                           "what": "Resolve.resolve_doc cannot resolve the document's references (dangling or cyclic)"})
            continue
        res.violation({"property": "C03", "kind": "oracle-in-coq", "doc": d0, "document": J, "values": judged, "finding": "C03-K25" if homonyms(d0) else None,
                       "what": "the serialized document, read as Draft 6 (Spec6.v, documented deviations), does not accept exactly what the element accepts"})
    codes2, err2 = sc.eval_codes(["Elem", "Validate", "SerJson", "RunSer", "DefsFrag", "RunSerCls"], "run_ser_case_c03", ser_cases, tag="c03s", shard=60)
    res.corr_error = err or err2
    # code 9 = the tree lies in the fragment of the meaning theorem C03_meaning (SerFrag.dslb, proved sound): there the
    # model document means what the model element means by theorem, so the implementation is tied by correspondence alone
    # code 10 = the tree has object classes and satisfies the premises of C03_meaning_classes (ClsFrag.cdslb / defs_okb, proved sound):
    # the document, with its references resolved in Coq, means what the tree means by theorem
    # code 12 = serialized WITH caller-supplied definitions and the premise of C03_meaning_definitions holds (DefsFrag.cd_okb, proved sound)
    stats["theorem_applies"] = {"trees": sum(1 for cs in (codes2 or {}).values() if 9 in cs or 10 in cs or 12 in cs),
                                "reference_free": sum(1 for cs in (codes2 or {}).values() if 9 in cs),
                                "with_classes": sum(1 for cs in (codes2 or {}).values() if 10 in cs and 9 not in cs),
                                "with_caller_definitions": sum(1 for cs in (codes2 or {}).values() if 12 in cs), "of": len(ser_cases)}
    res.corr_mismatches = [{"doc": ser_meta[i][0], "impl_document": ser_meta[i][1], "what": "SerJson.ser_doc differs from serialize_json's output"}
                           for i in sorted(codes2 or {}) if 1 in codes2[i]]
    res.witness_status = {"C03-K15": "fails" if stats["k15"] else "not-exercised"}
    res.coverage["distribution"] = stats
    res.coverage["traces_validated_against_impl"] = len(ser_cases) + len(doc_cases)
    res.coverage["rule"] = ("DSL trees (templates: renamed + required properties, explicit required next to properties, inheritance, shared classes; "
                            "dslgen with 40% explicit required) serialized alone, with caller definitions (30%) or a second root (25%): "
                            "json.dumps, every $ref resolves, Draft-6 metaschema (jsonschema), and for values aimed at the tree the element's verdict "
                            "vs Spec6.v's reading of the resolved document evaluated in Coq; the document itself is recomputed by SerJson.v.  "
                            "non-trivial = tree with classes or properties")
    return res
