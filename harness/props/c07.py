"""C07 — defaults and object descriptions in a schema survive parsing and serialization."""
import ast
import copy
import json
import os

import common
import gen
import schemacase as sc
from canon import Unmodelled
from common import Result, rng_for
from props.c17 import strict_eq
from props.c18 import walk

DEFAULTS = [False, True, 0, 1, -1, 0.0, 1.5, "", "a", [], [0], [False, None], {}, {"a": 0}, {"": []}, None, "0", [[]], {"a": {"b": None}}, 2 ** 70,
            [{}], [{"name": "x"}], {"rows": [{"id": 0}]}, [[{"deep": None}]]]
DESCRIPTIONS = ["A thing.", "", "two\nlines", "tab\there", "unicode é 日本", "trailing space ", " leading", "percent %s {x}",
                'say "hi"', 'ends with quote"', 'triple """ inside', "back\\slash", "\\n literal", "  indented\n    more"]


def shapes(rng, d):
    """schemas of every shape carrying default d at the top: (label, schema, path to the element that must carry it)"""
    sub = rng.choice([{"type": "string"}, {"minimum": 1}, {"type": "object", "title": "Inner", "properties": {"x": {"type": "integer"}}}, {}])
    sub2 = rng.choice([{"type": "integer"}, {"maxLength": 3}, {"type": "null"}])
    out = [
        ("untyped", {"default": d}),
        ("untyped+kw", {"minLength": 1, "default": d}),
        ("string", {"type": "string", "default": d}),
        ("integer", {"type": "integer", "default": d}),
        ("number", {"type": "number", "default": d}),
        ("boolean", {"type": "boolean", "default": d}),
        ("null", {"type": "null", "default": d}),
        ("array", {"type": "array", "items": {"type": "string"}, "default": d}),
        ("array-no-items", {"type": "array", "default": d}),
        ("object", {"type": "object", "title": "Obj", "properties": {"p": {"type": "string"}}, "default": d}),
        ("type-list-1", {"type": ["string"], "default": d}),
        ("type-list-1-object", {"type": ["object"], "title": "Obj", "default": d}),
        ("type-list-2", {"type": ["string", "integer"], "default": d}),
        ("type-list-3-object", {"type": ["object", "null", "array"], "title": "Obj", "default": d}),
        ("anyOf", {"anyOf": [sub, sub2], "default": d}),
        ("oneOf", {"oneOf": [sub, sub2], "default": d}),
        ("allOf", {"allOf": [sub, sub2], "default": d}),
        ("not", {"not": sub, "default": d}),
        ("anyOf-1", {"anyOf": [sub2], "default": d}),
        ("allOf-1-object", {"allOf": [{"type": "object", "title": "Inner", "properties": {"x": {"type": "integer"}}}], "default": d}),
        ("typed+anyOf", {"type": "string", "anyOf": [{"minLength": 1}, {"maxLength": 5}], "default": d}),
        ("object+allOf", {"type": "object", "title": "Obj", "allOf": [{"minProperties": 0}], "default": d}),
        ("all-comp", {"anyOf": [sub], "oneOf": [sub2], "allOf": [{}], "not": {"const": "zz"}, "default": d}),
    ]
    # the sub-schema of a composition declares a default of its own: the outer one is the composition's, not the member's
    d2 = rng.choice([x for x in DEFAULTS + ["inner"] if not strict_eq(x, d)])
    inner = dict(copy.deepcopy(sub2), default=d2)
    out += [
        ("anyOf-1-inner-default", {"anyOf": [copy.deepcopy(inner)], "default": d}),
        ("oneOf-1-inner-default", {"oneOf": [copy.deepcopy(inner)], "default": d}),
        ("allOf-1-inner-default", {"allOf": [copy.deepcopy(inner)], "default": d}),
        ("allOf-trivial+inner-default", {"allOf": [{}, copy.deepcopy(inner)], "anyOf": [{}], "default": d}),
        ("anyOf-2-inner-default", {"anyOf": [copy.deepcopy(inner), copy.deepcopy(sub)], "default": d}),
    ]
    return [(label, s, copy.deepcopy(sub2)) for label, s in out]


LOOKALIKE = {False: 0, True: 1, 0: False, 1: True}


def wrap(rng, s, twin=None):
    """put schema s in a random position of an outer schema, next to unrelated schemas that are
    identical to a sub-schema of s (twin) or differ from s only by a look-alike default;
    returns (outer, accessor path)"""
    twin = twin if twin is not None else {"type": "string"}
    k = rng.choice(["root", "property", "property", "property-renamed", "items", "tuple", "additionalProperties", "anyOf-member", "definitions"])
    if k == "root":
        return s, ("root",)
    if k == "property":
        d = s.get("default")
        q = copy.deepcopy(twin)
        if isinstance(d, (bool, int)) and d in LOOKALIKE and rng.random() < 0.6:
            q = copy.deepcopy(s)
            q["default"] = LOOKALIKE[d] if not isinstance(d, bool) else int(d)
        return {"type": "object", "title": "Outer", "properties": {"q0": copy.deepcopy(twin), "p": s, "q": q}}, ("prop", "p")
    if k == "property-renamed":
        return {"type": "object", "title": "Outer", "properties": {"class": s, "q": copy.deepcopy(twin)}}, ("prop", "class_")
    if k == "items":
        return {"type": "array", "items": s}, ("items",)
    if k == "tuple":
        return {"items": [{"type": "string"}, s]}, ("tuple", 1)
    if k == "additionalProperties":
        return {"additionalProperties": s, "properties": {"q": {"type": "string"}}}, ("addl",)
    if k == "anyOf-member":
        return {"anyOf": [{"type": "string"}, s]}, ("member", 1)
    return {"type": "object", "title": "Outer", "definitions": {"d": s}}, ("def", 0)


def locate(elems, e, path):
    if path[0] == "root":
        return e
    if path[0] == "prop":
        return e.properties[path[1]].element
    if path[0] == "items":
        return e.items
    if path[0] == "tuple":
        return e.items[path[1]]
    if path[0] == "addl":
        return e.additionalProperties
    if path[0] == "member":
        return e.elements[path[1]]
    if path[0] == "def":
        return elems[1 + path[1]]
    raise KeyError(path)


def json_at(doc, path, target):
    """the sub-document serialize_json emitted for the located element"""
    def deref(x):
        if isinstance(x, dict) and "$ref" in x:
            return doc["definitions"][x["$ref"].split("/")[-1]]
        return x
    if path[0] == "root":
        return deref(doc)
    if path[0] == "prop":
        ps = doc["properties"]
        return deref(ps.get(path[1], ps.get(path[1].rstrip("_"))))
    if path[0] == "items":
        return deref(doc["items"])
    if path[0] == "tuple":
        return deref(doc["items"][path[1]])
    if path[0] == "addl":
        return deref(doc["additionalProperties"])
    if path[0] == "member":
        return deref(doc["anyOf"][path[1]])
    return None


def has_default(e):
    from statham.schema.constants import NotPassed
    return not isinstance(getattr(e, "default", NotPassed()), NotPassed)


def exec_module(text):
    import warnings
    ns = {}
    with warnings.catch_warnings():
        warnings.simplefilter("ignore")
        exec(compile(text, "<generated>", "exec"), ns)
    return ns


def run(tier, seed, replay=None):
    from statham.schema.parser import parse, parse_element
    from statham.schema.elements.meta import ObjectMeta
    from statham.serializers import serialize_json, serialize_python
    res = Result("C07", tier, seed)
    rng = rng_for(seed, "C07")
    stats = {"cases": 0, "by_shape": {}, "by_position": {}, "falsy_defaults": 0, "json_checked": 0, "python_checked": 0, "descriptions": 0,
             "doc_unsafe": 0, "siblings_checked": 0, "k16": 0}
    todo = []
    if replay:
        p = json.load(open(replay))
        todo = [(p.get("shape", "replay"), p["schema"], tuple(p["path"]), p["default"])] if "path" in p else []
    else:
        n_rounds = 2 if tier == "quick" else 20
        for _ in range(n_rounds):
            for d in DEFAULTS:
                for label, s, twin in shapes(rng, d):
                    outer, path = wrap(rng, copy.deepcopy(s), twin)
                    todo.append((label, outer, path, d))
    corr_items = []
    for label, outer, path, d in todo:
        stats["cases"] += 1
        stats["by_shape"][label] = stats["by_shape"].get(label, 0) + 1
        stats["by_position"][path[0]] = stats["by_position"].get(path[0], 0) + 1
        if not d and d is not None or d is None:
            stats["falsy_defaults"] += 1
        payload = {"property": "C07", "shape": label, "schema": outer, "path": list(path), "default": d, "replay": "./check C07 --replay <this file>"}
        res.count(json.dumps([label, outer], sort_keys=True, default=repr), nontrivial=True)
        try:
            elems = parse(copy.deepcopy(outer))
        except BaseException as exc:  # noqa
            continue
        root = elems[0]
        try:
            target = locate(elems, root, path)
        except BaseException:  # noqa
            continue
        # 1. the parsed element carries exactly that default
        if not has_default(target) or not strict_eq(target.default, d):
            got = getattr(target, "default", None)
            res.violation(dict(payload, kind="oracle", what="parsed element %s carries default %r instead of %r" % (
                repr(target)[:120], got if has_default(target) else "<none>", d)))
            continue
        # 1b. a sibling that differs only by a look-alike default (false/0, true/1) keeps its own
        if path[0] == "prop" and isinstance(outer.get("properties", {}).get("q"), dict) and "default" in outer["properties"]["q"]:
            qd = outer["properties"]["q"]["default"]
            qe = root.properties["q"].element
            if not has_default(qe) or not strict_eq(qe.default, qd):
                res.violation(dict(payload, kind="oracle", what="sibling property declares default %r but its element carries %r" % (
                    qd, getattr(qe, "default", None) if has_default(qe) else "<none>")))
                continue
        # 2. not moved / shared: no other element of the tree shows it unless its own schema declares one
        all_elems, _ = walk(root)
        for x in elems[1:]:
            walk(x, set(id(y) for y in all_elems), all_elems, [])
        declared = json.dumps(outer, default=repr).count('"default"')
        carriers = [x for x in all_elems if has_default(x)]
        stats["siblings_checked"] += len(all_elems)
        if len(carriers) > declared:
            k16 = label in ("anyOf-1", "allOf-1-object")
            res.violation(dict(payload, kind="oracle", finding=None,
                               what="%d elements carry a default although the schema declares %d: the default was copied or shared (%s)" % (
                                   len(carriers), declared, [repr(c)[:60] for c in carriers][:3])))
            continue
        # 3. JSON serialization carries it at the same place
        try:
            doc = serialize_json(*elems)
            sub = json_at(doc, path, target) if path[0] != "def" else serialize_json(target) if not isinstance(target, ObjectMeta) else doc["definitions"][target.__name__]
            stats["json_checked"] += 1
            if not (isinstance(sub, dict) and "default" in sub and strict_eq(sub["default"], d)):
                res.violation(dict(payload, kind="oracle", json=doc, what="serialize_json lost or altered the default %r (got %r)" % (
                    d, sub.get("default", "<none>") if isinstance(sub, dict) else sub)))
                continue
        except (KeyError, IndexError, TypeError):
            pass
        except BaseException as exc:  # noqa
            pass
        # 4. Python serialization carries it: execute the module and compare the rebuilt root
        if isinstance(root, ObjectMeta):
            try:
                text = serialize_python(*elems)
                ns = exec_module(text)
                stats["python_checked"] += 1
                rebuilt = ns[root.__name__]
                t2 = locate([rebuilt], rebuilt, path) if path[0] in ("root", "prop") else None
                if t2 is not None and (not has_default(t2) or not strict_eq(t2.default, d)):
                    res.violation(dict(payload, kind="oracle", module=text[:1500], what="the generated Python source lost or altered the default %r" % (d,)))
            except BaseException as exc:  # noqa   (generation/exec failures are C02's subject)
                pass
        # 5. the same schema OBJECT parsed a second time (what happens to a definition referenced twice, or a document parsed again):
        #    the element found there carries the default again
        try:
            again = copy.deepcopy(outer)
            parse(again)
            elems2 = parse(again)
            t2 = locate(elems2, elems2[0], path)
            stats["second_parse_checked"] = stats.get("second_parse_checked", 0) + 1
            if not has_default(t2) or not strict_eq(t2.default, d):
                res.violation(dict(payload, kind="oracle", what="parsing the same schema object a second time loses or alters the default %r (got %r)" % (
                    d, getattr(t2, "default", None))))
                continue
        except BaseException:  # noqa
            pass
        # 6. through the generator's own front end: every JSON object of the document - those inside literal values included - is
        #    annotated by json_ref_dict.materialize(context_labeller=title_labeller()) before it reaches the parser
        if isinstance(d, (dict, list)) and d:
            try:
                from props.c02 import write_docs, parsed_elements
                dd = write_docs({"main.json": outer}, "c07_%d" % stats["cases"])
                elems3, _ = parsed_elements(os.path.join(dd, "main.json"))
                t3 = locate(elems3, elems3[0], path)
                stats["labelled_checked"] = stats.get("labelled_checked", 0) + 1
                if not has_default(t3) or not strict_eq(t3.default, d):
                    res.violation(dict(payload, kind="oracle", what="after the auto-title annotation step the parsed element carries the default %r, not %r" % (
                        getattr(t3, "default", None), d)))
                    continue
            except BaseException:  # noqa
                pass
        corr_items.append((outer, [], "default"))
        res.sample({"shape": label, "position": path[0], "default": d}, limit=5)
    # ---- objects that share a title and differ ONLY in their description: each class keeps its own ------------------
    from statham.schema.constants import NotPassed as _NP
    for d1, d2 in ([] if replay else [("Where the invoice goes.", "Where the parcel goes."), ("a", ""), ("x", "x ")]):
        addr = lambda desc: dict({"type": "object", "title": "Address", "properties": {"street": {"type": "string"}}},  # noqa
                                 **({"description": desc} if desc is not None else {}))
        s = {"type": "object", "title": "Order", "properties": {"billing": addr(d1), "shipping": addr(d2), "previous": addr(None), "again": addr(d1)}}
        res.count("desc-shared:" + d1 + "|" + d2, nontrivial=True)
        try:
            e = parse_element(copy.deepcopy(s))
            got = {k: e.properties[k].element.description for k in ("billing", "shipping", "previous", "again")}
            want = {"billing": d1, "shipping": d2, "previous": _NP(), "again": d1}
            bad = [k for k in want if not ((isinstance(want[k], _NP) and isinstance(got[k], _NP)) or got[k] == want[k])]
            stats["descriptions"] += 4
            if bad:
                res.violation({"property": "C07", "schema": s, "kind": "oracle",
                               "what": "the class built for %r carries the description %r, its schema says %r" % (bad[0], got[bad[0]], None if isinstance(want[bad[0]], _NP) else want[bad[0]])})
            else:
                doc = serialize_json(e)
                defs = doc.get("definitions", {})
                descs = sorted(str(v.get("description")) for v in defs.values())
                if descs != sorted(str(x) for x in [d1, d2, None]):
                    res.violation({"property": "C07", "schema": s, "kind": "oracle", "json": doc,
                                   "what": "serialize_json carries the descriptions %r for the three distinct Address classes, the schema says %r" % (descs, [d1, d2, None])})
        except BaseException:  # noqa
            pass
    # ---- descriptions of object schemas -> class description -> docstring ---------------------------------------
    for desc in ([] if replay else DESCRIPTIONS + [rng.choice(DESCRIPTIONS) + rng.choice(DESCRIPTIONS) for _ in range(6 if tier == "quick" else 60)]):
        s = {"type": "object", "title": "Described", "description": desc, "properties": {"inner": {"type": "object", "title": "Inner", "description": desc[::-1]}}}
        stats["descriptions"] += 1
        res.count("desc:" + desc, nontrivial=True)
        try:
            e = parse_element(copy.deepcopy(s))
        except BaseException:  # noqa
            continue
        payload = {"property": "C07", "schema": s, "description": desc}
        if e.description != desc:
            res.violation(dict(payload, kind="oracle", what="class description %r differs from the schema's %r" % (e.description, desc)))
            continue
        j = serialize_json(e)
        if j.get("description") != desc:
            res.violation(dict(payload, kind="oracle", what="serialize_json carries description %r" % (j.get("description"),)))
        unsafe = any('"""' in x or x.endswith('"') or "\\" in x for x in (desc, desc[::-1]))
        if unsafe:
            stats["doc_unsafe"] += 1
        try:
            text = serialize_python(e)
            ns = exec_module(text)
            got = ns["Described"].__doc__
            got_desc = ns["Described"].description
        except BaseException as exc:  # noqa
            got, got_desc = "raised " + type(exc).__name__, None
        if desc and (got != desc or got_desc != desc):
            res.violation(dict(payload, kind="oracle", finding="C07-K4" if unsafe else None, docstring=got,
                               what="the generated class's docstring/description %r is not the schema's description %r, character for character" % (got, desc)))
    # ---- model correspondence on the parse trees (defaults are part of the canonical tree) -------------------------
    metas, unmod, err = sc.run_stream(corr_items[:600 if tier == "quick" else 5000], tag="c07") if corr_items else ([], 0, None)
    res.corr_error = err
    res.corr_mismatches = [{"schema": m["schema"], "codes": m["codes"], "what": "Parser.v and the implementation build different trees (defaults included)"}
                           for m in metas if 1 in m["codes"]]
    res.witness_status = {"C07-K4": "fails" if stats["doc_unsafe"] else "not-exercised"}
    res.coverage["distribution"] = stats
    res.coverage["traces_validated_against_impl"] = len(metas)
    res.coverage["rule"] = ("every default in a pool of 20 JSON values (all falsy ones included) x 23 schema shapes (typed, untyped, type lists of 1/2/3, "
                            "each composition keyword alone and combined, object classes, singleton compositions) x a random position (root, property, "
                            "renamed property, items, tuple item, additionalProperties, composition member, definitions); checked on the parsed "
                            "element (type-strict), on every other element of the tree (not copied/shared), in serialize_json and in the executed "
                            "serialize_python module; 14+ descriptions incl. quotes, backslashes and newlines through class description, JSON and "
                            "executed docstring; parse trees also built by Parser.v in Coq.  non-trivial = every case")
    return res
