"""C19 — generated type annotations are sound for every value a model can hold."""
import copy
import json
import typing

import common
import dslgen
import gen
import schemacase as sc
from canon import cq_elem, Unmodelled
from common import Result, rng_for
from coqemit import cq_str, cq_bool
from props.c05 import pattern_matched, quiet_call, is_np, default_of
from props.c18 import walk


class _Marker:
    """List[...] / Union[...] / Maybe[...] read into plain tuples: `typing` caches its generics by the == of their arguments,
    and model classes are == when they are structurally equal, so typing.List[Point] may hold ANOTHER Point class"""
    def __init__(self, tag):
        self.tag = tag

    def __getitem__(self, t):
        return (self.tag,) + (t if isinstance(t, tuple) and self.tag == "Union" else (t,))


ANY = ("Any",)


def read_annotation(text, classes):
    ns = {"Any": ANY, "List": _Marker("List"), "Union": _Marker("Union"), "Maybe": _Marker("Maybe"), "None": None}
    ns.update(classes)
    return eval(text, {"__builtins__": {"str": str, "int": int, "float": float, "bool": bool}}, ns)


def check_type(value, tp, under_maybe=False):
    """does the runtime value belong to the type, as a type checker reads the annotation?"""
    if isinstance(tp, tuple) and tp and tp[0] == "Maybe":
        return is_np(value) or check_type(value, tp[1])
    if is_np(value):
        return False                                 # the not-passed marker only under the optional wrapper
    if tp == ANY:
        return True
    if tp is None or tp is type(None):
        return value is None
    if tp is float:
        return isinstance(value, (int, float))       # an int where a float is announced (PEP 484)
    if tp in (int, str, bool):
        return isinstance(value, tp)
    if isinstance(tp, _Marker):                      # a bare List
        return tp.tag == "List" and isinstance(value, list)
    if isinstance(tp, tuple) and tp[0] == "List":
        return isinstance(value, list) and all(check_type(x, tp[1]) for x in value)
    if isinstance(tp, tuple) and tp[0] == "Union":
        return any(check_type(value, a) for a in tp[1:])
    if isinstance(tp, type):
        return isinstance(value, tp)
    return False


def allof_k9(e):
    """finding predicate: an AllOf whose chosen annotation is not the annotation of its first member (nor Any)"""
    from statham.schema.elements import AllOf
    for x in walk(e)[0]:
        if isinstance(x, AllOf):
            # the documented rule, recomputed here from the members: the first explicitly typed member's annotation, else the
            # first union, else Any.  The finding is that this rule may pick a member other than the first (which builds the
            # value); an AllOf whose annotation does NOT follow the rule is a different defect and is not covered by it.
            anns = [m.annotation for m in x.elements]
            expected = next((a for a in anns if a != "Any" and not a.startswith("Union")), next((a for a in anns if a != "Any"), "Any"))
            if x.annotation == expected and expected not in ("Any", anns[0]):
                return True
    return False


def invalid_default_inside(e):
    for x in walk(e)[0]:
        d = default_of(x)
        if not is_np(d) and quiet_call(x, d)[0] != "ok":
            return True
    return False


TEMPLATES = [
    {"classes": {"Opt": {"k": "Obj", "name": "Opt", "base": None, "doc": None, "kw": {"default": {}}, "props": {
        "v": {"e": {"k": "Integer", "kw": {}}, "required": False, "source": None}}},
        "Holder": {"k": "Obj", "name": "Holder", "base": None, "doc": None, "kw": {}, "props": {
            "options": {"e": {"k": "Ref", "name": "Opt"}, "required": False, "source": None},
            "n": {"e": {"k": "Integer", "kw": {}}, "required": True, "source": None},
            "f": {"e": {"k": "Number", "kw": {}}, "required": False, "source": None},
            "xs": {"e": {"k": "Array", "items": [{"k": "String", "kw": {}}], "kw": {"additionalItems": {"k": "Integer", "kw": {}}}}, "required": False, "source": None},
            "u": {"e": {"k": "AnyOf", "elements": [{"k": "Integer", "kw": {}}, {"k": "String", "kw": {}}]}, "required": False, "source": None},
            "d": {"e": {"k": "String", "kw": {"default": "x"}}, "required": False, "source": None}}}},
     "order": ["Opt", "Holder"], "root": {"k": "Ref", "name": "Holder"}},
]
TEMPLATES += [
    # a subclass adding a required property, used after its parent
    {"classes": {"Animal": {"k": "Obj", "name": "Animal", "base": None, "doc": None, "kw": {}, "props": {
        "name": {"e": {"k": "String", "kw": {}}, "required": True, "source": None}}},
        "Dog": {"k": "Obj", "name": "Dog", "base": "Animal", "doc": None, "kw": {}, "props": {
            "legs": {"e": {"k": "Integer", "kw": {}}, "required": True, "source": None}}}},
     "order": ["Animal", "Dog"], "root": {"k": "Array", "items": {"k": "Ref", "name": "Dog"}, "kw": {}}},
    # empty tuple items: every member is built by additionalItems
    {"classes": {"Point": {"k": "Obj", "name": "Point", "base": None, "doc": None, "kw": {}, "props": {
        "x": {"e": {"k": "Integer", "kw": {}}, "required": False, "source": None}}},
        "Shape": {"k": "Obj", "name": "Shape", "base": None, "doc": None, "kw": {}, "props": {
            "pts": {"e": {"k": "Array", "items": [], "kw": {"additionalItems": {"k": "Ref", "name": "Point"}}}, "required": False, "source": None},
            "ns": {"e": {"k": "Array", "items": [], "kw": {"additionalItems": {"k": "Integer", "kw": {}}}}, "required": False, "source": None},
            "none": {"e": {"k": "Array", "items": {"k": "Nothing"}, "kw": {}}, "required": False, "source": None}}}},
     "order": ["Point", "Shape"], "root": {"k": "Ref", "name": "Shape"}},
]
TEMPLATES += [
    # allOf of two numeric types in both orders (the first member builds the value), defaults declared by MEMBERS of a composition
    # (the composition itself has none: the property may be absent), in properties and under items
    {"classes": {"Gauge": {"k": "Obj", "name": "Gauge", "base": None, "doc": None, "kw": {}, "props": {
        "level": {"e": {"k": "AllOf", "elements": [{"k": "Number", "kw": {}}, {"k": "Integer", "kw": {}}]}, "required": False, "source": None},
        "count": {"e": {"k": "AllOf", "elements": [{"k": "Integer", "kw": {}}, {"k": "Number", "kw": {}}]}, "required": True, "source": None},
        "levels": {"e": {"k": "Array", "items": {"k": "AllOf", "elements": [{"k": "Number", "kw": {}}, {"k": "Integer", "kw": {"minimum": 0}}]}, "kw": {}}, "required": False, "source": None},
        "mode": {"e": {"k": "AllOf", "elements": [{"k": "String", "kw": {"default": "auto"}}, {"k": "Element", "kw": {"enum": ["auto", "manual"]}}]}, "required": False, "source": None},
        "kind": {"e": {"k": "AnyOf", "elements": [{"k": "String", "kw": {"default": "k"}}, {"k": "Null", "kw": {}}]}, "required": False, "source": None},
        "one": {"e": {"k": "OneOf", "elements": [{"k": "Integer", "kw": {"default": 1}}]}, "required": False, "source": None}}}},
     "order": ["Gauge"], "root": {"k": "Ref", "name": "Gauge"}},
]
TEMPLATES += [
    # declared properties whose JSON name is also matched by a patternProperties regex of another type: the DECLARED element builds the value
    {"classes": {"Owner": {"k": "Obj", "name": "Owner", "base": None, "doc": None, "kw": {}, "props": {
        "id": {"e": {"k": "Integer", "kw": {}}, "required": False, "source": None}}},
        "Meter": {"k": "Obj", "name": "Meter", "base": None, "doc": None,
                  "kw": {"patternProperties": {"^c": {"k": "Number", "kw": {}}, "^own": {"k": "Element", "kw": {"minProperties": 1}}}},
                  "props": {"count": {"e": {"k": "Integer", "kw": {}}, "required": False, "source": None},
                            "owner": {"e": {"k": "Ref", "name": "Owner"}, "required": False, "source": None},
                            "owners": {"e": {"k": "Array", "items": {"k": "Ref", "name": "Owner"}, "kw": {}}, "required": False, "source": None}}}},
     "order": ["Owner", "Meter"], "root": {"k": "Ref", "name": "Meter"}},
]
TEMPLATES += [
    {"classes": {"Plan": {"k": "Obj", "name": "Plan", "base": None, "doc": None, "kw": {}, "props": {
        "class_": {"e": {"k": "String", "kw": {"default": "basic"}}, "required": False, "source": "class"},
        "dollar_id": {"e": {"k": "Integer", "kw": {"default": 0}}, "required": True, "source": "$id"},
        "lvl": {"e": {"k": "Element", "kw": {"enum": [1, 2, 3]}}, "required": True, "source": None},
        "bits": {"e": {"k": "Array", "items": {"k": "Element", "kw": {"enum": [0, 1]}}, "kw": {}}, "required": False, "source": None},
        "one": {"e": {"k": "Element", "kw": {"const": 1}}, "required": False, "source": None}}}},
     "order": ["Plan"], "root": {"k": "Ref", "name": "Plan"}},
]
TEMPLATE_VALUES = [{"lvl": 2}, {"lvl": 2.0, "bits": [0, 1.0], "one": 1.0}, {"lvl": 1, "class": "pro", "$id": 4},
                   {"count": 3}, {"count": 3, "owner": {"id": 1}, "owners": [{"id": 2}]}, {"owner": {"id": 1}}, {"c2": 1.5, "count": 0},
                   {"count": 1}, {"count": 2, "level": 3, "levels": [1, 2]}, {"count": 2, "level": 2.5}, {"count": 1, "mode": "manual", "kind": None, "one": 5},
                   {"name": "Rex"}, {"name": "Rex", "legs": 4}, [{"name": "Rex"}], {"pts": [{"x": 1}]}, {"ns": ["one", 2]}, {"ns": [1, 2]}, {"none": [1]}, {"none": []},
                   {"n": 1}, {"n": 3.0}, {"n": 2, "f": 2, "xs": ["a", 1, 2], "u": "s"}, {"n": 1, "xs": ["a", 3.0]}, {"n": 1, "u": 4.0}, {"n": True},
                   {"n": 1, "options": {}}, {"n": 1, "options": {"v": 2}}, {"n": 1, "d": "y", "f": 1.5}]


def run(tier, seed, replay=None):
    from statham.schema.elements.meta import ObjectMeta
    res = Result("C19", tier, seed)
    rng = rng_for(seed, "C19")
    stats = {"docs": 0, "elements_checked": 0, "accepted_values": 0, "classes": 0, "instances": 0, "attributes_checked": 0, "bare_annotations": 0,
             "maybe_annotations": 0, "k9": 0, "k20": 0, "annotation_kinds": {}}
    docs = [json.load(open(replay))["doc"]] if replay else list(TEMPLATES)
    if not replay:
        for _ in range(150 if tier == "quick" else 2500):
            docs.append(dslgen.gen_doc(rng, dslgen.Cfg(max_depth=rng.choice([2, 3]), p_default=0.3)))
    ann_cases, ann_meta, prop_cases, prop_meta, sound_cases, sound_meta = [], [], [], [], [], []
    for di, doc in enumerate(docs):
        try:
            root, classes = dslgen.build(doc)
        except BaseException:  # noqa
            continue
        stats["docs"] += 1
        payload = {"property": "C19", "doc": doc, "replay": "./check C19 --replay <this file>"}
        res.count(json.dumps(doc, sort_keys=True, default=repr), nontrivial=bool(classes))
        elems, props = walk(root)
        for c in classes.values():
            walk(c, set(id(x) for x in elems), elems, props)
        # ---- every element: the value an accepted input is built into has the element's annotation ----
        vals = (TEMPLATE_VALUES if di < len(TEMPLATES) and not replay else []) + dslgen.gen_values(rng, doc, 6)
        # the same values with every integer written as the equal float: rejected at integer positions, or built into a float there
        vals = vals + [f for f in (gen.floatify(v) for v in vals[:10]) if f is not None][:4]
        for e in elems[:12]:
            try:
                text = e.annotation
                tp = read_annotation(text, classes)
            except BaseException as exc:  # noqa
                res.violation(dict(payload, kind="oracle", element=repr(e)[:200], what="annotation %r cannot be read: %s" % (getattr(e, "annotation", "?"), exc)))
                continue
            stats["annotation_kinds"][text.split("[")[0]] = stats["annotation_kinds"].get(text.split("[")[0], 0) + 1
            stats["elements_checked"] += 1
            try:
                ann_cases.append("(%s, %s)" % (cq_elem(e), cq_str(text)))
                ann_meta.append((doc, repr(e)[:200], text))
            except Unmodelled:
                pass
            evals = vals if e is root else [gen.gen_value(rng, {}) for _ in range(2)] + vals[:2]
            for v in evals:
                tag, r = quiet_call(e, v)
                if tag != "ok":
                    continue
                stats["accepted_values"] += 1
                if not check_type(r, tp):
                    fid = None
                    if allof_k9(e):
                        fid, stats["k9"] = "C19-K9", stats["k9"] + 1
                    elif invalid_default_inside(e):
                        fid, stats["k20"] = "C19-K20", stats["k20"] + 1
                    res.violation(dict(payload, kind="oracle", element=repr(e)[:200], value=v, finding=fid,
                                       what="%s accepts %r and builds %r, which is not of the annotated type %s" % (repr(e)[:80], v, r, text)))
            if e is root:
                try:
                    obs, _ = sc.observe_elem(e, vals[:8])
                    sound_cases.append(sc.cq_ecase(doc, e, obs))
                    sound_meta.append(doc)
                except Unmodelled:
                    pass
        # ---- every property of every model class -------------------------------------------------------------
        # on FRESH classes, parents before children and nothing called yet: a subclass first used after its parent was
        fresh_root, classes = dslgen.build(doc)
        for name, cls in classes.items():
            stats["classes"] += 1
            cvals = [gen.gen_value(rng, dslgen.spec_schema(doc, {"k": "Ref", "name": name})) for _ in range(6)] + [v for v in TEMPLATE_VALUES if isinstance(v, dict)]
            cvals = cvals + [f for f in (gen.floatify(v) for v in cvals[:8]) if f is not None][:4]
            insts = []
            for v in cvals:
                tag, r = quiet_call(cls, v)
                if tag == "ok" and isinstance(r, cls):
                    insts.append((v, r))
            stats["instances"] += len(insts)
            for attr, p in cls.properties.items():
                text = p.annotation
                try:
                    tp = read_annotation(text, classes)
                except BaseException as exc:  # noqa
                    res.violation(dict(payload, kind="oracle", what="property annotation %r cannot be read: %s" % (text, exc)))
                    continue
                try:
                    prop_cases.append("(%s, %s, %s)" % (cq_elem(p.element), cq_bool(bool(p.required)), cq_str(text)))
                    prop_meta.append((doc, name, attr, text))
                except Unmodelled:
                    pass
                bare = not text.startswith("Maybe[")
                stats["bare_annotations" if bare else "maybe_annotations"] += 1
                if bare and not (p.required or not is_np(default_of(p.element))):
                    res.violation(dict(payload, kind="oracle", what="property %s.%s is annotated as always present (%s) but is neither required nor defaulted" % (name, attr, text)))
                for v, inst in insts:
                    val = getattr(inst, attr)
                    stats["attributes_checked"] += 1
                    why = None
                    if bare and is_np(val):
                        why = "annotated `%s` (always present) but holds NotPassed" % text
                    elif not check_type(val, tp):
                        why = "annotated `%s` but holds %r" % (text, val)
                    if why:
                        fid = None
                        src = p.source if p.source is not None else attr
                        if src != attr and isinstance(v, dict) and attr in v:
                            fid = "C19-K13"
                        elif is_np(val) and pattern_matched(cls, src):
                            fid, stats["k12"] = "C19-K12", stats.get("k12", 0) + 1
                        elif allof_k9(p.element):
                            fid, stats["k9"] = "C19-K9", stats["k9"] + 1
                        elif invalid_default_inside(p.element):
                            fid, stats["k20"] = "C19-K20", stats["k20"] + 1
                        res.violation(dict(payload, kind="oracle", input=v, finding=fid, what="%s.%s: %s (built from %r)" % (name, attr, why, v)))
        res.sample({"root": repr(root)[:120], "annotation": getattr(root, "annotation", None)}, limit=4)
    codes, err = sc.eval_codes(["Elem", "Validate", "Annot", "RunAnnot"], "run_annot_case", ann_cases, tag="c19a", shard=150)
    codes2, err2 = sc.eval_codes(["Elem", "Validate", "Annot", "RunAnnot"], "run_prop_annot_case", prop_cases, tag="c19p", shard=150)
    codes3, err3 = sc.eval_codes(["Elem", "Validate", "Annot", "RunElem", "RunAnnot"], "run_sound_case", sound_cases, tag="c19s", shard=100)
    res.corr_error = err or err2 or err3
    res.corr_mismatches = [{"doc": ann_meta[i][0], "element": ann_meta[i][1], "impl_annotation": ann_meta[i][2], "what": "Annot.annotation prints a different text"}
                           for i in sorted(codes or {})]
    res.corr_mismatches += [{"doc": prop_meta[i][0], "property": "%s.%s" % prop_meta[i][1:3], "impl_annotation": prop_meta[i][3],
                             "what": "Annot.prop_annotation prints a different text"} for i in sorted(codes2 or {})]
    for i in sorted(codes3 or {}):
        d = sound_meta[i]
        root, _ = dslgen.build(d)
        if not (allof_k9(root) or invalid_default_inside(root)):
            res.corr_mismatches.append({"doc": d, "what": "the model's own constructed value is not of the model's annotation (C19_sound evaluated on this case) outside the recorded findings"})
    res.witness_status = {"C19-K9": "fails" if stats["k9"] else "not-exercised", "C19-K20": "fails" if stats["k20"] else "not-exercised"}
    res.coverage["distribution"] = stats
    res.coverage["traces_validated_against_impl"] = len(ann_cases) + len(prop_cases) + len(sound_cases)
    res.coverage["rule"] = ("dslgen trees (+ a template with class default {}, tuple items, unions, numbers): for every reachable element, accepted "
                            "values vs its annotation read as a type checker reads it (List element types, Union members, NotPassed only under Maybe, int under "
                            "float); for every property of every model class, every instance built from accepted data vs the property annotation, "
                            "and bare annotations vs required/defaulted + presence; annotation texts and the soundness statement are also "
                            "evaluated on Annot.v/Validate.v in Coq.  non-trivial = document with at least one model class")
    return res
