"""C11 — declaration order is a complete topological order; cycles are refused."""
import json
import os
import random

from common import Result, eval_mismatches, rng_for, time_limit, ImplTimeout, load_findings
from coqemit import cq_str, cq_list, cq_option, cq_nat

# the keyword positions a dependency can hide in, with the orderer path that
# should reach them (independent of orderer._get_path; walker below)
POSITIONS = [
    "items", "tuple_items", "additionalItems", "contains", "properties",
    "patternProperties", "additionalProperties", "propertyNames", "dependencies",
    "anyOf", "oneOf", "allOf", "not",
]


def _walk_kids(e):
    """Independent enumeration of (path, child) for one element object."""
    from statham.schema.elements import Element, CompositionElement, Not
    from statham.schema.constants import NotPassed

    out = []

    def elem(x):
        return isinstance(x, Element)

    items = getattr(e, "items", None)
    if elem(items):
        out.append(("items", items))
    elif isinstance(items, list):
        out += [("items", x) for x in items if elem(x)]
    for kw in ("additionalItems", "contains"):
        x = getattr(e, kw, None)
        if elem(x):
            out.append((kw, x))
    props = getattr(e, "properties", None)
    if isinstance(props, dict):
        out += [("properties.*.element", p.element) for p in props.values() if elem(p.element)]
    x = getattr(e, "additionalProperties", None)
    if elem(x):
        out.append(("additionalProperties", x))
    pp = getattr(e, "patternProperties", None)
    if isinstance(pp, dict):
        out += [("patternProperties.*", x) for x in pp.values() if elem(x)]
    x = getattr(e, "propertyNames", None)
    if elem(x):
        out.append(("propertyNames", x))
    deps = getattr(e, "dependencies", None)
    if isinstance(deps, dict):
        out += [("dependencies.*", x) for x in deps.values() if elem(x)]
    if isinstance(e, CompositionElement):
        out += [("elements", x) for x in e.elements if elem(x)]
    if isinstance(e, Not):
        if elem(e.element):
            out.append(("element", e.element))
    return out


def graph_of(roots):
    """Identity graph of every element object reachable from roots."""
    from statham.schema.elements.meta import ObjectMeta

    ids, nodes, order = {}, [], []

    def visit(e):
        if id(e) in ids:
            return ids[id(e)]
        n = len(nodes)
        ids[id(e)] = n
        nodes.append(None)
        order.append(e)
        kids = {}
        for path, c in _walk_kids(e):
            kids.setdefault(path, []).append(visit(c))
        nodes[n] = (e.__name__ if isinstance(e, ObjectMeta) else None, kids)
        return n

    rootids = [visit(r) for r in roots]
    return nodes, rootids, order


def cq_graph(nodes):
    return cq_list([
        "{| n_class := %s; n_kids := %s |}" % (
            cq_option(cq_str(name) if name is not None else None),
            cq_list(["(%s, %s)" % (cq_str(p), cq_list([cq_nat(k) for k in ks])) for p, ks in kids.items()]),
        )
        for name, kids in nodes
    ])


KEYWORD_NAMES = ["properties", "patternProperties", "additionalProperties", "propertyNames", "dependencies", "items", "additionalItems",
                 "contains", "elements", "element", "required", "default"]


def build_case(rng, tier):
    """Random class graph with each dependency wrapped into a random keyword position."""
    from statham.schema.elements import (
        Element, Array, AnyOf, OneOf, AllOf, Not, Object, String, Integer,
    )
    from statham.schema.property import Property

    if rng.random() < 0.06:
        # the smallest cycle: ONE class that mentions itself (directly or through a wrapper), alone in its tree
        node = Object.inline("Node", properties={"value": Property(String())})
        pos = rng.choice(["direct", "items", "anyOf", "additionalProperties", "tuple_items", "not"])
        held = {"direct": node, "items": Array(node), "anyOf": AnyOf(node, String()), "additionalProperties": Element(additionalProperties=node),
                "tuple_items": Array([String(), node]), "not": Not(node)}[pos]
        if rng.random() < 0.5:
            node.properties["next"] = Property(held)
        else:
            node.additionalProperties = held
        roots = rng.choice([[node], [Array(node)], [node, node], [Element(contains=node)]])
        return roots, {"n": 1, "edges": "self:" + pos, "cyclic_wanted": True}
    if rng.random() < 0.08:
        # look-alike intermediates: two distinct, structurally identical classes whose children are differently NAMED
        # (themselves look-alike) classes - whatever tells visited nodes apart must go by identity, not by ==
        leaf_props = rng.choice([{"v": String()}, {}, {"v": Integer(), "w": String()}])
        pos = rng.choice(["direct", "items", "anyOf", "additionalProperties", "tuple_items"])
        mids, leaves = [], []
        for tag in ("Home", "Work") + (("Other",) if rng.random() < 0.3 else ()):
            leaf = Object.inline(tag + "Address", properties={k: Property(type(e)()) for k, e in leaf_props.items()})
            held = {"direct": leaf, "items": Array(leaf), "anyOf": AnyOf(String(), leaf), "additionalProperties": Element(additionalProperties=leaf),
                    "tuple_items": Array([String(), leaf])}[pos]
            mids.append(Object.inline(tag + "Contact", properties={"address": Property(held)}))
            leaves.append(leaf)
        top = Object.inline("Book", properties={"c%d" % i: Property(m) for i, m in enumerate(mids)})
        roots = rng.choice([[top], list(mids), [Array(mids[0]), mids[1]], [top] + leaves[::-1]])
        return roots, {"n": len(mids) + len(leaves) + 1, "edges": "look-alike", "cyclic_wanted": False}
    nmax = 6 if tier == "quick" else 12
    n = rng.randint(1, nmax)
    classes = [Object.inline("C%d" % i) for i in range(n)]
    cyclic_wanted = rng.random() < 0.3
    edges = []
    density = rng.choice([0.15, 0.3, 0.5])
    for i in range(n):
        for j in range(n):
            if i == j and not (cyclic_wanted and rng.random() < 0.1):
                continue
            if not cyclic_wanted and j >= i:
                continue  # DAG: depend only on lower indices
            if rng.random() < density:
                edges.append((i, j))
    rng.shuffle(edges)
    shared_wrappers = []

    def wrap(target, depth=0):
        pos = rng.choice(POSITIONS)
        filler = rng.choice([String(), Integer(), Element(minimum=1)])
        if pos == "items":
            e = rng.choice([Array(target), Element(items=target)])
        elif pos == "tuple_items":
            its = [filler, target] if rng.random() < 0.5 else [target, filler]
            e = rng.choice([Array(its), Element(items=its)])
        elif pos == "additionalItems":
            e = Array([filler], additionalItems=target)
        elif pos == "contains":
            e = Element(contains=target)
        elif pos == "properties":
            e = Element(properties={"p": Property(filler), "q": Property(target)})
        elif pos == "patternProperties":
            e = Element(patternProperties={"^a": filler, "^b": target})
        elif pos == "additionalProperties":
            e = Element(additionalProperties=target)
        elif pos == "propertyNames":
            e = Element(propertyNames=target)
        elif pos == "dependencies":
            e = Element(dependencies={"k": ["x"], "l": target})
        elif pos == "anyOf":
            e = AnyOf(filler, target)
        elif pos == "oneOf":
            e = OneOf(target, filler)
        elif pos == "allOf":
            e = AllOf(filler, target)
        else:
            e = Not(target)
        if depth < 2 and rng.random() < 0.3:
            return wrap(e, depth + 1)
        return e

    for (i, j) in edges:
        cls, target = classes[i], classes[j]
        if shared_wrappers and rng.random() < 0.15:
            val = rng.choice(shared_wrappers)          # a wrapper object shared by two owners
        else:
            val = target if rng.random() < 0.4 else wrap(target)
            if val is not target:
                shared_wrappers.append(val)
        slot = rng.choice(["prop", "prop", "additionalProperties", "patternProperties", "propertyNames", "dependencies"])
        if slot == "prop":
            # now and then a property NAMED like a keyword the orderer follows (as attribute name or as JSON name):
            # `Model["properties"]`-style lookups must not be mistaken for the keyword
            free = [k for k in KEYWORD_NAMES if k not in cls.properties]
            r = rng.random()
            if free and r < 0.15:
                cls.properties[rng.choice(free)] = Property(val)
            elif free and r < 0.3:
                cls.properties["p%d" % len(cls.properties)] = Property(val, source=rng.choice(free))
            else:
                cls.properties["p%d" % len(cls.properties)] = Property(val)
        elif slot == "additionalProperties" and not isinstance(cls.additionalProperties, Element):
            cls.additionalProperties = val
        elif slot == "patternProperties":
            pp = dict(cls.patternProperties) if isinstance(cls.patternProperties, dict) else {}
            pp["^x%d" % len(pp)] = val
            cls.patternProperties = pp
        elif slot == "propertyNames" and not isinstance(cls.propertyNames, Element):
            cls.propertyNames = val
        elif slot == "dependencies":
            dd = dict(cls.dependencies) if isinstance(cls.dependencies, dict) else {}
            dd["d%d" % len(dd)] = val
            cls.dependencies = dd
        else:
            cls.properties["p%d" % len(cls.properties)] = Property(val)
    k = rng.randint(1, min(3, n))
    roots = rng.sample(classes, k)
    if rng.random() < 0.3:
        roots = [wrap(r) if rng.random() < 0.5 else r for r in roots]
    if rng.random() < 0.1:
        roots.append(roots[0])
    return roots, {"n": n, "edges": edges, "cyclic_wanted": cyclic_wanted}


def true_deps(nodes, rootids):
    """class node -> set of class nodes reachable via >= 1 edge; and reachable classes from roots."""
    def reach_from(start_ids):
        seen, stack = set(), list(start_ids)
        while stack:
            x = stack.pop()
            for ks in nodes[x][1].values():
                for k in ks:
                    if k not in seen:
                        seen.add(k)
                        stack.append(k)
        return seen

    reachable = set(rootids) | reach_from(rootids)
    classes = [i for i in sorted(reachable) if nodes[i][0] is not None]
    deps = {c: {k for k in reach_from([c]) if nodes[k][0] is not None} for c in classes}
    return classes, deps


def run_impl(roots):
    from statham.serializers.orderer import orderer
    from statham.schema.exceptions import SchemaParseError

    out = []
    try:
        with time_limit(10):
            for c in orderer(*roots):          # consumed step by step: what was yielded before a refusal is observed
                out.append(c)
        return ("ok", out)
    except SchemaParseError:
        if out:
            return ("partial:%d classes yielded, then SchemaParseError" % len(out), None)
        return ("SchemaParseError", None)
    except ImplTimeout as exc:
        return ("timeout", str(exc))
    except BaseException as exc:  # noqa
        return ("other:" + type(exc).__name__, str(exc)[:200])


def oracle(nodes, rootids, order, outcome):
    """Direct check of the property on the implementation's output.  None = holds."""
    classes, deps = true_deps(nodes, rootids)
    cyclic = any(c in deps[c] for c in classes)
    kind, out = outcome
    if cyclic:
        if kind != "SchemaParseError":
            return "cyclic class dependencies but orderer returned %s (it must raise the schema-parse error INSTEAD of yielding a partial order)" % kind
        return None
    if kind != "ok":
        return "acyclic graph but orderer raised %s (%s)" % (kind, out)
    idx = {id(e): i for i, e in enumerate(order)}
    got = [idx.get(id(c)) for c in out]
    if None in got:
        return "orderer yielded an object that is not in the tree"
    if sorted(got) != sorted(classes):
        return "yielded classes %s != reachable classes %s" % (
            [nodes[g][0] for g in got], [nodes[c][0] for c in classes])
    pos = {g: i for i, g in enumerate(got)}
    for c in classes:
        for d in deps[c]:
            if pos[d] > pos[c]:
                return "%s yielded before its dependency %s" % (nodes[c][0], nodes[d][0])
    return None


def model_case(nodes, rootids, outcome):
    kind, out = outcome
    if kind == "ok":
        exp = "(OOk %s)" % cq_list([cq_str(c.__name__) for c in out])
    elif kind == "SchemaParseError":
        exp = "OSchemaParseError"
    elif kind == "other:AssertionError":
        exp = "OAssertionError"
    else:
        exp = "OOutOfFuel"
    return "(%s, %s, (%s : oresult str))" % (cq_graph(nodes), cq_list([cq_nat(r) for r in rootids]), exp)


EXTRA = (
    "From Statham.Generated Require Import Gen_orderer_paths.\n"
    "Definition ores_eqb (a b : oresult str) : bool := match a, b with\n"
    " | OOk x, OOk y => (fix eq l1 l2 := match l1, l2 with [] , [] => true | p :: r1, q :: r2 => str_eqb p q && eq r1 r2 | _, _ => false end) x y\n"
    " | OSchemaParseError, OSchemaParseError => true | OAssertionError, OAssertionError => true | _, _ => false end.\n"
    "Definition chk (c : graph * list nat * oresult str) : bool := let '(g, r, e) := c in wf_graphb paths g && boundedb g r && ores_eqb (orderer paths g r) e.\n"
    "Definition show (c : graph * list nat * oresult str) := let '(g, r, e) := c in orderer paths g r.\n"
    "(* false exactly when every premise of C11_end_to_end / C11_orderer_total holds on the graph *)\n"
    "Definition noprem (c : graph * list nat * oresult str) : bool := let '(g, r, e) := c in\n"
    "  negb (wf_graphb paths g && boundedb g r && match get_object_classes paths g r with Some ocs => uniq_namesb g ocs | None => false end).\n"
)


def replay_case(payload):
    rng = random.Random(payload["rng_seed"])
    roots, meta = build_case(rng, payload["tier"])
    return roots, meta


def run(tier, seed, replay=None):
    res = Result("C11", tier, seed)
    ncases = 600 if tier == "quick" else 6000
    cases, metas = [], []
    stats = {"cyclic": 0, "acyclic": 0, "classes_hist": {}, "positions_seen": {}}
    if replay:
        payload = json.load(open(replay))
        seeds = [payload["rng_seed"]]
        tier_for_case = payload.get("tier", tier)
    else:
        master = rng_for(seed, "C11")
        seeds = [master.getrandbits(48) for _ in range(ncases)]
        tier_for_case = tier
    corpus_dir = os.path.join(os.path.dirname(os.path.dirname(os.path.abspath(__file__))), "..", "corpus", "C11")
    if not replay and os.path.isdir(corpus_dir):
        for f in sorted(os.listdir(corpus_dir)):
            p = json.load(open(os.path.join(corpus_dir, f)))
            seeds.insert(0, p["rng_seed"])
    for s in seeds:
        rng = random.Random(s)
        roots, meta = build_case(rng, tier_for_case)
        nodes, rootids, order = graph_of(roots)
        outcome = run_impl(roots)
        bad = oracle(nodes, rootids, order, outcome)
        classes, deps = true_deps(nodes, rootids)
        cyc = any(c in deps[c] for c in classes)
        if not bad and stats.get("generator_calls", 0) < 1500:
            # the generator is where the order is used: it refuses what the ordering routine refuses (a module declaring a class
            # before a class it mentions does not import), and orders what it orders
            from statham.serializers import serialize_python
            from statham.schema.exceptions import SchemaParseError
            try:
                with time_limit(10):
                    serialize_python(*roots)
                gen_kind = "ok"
            except SchemaParseError:
                gen_kind = "SchemaParseError"
            except BaseException as exc:  # noqa
                gen_kind = "other:" + type(exc).__name__
            stats["generator_calls"] = stats.get("generator_calls", 0) + 1
            if cyc and gen_kind != "SchemaParseError":
                bad = "cyclic class dependencies: the ordering routine refuses them, serialize_python %s" % ("returns a module" if gen_kind == "ok" else "raises " + gen_kind)
            elif not cyc and gen_kind == "SchemaParseError":
                bad = "acyclic class dependencies, yet serialize_python raises the schema-parse error"
        stats["cyclic" if cyc else "acyclic"] += 1
        stats["classes_hist"][len(classes)] = stats["classes_hist"].get(len(classes), 0) + 1
        for _, kids in nodes:
            for p in kids:
                stats["positions_seen"][p] = stats["positions_seen"].get(p, 0) + 1
        key = json.dumps([[n, sorted(k.items())] for n, k in nodes]) + repr(rootids)
        res.count(key, nontrivial=len(classes) >= 2)
        res.sample({"roots": [repr(r) for r in roots][:3], "classes": len(classes), "cyclic": cyc,
                    "outcome": outcome[0], "order": [c.__name__ for c in outcome[1]] if outcome[0] == "ok" else None})
        if bad:
            res.violation({"property": "C11", "kind": "oracle", "what": bad, "rng_seed": s, "tier": tier_for_case,
                           "graph": [[n, k] for n, k in nodes], "roots": rootids, "outcome": outcome[0],
                           "replay": "./check C11 --replay <this file>"})
        cases.append(model_case(nodes, rootids, outcome))
        metas.append(s)
    mism, printed, err = eval_mismatches(["Orderer"], "chk", cases, extra=EXTRA, tag="c11", print_fn="show")
    res.corr_error = err
    res.corr_mismatches = [
        {"rng_seed": metas[i], "tier": tier_for_case, "model_says": printed.get(i, "").strip()[-1500:],
         "what": "model orderer and statham.serializers.orderer.orderer disagree on the yielded sequence / error"}
        for i in (mism or [])
    ]
    # on how many of the compared graphs do the premises of the end-to-end theorem hold (evaluated in Coq)?
    if err is None and not replay:
        prem, _, perr = eval_mismatches(["Orderer"], "noprem", cases, extra=EXTRA, tag="c11p")
        if perr is None:
            res.coverage["end_to_end_theorem_applies"] = {"graphs": len(prem), "of": len(cases),
                "premises": "wf_graphb && boundedb roots && uniq_namesb (object classes), evaluated by vm_compute"}
    res.coverage["distribution"] = stats
    res.coverage["traces_validated_against_impl"] = len(cases)
    res.coverage["rule"] = ("random class graphs (<=6 quick / <=12 thorough classes), every dependency wrapped into a random keyword "
                            "position up to depth 3, shared wrappers, 1-3 roots; distinct = distinct identity graph + roots; "
                            "non-trivial = at least 2 reachable classes")
    return res
