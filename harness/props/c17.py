"""C17 — equal elements are interchangeable."""
import copy
import json
import warnings

import common
import dslgen
import gen
import schemacase as sc
from canon import cq_elem, Unmodelled
from common import Result, rng_for
from coqemit import cq_bool

K17 = {"id": "C17-K17"}


def lookalike_lit(rng, v):
    if v is True:
        return rng.choice([1, 1.0])
    if v is False:
        return rng.choice([0, 0.0])
    if isinstance(v, int):
        return rng.choice([float(v), v + 1] + ([True] if v == 1 else []) + ([False] if v == 0 else []))
    if isinstance(v, float):
        return int(v) if v == int(v) else v + 0.5
    if isinstance(v, str):
        return v + " " if rng.random() < 0.5 else v.upper()
    if isinstance(v, list):
        return [lookalike_lit(rng, v[0])] + v[1:] if v else [None]
    if isinstance(v, dict):
        if v:
            k = sorted(v)[0]
            w = dict(v)
            w[k] = lookalike_lit(rng, v[k])
            return w
        return {"a": None}
    return 0 if v is None else None


def sites(doc):
    """all spec dicts of a doc (elements and class specs)"""
    out = []

    def visit(s):
        if not isinstance(s, dict) or "k" not in s:
            return
        out.append(s)
        kw = s.get("kw", {})
        for k, v in kw.items():
            if k == "items":
                for x in (v if isinstance(v, list) else [v]):
                    visit(x)
            elif k in ("additionalItems", "additionalProperties", "contains", "propertyNames"):
                visit(v)
            elif k in ("patternProperties", "dependencies"):
                for x in v.values():
                    visit(x)
            elif k == "properties":
                for p in v.values():
                    visit(p["e"])
        if s["k"] == "Array":
            for x in (s["items"] if isinstance(s["items"], list) else [s["items"]]):
                visit(x)
        for x in s.get("elements", []):
            visit(x)
        if "element" in s:
            visit(s["element"])
        for p in s.get("props", {}).values():
            visit(p["e"])

    visit(doc["root"])
    for c in doc["classes"].values():
        visit(c)
    return out


def mutate(rng, doc):
    """-> (doc', kind) one small change somewhere; the kind is drawn first, then a site that supports it"""
    d = copy.deepcopy(doc)
    ss = sites(d)
    LIT = ("default", "const", "enum", "minimum", "maximum", "multipleOf", "minLength", "maxLength", "minItems", "maxItems",
           "exclusiveMinimum", "exclusiveMaximum", "description", "pattern", "required")
    NUM = ("minimum", "maximum", "multipleOf", "exclusiveMinimum", "exclusiveMaximum")

    def props_of(s):
        return s.get("props") if s["k"] == "Obj" else (s.get("kw") or {}).get("properties")

    kinds = ["lit", "lit", "drop", "add_none", "class", "prop_required", "prop_required_defaulted", "prop_source", "reorder", "swap", "numtype"]
    rng.shuffle(kinds)
    for kind in kinds:
        cands = []
        for s in ss:
            kw = s.get("kw")
            if kind == "lit" and kw and any(k in LIT for k in kw):
                cands.append(s)
            elif kind == "numtype" and kw and any(k in NUM and isinstance(kw[k], int) and not isinstance(kw[k], bool) for k in kw):
                cands.append(s)
            elif kind == "drop" and kw and any(not (s["k"] == "Array" and k == "items") for k in kw):
                cands.append(s)
            elif kind == "add_none" and kw is not None and s["k"] != "Obj" and ("default" not in kw or "const" not in kw):
                cands.append(s)
            elif kind == "class" and s["k"] in ("String", "Integer", "Number", "Boolean", "Null") and not set(s["kw"]) - {"default", "const", "enum", "description"}:
                cands.append(s)
            elif kind in ("prop_required", "prop_source", "prop_required_defaulted") and props_of(s):
                cands.append(s)
            elif kind == "reorder" and props_of(s) and len(props_of(s)) > 1:
                cands.append(s)
            elif kind == "swap" and len(s.get("elements", [])) > 1:
                cands.append(s)
        if not cands:
            continue
        s = rng.choice(cands)
        kw = s.get("kw")
        if kind == "lit":
            k = rng.choice([k for k in kw if k in LIT])
            new = lookalike_lit(rng, kw[k])
            if k in ("minLength", "maxLength", "minItems", "maxItems") and (isinstance(new, bool) or not isinstance(new, (int, float))):
                continue
            if k in ("pattern", "description") and not isinstance(new, str):
                continue
            if k == "required" and not (isinstance(new, list) and all(isinstance(x, str) for x in new)):
                continue
            if k == "enum" and not isinstance(new, list):
                continue
            kw[k] = new
            return d, "lit:" + k
        if kind == "numtype":
            k = rng.choice([k for k in kw if k in NUM and isinstance(kw[k], int) and not isinstance(kw[k], bool)])
            kw[k] = float(kw[k])
            return d, "numtype:" + k
        if kind == "drop":
            del kw[rng.choice([k for k in kw if not (s["k"] == "Array" and k == "items")])]
            return d, "drop"
        if kind == "add_none":
            k = rng.choice([k for k in ("default", "const") if k not in kw])
            kw[k] = None
            return d, "add_none:" + k
        if kind == "class":
            s["k"] = rng.choice([x for x in ("String", "Integer", "Number", "Boolean", "Null", "Element") if x != s["k"]])
            return d, "class"
        props = props_of(s)
        if kind == "prop_required":
            p = props[rng.choice(sorted(props))]
            p["required"] = not p["required"]
            return d, "prop_required"
        if kind == "prop_required_defaulted":
            p = props[rng.choice(sorted(props))]
            e = p["e"]
            if e["k"] in ("String", "Integer", "Number", "Boolean", "Null", "Element", "Array"):
                e["kw"].setdefault("default", "x")
            elif e["k"] in ("AnyOf", "OneOf", "AllOf", "Not"):
                e.setdefault("default", "x")
            else:
                continue
            base = copy.deepcopy(d)           # both sides carry the default; only `required` differs
            p["required"] = not p["required"]
            return (base, d), "prop_required_defaulted"
        if kind == "prop_source":
            a = rng.choice(sorted(props))
            props[a]["source"] = (props[a]["source"] or a) + "x"
            return d, "prop_source"
        if kind == "reorder":
            items = list(props.items())
            rng.shuffle(items)
            if s["k"] == "Obj":
                s["props"] = dict(items)
            else:
                kw["properties"] = dict(items)
            return d, "reorder(equal expected)"
        if kind == "swap":
            s["elements"].reverse()
            return d, "swap"
    return d, "none(equal expected)"


def strict_eq(a, b):
    """JSON equality with booleans distinct from numbers, numbers by value"""
    if isinstance(a, bool) or isinstance(b, bool):
        return isinstance(a, bool) and isinstance(b, bool) and a == b
    if isinstance(a, (int, float)) and isinstance(b, (int, float)):
        return a == b
    if type(a) != type(b):
        return False
    if isinstance(a, list):
        return len(a) == len(b) and all(strict_eq(x, y) for x, y in zip(a, b))
    if isinstance(a, dict):
        if a.keys() != b.keys():
            return False
        for k in a:
            x, y = a[k], b[k]
            if k == "required" and isinstance(x, list) and isinstance(y, list) and all(isinstance(t, str) for t in x + y):
                x, y = sorted(x), sorted(y)          # the order of a required list carries no meaning
            if not strict_eq(x, y):
                return False
        return True
    return a == b


def verdict(e, v):
    from statham.schema.exceptions import ValidationError
    try:
        with warnings.catch_warnings():
            warnings.simplefilter("ignore")
            with common.time_limit(20):
                e(copy.deepcopy(v))
        return "ok"
    except (ValidationError, TypeError):
        return "rej"
    except BaseException as exc:  # noqa
        return "crash:" + type(exc).__name__


def run(tier, seed, replay=None):
    from statham.serializers import serialize_json
    from statham.schema.elements import Element
    res = Result("C17", tier, seed)
    rng = rng_for(seed, "C17")
    stats = {"pairs": 0, "equal_pairs": 0, "unequal_pairs": 0, "mutation_kinds": {}, "asymmetric": 0, "values_compared": 0,
             "copies": 0, "unmodelled": 0, "ser_compared": 0}
    # ---- recorded witness: int vs float multipleOf (finding C17-K17) --------------------------
    a, b = Element(multipleOf=2), Element(multipleOf=2.0)
    w = 9007199254740993
    res.witness_status = {"C17-K17": "fails" if (a == b) is True and verdict(a, w) != verdict(b, w) else "passes"}
    if replay:
        payload = json.load(open(replay))
        pairs = [(payload["doc_a"], payload["doc_b"], "replay")]
    else:
        pairs = []
        # subclasses that differ only through what they INHERIT (one keyword of the parent, one property of the parent)
        def fam(parent_kw, parent_props):
            return {"classes": {"P": {"k": "Obj", "name": "P", "base": None, "doc": None, "kw": parent_kw, "props": parent_props},
                                "C": {"k": "Obj", "name": "C", "base": "P", "doc": None, "kw": {}, "props": {}}},
                    "order": ["P", "C"], "root": {"k": "Ref", "name": "C"}}
        name_p = {"name": {"e": {"k": "String", "kw": {}}, "required": False, "source": None}}
        for kw in ({"additionalProperties": False}, {"maxProperties": 1}, {"required": ["name"]}, {"minProperties": 1},
                   {"patternProperties": {"^x": {"k": "Integer", "kw": {}}}}, {"propertyNames": {"k": "String", "kw": {"maxLength": 3}}},
                   {"default": {"name": "d"}}, {"const": {"name": "c"}}, {"description": "d"}):
            pairs.append((fam({}, name_p), fam(kw, name_p), "inherited:" + next(iter(kw))))
        pairs.append((fam({}, name_p), fam({}, {"name": {"e": {"k": "String", "kw": {}}, "required": True, "source": None}}), "inherited:prop_required"))
        pairs.append((fam({}, name_p), fam({}, {"name": {"e": {"k": "Integer", "kw": {}}, "required": False, "source": None}}), "inherited:prop_class"))
        for _ in range(200 if tier == "quick" else 3000):
            doc = dslgen.gen_doc(rng, dslgen.Cfg(max_depth=rng.choice([1, 2, 2, 3])))
            pairs.append((doc, copy.deepcopy(doc), "copy"))
            for _ in range(2):
                d2, kind = mutate(rng, doc)
                if isinstance(d2, tuple):
                    pairs.append((d2[0], d2[1], kind))
                else:
                    pairs.append((doc, d2, kind))
    if not replay:
        base = {"k": "Obj", "name": "Base", "base": None, "doc": None, "kw": {}, "props": {"name": {"e": {"k": "String", "kw": {}}, "required": False, "source": None}}}
        sub = {"k": "Obj", "name": "Strict", "base": "Base", "doc": None, "kw": {"additionalProperties": False, "minProperties": 1, "required": ["name"]}, "props": {}}
        flat = {"k": "Obj", "name": "Strict", "base": None, "doc": None, "kw": {"additionalProperties": False, "minProperties": 1, "required": ["name"]},
                "props": {"name": {"e": {"k": "String", "kw": {}}, "required": False, "source": None}}}
        pairs.insert(0, ({"classes": {"Strict": flat}, "order": ["Strict"], "root": {"k": "Ref", "name": "Strict"}},
                         {"classes": {"Base": base, "Strict": sub}, "order": ["Base", "Strict"], "root": {"k": "Ref", "name": "Strict"}}, "copy:keyword-only subclass vs flat class (equal expected)"))
    cases, metas = [], []
    for da, db, kind in pairs:
        try:
            ea, ca = dslgen.build(da)
            eb, cb = dslgen.build(db)
        except BaseException as exc:  # noqa   (a mutation can make a spec the DSL itself refuses)
            continue
        stats["pairs"] += 1
        stats["mutation_kinds"][kind.split(":")[0]] = stats["mutation_kinds"].get(kind.split(":")[0], 0) + 1
        if kind == "copy":
            stats["copies_seen"] = stats.get("copies_seen", 0) + 1
        if kind == "copy" and stats["copies_seen"] % 3 == 0:
            # one side carries a public attribute the other does not have at all: whichever way == decides, it decides the same both ways
            try:
                from statham.schema.elements.meta import ObjectMeta as _OMx
                if isinstance(eb, _OMx):
                    type.__setattr__(eb, "origin", "x")
                else:
                    eb.origin = "x"
                kind = "extra-attribute:one side has a public attribute `origin`"
            except BaseException:  # noqa
                pass
        ab, ba = (ea == eb), (eb == ea)
        if isinstance(ab, bool) and isinstance(ba, bool) and not kind.startswith("extra-attribute"):       # (Elem.v has no foreign attributes)
            try:   # the model sees the trees as they are when == is evaluated (before any validation call)
                cases.append("(%s, %s, %s, %s)" % (cq_elem(ea), cq_elem(eb), cq_bool(ab), cq_bool(ba)))
                metas.append({"property": "C17", "doc_a": da, "doc_b": db, "mutation": kind})
            except Unmodelled:
                stats["unmodelled"] += 1
        res.count(json.dumps([da, db], sort_keys=True, default=repr), nontrivial=kind != "copy")
        payload = {"property": "C17", "doc_a": da, "doc_b": db, "mutation": kind, "replay": "./check C17 --replay <this file>"}
        if not (isinstance(ab, bool) and isinstance(ba, bool)) or ab != ba:
            stats["asymmetric"] += 1
            res.violation(dict(payload, kind="oracle", what="== is not symmetric: a==b is %r, b==a is %r" % (ab, ba)))
            continue
        if (ea == ea) is not True:
            res.violation(dict(payload, kind="oracle", what="== is not reflexive"))
        # "replacing an element by a reference to an equal definition": b offered as a caller definition next to a tree holding a -
        # a is replaced by the reference exactly when a == b (no sub-element of a can equal the whole of b's tree)
        from statham.schema.elements.meta import ObjectMeta as _OM
        from statham.schema.elements import Array as _Array, Nothing as _Nothing
        if not isinstance(ea, _OM) and not isinstance(eb, _OM) and not isinstance(ea, _Nothing):
            try:
                Jd = serialize_json(_Array(ea), definitions={"d": eb})
                refd = Jd.get("items") == {"$ref": "#/definitions/d"}
                stats["definition_offers"] = stats.get("definition_offers", 0) + 1
                if refd != (ab is True):
                    res.violation(dict(payload, kind="oracle", document=Jd,
                                       what="a == b is %r, yet serialize_json(Array(a), definitions={'d': b}) %s a by a reference to d"
                                            % (ab, "replaces" if refd else "does not replace")))
                    continue
            except BaseException:  # noqa   (serializer defects are C03's subject)
                pass
        if kind in ("copy",) or "equal expected" in kind:
            stats["copies"] += 1
            if ab is not True:
                res.violation(dict(payload, kind="oracle", what="independently built copies of the same schema are not equal"))
                continue
        if ab:
            stats["equal_pairs"] += 1
            # on the b side every class is first used parents-before-children (on the a side in whatever order the values reach them)
            for c in sorted(cb.values(), key=lambda c: len(c.__mro__)):
                verdict(c, {})
            vals = dslgen.gen_values(rng, da, 4) + dslgen.gen_values(rng, db, 3) + [{}, {"name": "x", "zz_extra": 1}, []]
            for v in vals:
                stats["values_compared"] += 1
                va, vb = verdict(ea, v), verdict(eb, v)
                if va != vb:
                    res.violation(dict(payload, kind="oracle", value=v, verdicts=[va, vb],
                                       finding="C17-K17" if kind.startswith("numtype:multipleOf") and isinstance(v, int) and abs(v) > 2 ** 53 else None,
                                       what="elements compare equal but give different verdicts on %r" % (v,)))
                    break
            try:
                ja, jb = serialize_json(ea), serialize_json(eb)
                stats["ser_compared"] += 1
                if not strict_eq(ja, jb):
                    res.violation(dict(payload, kind="oracle", what="elements compare equal but serialize to different JSON Schemas",
                                       json_a=ja, json_b=jb))
            except BaseException:  # noqa   (serializer defects are C03's subject)
                pass
        else:
            stats["unequal_pairs"] += 1
        res.sample({"a": repr(ea)[:200], "b": repr(eb)[:200], "mutation": kind, "equal": ab}, limit=5)
    # ---- "sharing one class between equal object schemas": the parser shares a class between two same-titled schemas of one document
    #      exactly when the classes obtained by parsing each on its own are == ------------------------------------------------------------
    if not replay:
        from statham.schema.parser import parse_element
        item = lambda **kw: dict({"type": "object", "title": "Item", "properties": {"name": {"type": "string"}}}, **kw)  # noqa
        SAME_TITLE = [(item(maxProperties=1), item()), (item(), item(maxProperties=1)), (item(), item()), (item(minProperties=0), item()),
                      (item(required=["name"]), item()), (item(description="d"), item()), (item(default={}), item()),
                      (item(const={"on": True}), item(const={"on": 1})), (item(enum=[{"name": "a"}]), item(enum=[{"name": "a"}])),
                      (item(additionalProperties=False, minProperties=1), item(additionalProperties=False)),
                      ({"type": "object", "title": "Item", "properties": {"name": {"type": "string"}, "n": {"type": "integer"}}}, item()),
                      ({"type": "object", "title": "Item", "properties": {"n": {"type": "integer"}, "name": {"type": "string"}}},
                       {"type": "object", "title": "Item", "properties": {"name": {"type": "string"}, "n": {"type": "integer"}}})]
        for s1, s2 in SAME_TITLE:
            for wrap in ("tuple", "properties"):
                docj = {"type": "array", "items": [copy.deepcopy(s1), copy.deepcopy(s2)]} if wrap == "tuple" else \
                    {"type": "object", "title": "Holder", "properties": {"first": copy.deepcopy(s1), "second": copy.deepcopy(s2)}}
                try:
                    e = parse_element(copy.deepcopy(docj))
                    c1, c2 = (e.items[0], e.items[1]) if wrap == "tuple" else (e.properties["first"].element, e.properties["second"].element)
                    alone1, alone2 = parse_element(copy.deepcopy(s1)), parse_element(copy.deepcopy(s2))
                except BaseException:  # noqa
                    continue
                stats["same_title_pairs"] = stats.get("same_title_pairs", 0) + 1
                eq = (alone1 == alone2) is True
                if (c1 is c2) != eq or (c2 == alone2) is not True:
                    res.violation({"property": "C17", "kind": "oracle", "schema": docj,
                                   "what": "two same-titled object schemas whose classes, parsed alone, are %s: in one document they %s one class; the second "
                                           "position %s the class of its own schema" % ("equal" if eq else "NOT equal", "share" if c1 is c2 else "do not share",
                                                                                        "equals" if (c2 == alone2) is True else "does not equal")})
    codes, err = sc.eval_codes(["Elem", "Equality", "RunEq"], "run_eq_case", cases, tag="c17", shard=120)
    res.corr_error = err
    # code 9 = an equal pair to which the congruence theorem C17_equal_same_verdict applies (EqFrag.goodb on both, proved sound)
    # code 10 = an equal pair with object classes to which C17_equal_same_verdict_classes applies (ClsFrag.goodcb on both, proved sound)
    stats["theorem_applies"] = {"equal_pairs": sum(1 for cs in (codes or {}).values() if 9 in cs or 10 in cs),
                                "class_free": sum(1 for cs in (codes or {}).values() if 9 in cs),
                                "with_classes": sum(1 for cs in (codes or {}).values() if 10 in cs and 9 not in cs),
                                "of_equal_pairs": stats.get("equal_pairs", None)}
    res.corr_mismatches = [dict(metas[i], codes=[c for c in cs if c not in (9, 10)], what="Equality.elem_eq disagrees with the implementation's ==")
                           for i, cs in sorted((codes or {}).items()) if any(c not in (9, 10) for c in cs)]
    res.coverage["distribution"] = stats
    res.coverage["traces_validated_against_impl"] = len(cases)
    res.coverage["rule"] = ("pairs of DSL trees: an independently built copy, and single-site mutations (literal look-alikes true/1/1.0, int->float "
                            "thresholds, dropped keyword, default/const None vs absent, element class, property required/source, property order, "
                            "member order); == checked both ways; when equal: verdicts on values aimed at both schemas and type-strict comparison "
                            "of serialize_json; every pair also evaluated by Equality.elem_eq in Coq.  non-trivial = mutated pair")
    return res
