"""C10 — only validation and schema-parse errors escape; no crash on any JSON input."""
import copy
import json
import sys
import warnings

import common
import dslgen
import gen
import schemacase as sc
from canon import Unmodelled
from common import Result, rng_for

EXTREME_NUMS = [10 ** 400, -10 ** 400, 2 ** 1024, 2 ** 1024 - 2 ** 970, 2 ** 1024 - 2 ** 970 - 1, 2 ** 1023, -2 ** 1023, 2 ** 53 + 1, -(2 ** 53) - 1,
                2 ** 63, 2 ** 64, 1.7976931348623157e308, -1.7976931348623157e308, 5e-324, -5e-324, 2.2250738585072014e-308, 0.0, -0.0,
                1e308, 1e-320, 0, 1, -1, 0.1, 3, 9007199254740993]
EXTREME_STRS = ["", "\x00", "a\x00b", "\ud800", "\udfff", "\U0001f600", "\U0010ffff", "́", "a" * 10000, "99999999999999999999",
                "2020-01-01T00:00:00Z", "not-a-uuid", "123e4567-e89b-12d3-a456-426614174000", "\n", " ", "1" * 400, "0000-00-00T00:00:00Z",
                "9" * 30 + "-01-01", "1e400", "-", "T", "00:00", "12345678901234567890123456789012"]
ODD_KEYS = ["\x01", "\x7f", "\x85", "", "﷐", "\U000e0000", "\ud800", "", " ", "​", "__class__", "mro", "a" * 300, "\U0001f600", "ﬁ", "²"]


def deep(n, leaf, kind):
    v = leaf
    for _ in range(n):
        v = [v] if kind == "list" else {"a": v}
    return v


def extreme_values(rng, tier):
    vals = list(EXTREME_NUMS) + list(EXTREME_STRS)
    vals += [[x] for x in EXTREME_NUMS[:8]] + [{"a": x} for x in EXTREME_NUMS[:8]]
    vals += [deep(150, 1, "list"), deep(150, "x", "dict"), deep(80, 10 ** 400, "list")]
    big = tier != "quick"
    vals += [list(range(12000 if big else 8000)), [0.5] * (5000 if big else 800), {str(i): i for i in range(5000 if big else 800)},
             [[i] for i in range(3000 if big else 300)], [{"a": i} for i in range(2000 if big else 200)], [True, False] * 500, [None] * 500]
    vals += [{k: 1 for k in ODD_KEYS}, {k: {k: None} for k in ODD_KEYS[:6]}]
    vals += [True, False, None, [], {}, [[]], [{}], {"": {}}, {"": 1}, {"": "x"}, {"": None}, [{"": 1}], {"a$": 1}, "$scope", "a1"]
    return vals


def extreme_specs(rng):
    """numeric / string / array elements whose keyword values are themselves extreme"""
    out = []
    for m in [0.5, 1e-320, 5e-324, 1e308, 3, 10 ** 400, 2 ** 1024, 0.1, 2, 1.5, 1e-7]:
        for k in ("Element", "Integer", "Number"):
            out.append({"k": k, "kw": {"multipleOf": m}})
    for kw in ("minimum", "maximum", "exclusiveMinimum", "exclusiveMaximum"):
        for b in [10 ** 400, -10 ** 400, 1.7976931348623157e308, 5e-324, 2 ** 53 + 1]:
            out.append({"k": rng.choice(["Element", "Integer", "Number"]), "kw": {kw: b}})
    for lit in [10 ** 400, [10 ** 400], {"a": 2 ** 1024}, 1.7976931348623157e308, "\ud800", [[1], [True]], [{"a": []}, {"a": []}]]:
        out.append({"k": "Element", "kw": {"const": lit}})
        out.append({"k": "Element", "kw": {"enum": [lit, 0]}})
    out.append({"k": "Element", "kw": {"uniqueItems": True}})
    out.append({"k": "Array", "items": {"k": "Number", "kw": {}}, "kw": {"uniqueItems": True}})
    out.append({"k": "Element", "kw": {"uniqueItems": True, "items": {"k": "Element", "kw": {}}}})
    for f in ("uuid", "date-time", "UUID", "Date-Time", "uuid ", "", "\u00fcuid"):      # case / spacing variants are OTHER names: accept-and-warn
        out.append({"k": "String", "kw": {"format": f}})
        out.append({"k": "Element", "kw": {"format": f}})
        out.append({"k": "AnyOf", "elements": [{"k": "String", "kw": {"format": f}}, {"k": "Null", "kw": {}}]})
    for pat in ["^[A-Za-z_$][A-Za-z0-9_$]*$", "[$]", "^[a-z$]+$", "a$|b$", "[\\^$.]", "^$", "\\$"]:
        out.append({"k": "String", "kw": {"pattern": pat}})
        out.append({"k": "Element", "kw": {"pattern": pat, "propertyNames": {"k": "String", "kw": {"pattern": pat}}}})
    out.append({"k": "Element", "kw": {"additionalProperties": {"k": "String", "kw": {}}}})
    out.append({"k": "Element", "kw": {"patternProperties": {"^$": {"k": "Null", "kw": {}}}, "additionalProperties": {"k": "Integer", "kw": {}}}})
    out.append({"k": "AnyOf", "elements": [{"k": "Element", "kw": {"additionalProperties": {"k": "Boolean", "kw": {}}}}, {"k": "Array", "items": {"k": "Element", "kw": {"additionalProperties": {"k": "Null", "kw": {}}}}, "kw": {}}]})
    out.append({"k": "Element", "kw": {"propertyNames": {"k": "String", "kw": {"maxLength": 3}}, "patternProperties": {"^.$": {"k": "Integer", "kw": {}}},
                                      "additionalProperties": {"k": "Number", "kw": {"multipleOf": 0.5}}}})
    out.append({"k": "Not", "element": {"k": "Number", "kw": {"multipleOf": 0.5}}})
    out.append({"k": "OneOf", "elements": [{"k": "Number", "kw": {}}, {"k": "Integer", "kw": {"multipleOf": 3}}, {"k": "Element", "kw": {"multipleOf": 0.1}}]})
    out.append({"k": "Element", "kw": {"contains": {"k": "Number", "kw": {"multipleOf": 1e-320}}}})
    out.append({"k": "Element", "kw": {"dependencies": {"a": {"k": "Element", "kw": {"properties": {"a": {"e": {"k": "Number", "kw": {}}, "required": False, "source": None}}}}}}})
    return out


def classify_call(e, v):
    """-> 'ok' | 'ValidationError' | 'TypeError' | other exception class name"""
    from statham.schema.exceptions import ValidationError
    try:
        with warnings.catch_warnings():
            warnings.simplefilter("ignore")
            with common.time_limit(60):
                e(v)
        return "ok", None
    except ValidationError:
        return "ValidationError", None
    except TypeError as exc:
        return "TypeError", str(exc)[:120]
    except common.ImplTimeout:
        return "Timeout", None
    except BaseException as exc:  # noqa
        return type(exc).__name__, str(exc)[:120]


def k8(spec_repr, v):
    """finding predicate: an int that float() cannot represent, met by a number schema's construction"""
    def big(x):
        if isinstance(x, bool):
            return False
        if isinstance(x, int):
            return abs(x) >= 2 ** 1024 - 2 ** 970
        if isinstance(x, list):
            return any(big(y) for y in x)
        if isinstance(x, dict):
            return any(big(y) for y in x.values())
        return False
    return ("Number(" in spec_repr or "'k': 'Number'" in spec_repr or "'number'" in spec_repr or '"number"' in spec_repr) and big(v)


def zero_multiple(spec):
    s = json.dumps(spec)
    return '"multipleOf": 0}' in s or '"multipleOf": 0,' in s or '"multipleOf": 0.0' in s


def run(tier, seed, replay=None):
    from statham.schema.parser import parse_element
    from statham.schema.exceptions import SchemaParseError
    res = Result("C10", tier, seed)
    rng = rng_for(seed, "C10")
    stats = {"calls": 0, "ok": 0, "ValidationError": 0, "TypeError": 0, "other": {}, "parses": 0, "parse_ok": 0, "parse_refused": 0, "k8_inputs": 0,
             "specs": 0, "deepest": 150}
    old_limit = sys.getrecursionlimit()
    vals = extreme_values(rng, tier)
    specs = []
    if replay:
        p = json.load(open(replay))
        if "doc" in p:
            specs = [p["doc"]]
            vals = [p["value"]]
    else:
        specs = [{"classes": {}, "order": [], "root": s} for s in extreme_specs(rng)]
        for _ in range(60 if tier == "quick" else 400):
            specs.append(dslgen.gen_doc(rng, dslgen.Cfg(max_depth=rng.choice([1, 2]), formats=True)))
    cases, metas = [], []
    for doc in specs:
        try:
            root, _ = dslgen.build(doc)
        except BaseException:  # noqa
            continue
        stats["specs"] += 1
        sample = vals if len(vals) <= 2 else rng.sample(vals, 14 if tier == "quick" else 40) + EXTREME_NUMS[:6] + ["", " ", "\n", "-", "T"]
        if len(vals) > 2 and '"format"' in json.dumps(doc, default=repr):
            # a format checker sees every string, wherever it sits
            pass
        if len(vals) > 2 and any(k in json.dumps(doc, default=repr) for k in ('"pattern"', '"additionalProperties"', '"patternProperties"')):
            sample = sample + ["", "a1", "$scope", "free", {"": 1}, {"": "x"}, {"": None}, [{"": 1}], {"a$": 1}]
        if len(vals) > 2 and '"format"' in json.dumps(doc, default=repr):
            sample = sample + EXTREME_STRS + [[s] for s in EXTREME_STRS[:6]] + [{"a": s} for s in EXTREME_STRS[:6]] + [{s: 1} for s in EXTREME_STRS[:6]]
        r = repr(root)[:300]
        small = []
        for v in sample:
            kind, detail = classify_call(root, copy.deepcopy(v))
            stats["calls"] += 1
            res.count(r + "|" + repr(v)[:80], nontrivial=True)
            if kind in ("ok", "ValidationError", "TypeError"):
                stats[kind] += 1
            elif kind == "Timeout":
                stats["slow_calls"] = stats.get("slow_calls", 0) + 1       # the harness's own 60 s bound, not an exception of the library
            else:
                stats["other"][kind] = stats["other"].get(kind, 0) + 1
                fid = None
                if kind == "OverflowError" and k8(r + repr(doc), v) and "too large to convert to float" in (detail or ""):
                    fid = "C10-K8"
                    stats["k8_inputs"] += 1
                res.violation({"property": "C10", "kind": "oracle", "finding": fid, "doc": doc, "value": v if len(repr(v)) < 2000 else repr(v)[:200],
                               "what": "calling %s on %s raised %s (%s) — neither the validation error nor a TypeError" % (r[:120], repr(v)[:80], kind, detail),
                               "replay": "./check C10 --replay <this file>"})
            if len(repr(v)) < 400:
                small.append(v)
        try:
            obs, _ = sc.observe_elem(root, small[:10])
            cases.append(sc.cq_ecase(doc, root, obs))
            metas.append((doc, small[:10]))
        except (Unmodelled, AssertionError, OverflowError, ValueError):
            pass
        res.sample({"element": r[:120], "values": [repr(v)[:40] for v in sample[:3]]}, limit=4)
    # ---- parsing: metaschema-valid schemas, odd property names, deep nesting -------------------------------------
    schemas = []
    if not replay:
        for _ in range(200 if tier == "quick" else 1500):
            s = gen.gen_schema(rng, gen.Cfg(max_depth=3, safe_names=False))
            if isinstance(s, dict):
                schemas.append(s)
        for k in ODD_KEYS:
            schemas.append({"type": "object", "title": "T", "properties": {k: {"type": "string"}}, "required": [k]})
            schemas.append({"properties": {k: {}}, "patternProperties": {"^a": {"properties": {k: {"type": "null"}}}}})
            schemas.append({"type": "object", "title": k or "x", "properties": {"a": {"type": "object", "title": k + "x"}}})
        schemas.append(deep(100, {"type": "string"}, "dict") and {"items": deep(100, {"type": "string"}, "dict")})
        nested = {"type": "string"}
        for _ in range(120):
            nested = {"items": nested}
        schemas.append(nested)
        for m in [10 ** 400, 1e308, 5e-324]:
            schemas.append({"type": "number", "multipleOf": m, "minimum": -m, "maximum": m})
    elif "schema" in json.load(open(replay)):
        schemas = [json.load(open(replay))["schema"]]
    # ---- acyclic schemas nested far beyond the interpreter's recursion budget: refused with the schema-parse family, through every position
    def nest(pos, n):
        s = {"type": "string"}
        for _ in range(n):
            s = {"items": s} if pos == "items" else {"items": [{"type": "null"}, s]} if pos == "tuple" else {"additionalProperties": s} if pos == "additionalProperties" \
                else {"not": s} if pos == "not" else {"anyOf": [s, {"type": "null"}]} if pos == "anyOf" else {"dependencies": {"a": s}} if pos == "dependencies" \
                else {"properties": {"p": s}} if pos == "properties" else {"type": "object", "title": "T", "properties": {"p": s}}
        return s
    for pos in ([] if replay else ["items", "tuple", "additionalProperties", "not", "anyOf", "dependencies", "properties", "class"]):
        for n in (3000, 1200):
            stats["parses"] += 1
            stats["beyond_budget_parses"] = stats.get("beyond_budget_parses", 0) + 1
            res.count("parse-deep:%s:%d" % (pos, n), nontrivial=True)
            try:
                with common.time_limit(120):
                    parse_element(nest(pos, n))
                stats["parse_ok"] += 1
            except SchemaParseError:
                stats["parse_refused"] += 1
            except BaseException as exc:  # noqa
                res.violation({"property": "C10", "kind": "oracle-parse", "schema": "%d levels of %s around {'type': 'string'}" % (n, pos),
                               "what": "parse_element raised %s on an acyclic schema nested %d deep: not an error of the schema-parse family" % (type(exc).__name__, n)})
    for s in schemas:
        stats["parses"] += 1
        res.count("parse:" + json.dumps(s, sort_keys=True, default=repr)[:500], nontrivial=True)
        try:
            with common.time_limit(60):
                e = parse_element(copy.deepcopy(s))
            stats["parse_ok"] += 1
        except SchemaParseError:
            stats["parse_refused"] += 1
            continue
        except BaseException as exc:  # noqa
            res.violation({"property": "C10", "kind": "oracle-parse", "schema": s if len(repr(s)) < 3000 else repr(s)[:300],
                           "what": "parse_element raised %s (%s): not an error of the schema-parse family" % (type(exc).__name__, str(exc)[:100])})
            continue
        for v in rng.sample(vals, 3):
            kind, detail = classify_call(e, copy.deepcopy(v))
            stats["calls"] += 1
            if kind in ("ok", "ValidationError", "TypeError"):
                stats[kind] += 1
            elif kind == "Timeout":
                stats["slow_calls"] = stats.get("slow_calls", 0) + 1       # the harness's own 60 s bound (quadratic uniqueItems): termination is the theorem's
            elif not (kind == "OverflowError" and k8(repr(e) + repr(s), v)):
                res.violation({"property": "C10", "kind": "oracle", "schema": s if len(repr(s)) < 3000 else repr(s)[:300], "value": repr(v)[:200],
                               "what": "calling the parsed element raised %s (%s)" % (kind, detail)})
    sys.setrecursionlimit(old_limit)
    codes, err = sc.run_ecases(cases, tag="c10", shard=8)     # huge numerals: many small files in parallel
    res.corr_error = err
    res.corr_mismatches = [{"doc": metas[i][0], "values": [repr(v)[:100] for v in metas[i][1]], "codes": cs,
                            "what": "Validate.build (incl. PyNum float arithmetic and its Crash outcomes) disagrees with the implementation on extreme values"}
                           for i, cs in sorted((codes or {}).items())]
    res.witness_status = {"C10-K8": "fails" if stats["k8_inputs"] else "not-exercised"}
    res.coverage["distribution"] = stats
    res.coverage["traces_validated_against_impl"] = len(cases)
    res.coverage["rule"] = ("elements with extreme keyword values (multipleOf 5e-324..10^400, bounds at +-1.797e308, huge literals) and dslgen trees, "
                            "called with an extreme-value stream: ints to 10^400 and at the float-conversion boundary 2^1024-2^970(+-1), "
                            "subnormals, -0.0, NUL/surrogate/astral strings, 10^4-character strings, nesting depth 150, arrays of 2*10^4-10^5 items, "
                            "odd member names; outcome class must be ok / ValidationError / TypeError.  Parsing: generated metaschema-valid schemas, "
                            "unnamed/odd code points in property names and titles, nesting depth 120: an element or a SchemaParseError.  Small "
                            "cases are also evaluated by Validate.build in Coq (binary64 arithmetic via SpecFloat).  non-trivial = every case")
    return res
