"""C15 — a subclass model means its parent's schema plus its own additions."""
import copy
import json

import common
import dslgen
import gen
import schemacase as sc
import treedump
from canon import cq_kwds, cq_elem, Unmodelled
from common import Result, rng_for
from coqemit import cq_str, cq_list, cq_bool, cq_option
from props.c08 import call, CORPUS_VALUES
from props.c17 import strict_eq
from props.c13 import new_value, live_value, prop_spec, live_prop, SIG

FLAT = dslgen.Cfg(max_depth=1, classes=False, shared=False)


def gen_chain(rng, depth):
    """a chain of `depth` classes C0 <- C1 <- ...; each level passes some keywords and declares,
    overrides or leaves properties; sub-elements are class-free"""
    doc = {"classes": {}, "order": []}
    for i in range(depth):
        name = "C%d" % i
        kw = {}
        for k in rng.sample(["required", "minProperties", "maxProperties", "patternProperties", "additionalProperties", "propertyNames",
                             "dependencies", "default", "const", "enum", "description"], rng.randint(0, 4)):
            kw[k] = new_value(rng, k)
        if i > 0 and rng.random() < 0.3:
            # override an inherited keyword by the value the constructor would default to (re-open a closed parent)
            inherited_kw = dslgen.merged_class(doc, "C%d" % (i - 1))["kw"]
            if inherited_kw.get("additionalProperties", True) is not True:
                kw["additionalProperties"] = True
        if "default" in kw and not isinstance(kw["default"], dict):
            kw["default"] = rng.choice([{}, {"a": 1}, {"a": "x", "b": 2}])
        props = {}
        pool = list(dslgen.ATTRS)
        for a in rng.sample(pool, rng.randint(0, 3)):
            props[a] = prop_spec(rng)
            if a in dslgen.SOURCES:
                props[a]["source"] = dslgen.SOURCES[a]
        if i > 0 and rng.random() < 0.6:                       # override an inherited property
            inherited = sorted(dslgen.merged_class(doc, "C%d" % (i - 1))["props"])
            if inherited:
                a = rng.choice(inherited)
                props[a] = prop_spec(rng)
        doc["classes"][name] = {"k": "Obj", "name": name, "base": ("C%d" % (i - 1)) if i else None, "kw": kw, "props": props,
                                "doc": rng.choice([None, None, "Doc of %s." % name])}
        doc["order"].append(name)
    doc["root"] = {"k": "Ref", "name": "C%d" % (depth - 1)}
    return doc


def values_for(rng, doc, name, n):
    s = dslgen.spec_schema(doc, {"k": "Ref", "name": name})
    vals = [gen.gen_value(rng, s) for _ in range(n)]
    vals += [gen.lookalike(rng, vals[0])] + [rng.choice(CORPUS_VALUES)]
    return vals


def observe(cls, vals):
    from statham.serializers import serialize_json
    try:
        j = serialize_json(cls)
    except BaseException as exc:  # noqa
        j = "raised " + type(exc).__name__
    return {"verdicts": [call(cls, copy.deepcopy(v))[:2] for v in vals], "json": j, "dump": treedump.dump([cls]), "repr_props": repr(cls.properties)}


def cq_props(props):
    return cq_list(["(%s, mkProp %s %s %s)" % (cq_str(n), cq_elem(p.element), cq_bool(bool(p.required)),
                                               cq_str(p.source if p.source is not None else n)) for n, p in props.items()])


def run(tier, seed, replay=None):
    from statham.schema.elements import Object
    res = Result("C15", tier, seed)
    rng = rng_for(seed, "C15")
    stats = {"chains": 0, "classes": 0, "child_vs_flat_values": 0, "instances_checked": 0, "parent_snapshots": 0, "reconfigurations": 0,
             "keywords_passed": {}, "overrides": 0, "unmodelled": 0}
    cases, metas = [], []
    docs = [json.load(open(replay))["doc"]] if replay else [gen_chain(rng, rng.choice([2, 2, 3])) for _ in range(70 if tier == "quick" else 1000)]
    for doc in docs:
        stats["chains"] += 1
        payload = {"property": "C15", "doc": doc, "replay": "./check C15 --replay <this file>"}
        live = {}
        bad = None
        for level, name in enumerate(doc["order"]):
            spec = doc["classes"][name]
            stats["classes"] += 1
            for k in spec["kw"]:
                stats["keywords_passed"][k] = stats["keywords_passed"].get(k, 0) + 1
            # snapshot every ancestor before the child exists
            anc = list(doc["order"][:level])
            vals_by = {a: values_for(rng, doc, a, 4) for a in anc}
            before = {a: observe(live[a], vals_by[a]) for a in anc}
            stats["parent_snapshots"] += len(anc)
            sub = {"classes": {n: doc["classes"][n] for n in doc["order"][:level + 1]}, "order": doc["order"][:level + 1], "root": {"k": "Ref", "name": name}}
            try:
                child, _ = dslgen.build(sub, classes=live)          # defines `name` on the live ancestors
            except BaseException as exc:  # noqa   (e.g. a reserved attribute name: the DSL refuses the declaration)
                bad = None
                break
            # ---- the model of ObjectMeta.__new__ on this declaration --------------------------------
            try:
                own_only = dslgen.build({"classes": {name: dict(spec, base=None, doc=None)}, "order": [name], "root": {"k": "Ref", "name": name}})[0]
                parent_t = "None" if not spec["base"] else "(Some %s)" % cq_kwds(live[spec["base"]])
                cases.append("(%s, %s, %s, %s, %s, %s)" % (parent_t, cq_kwds(own_only), cq_bool("additionalProperties" in spec["kw"]),
                                                           cq_props(own_only.properties and {a: own_only.properties[a] for a in spec["props"]} or {}),
                                                           cq_option(None if spec.get("doc") is None else cq_str(spec["doc"])),
                                                           cq_kwds(child)))
                metas.append((doc, name))
            except Unmodelled:
                stats["unmodelled"] += 1
            if spec["base"]:
                parent = live[spec["base"]]
                if any(a in dslgen.merged_class(doc, spec["base"])["props"] for a in spec["props"]):
                    stats["overrides"] += 1
                # ---- child vs the single flat class with merged declarations ---------------------------
                flat_doc = {"classes": {name: dslgen.merged_class(doc, name)}, "order": [name], "root": {"k": "Ref", "name": name}}
                flat = dslgen.build(flat_doc)[0]
                vals = values_for(rng, doc, name, 6)
                oc, of = observe(child, vals), observe(flat, vals)
                stats["child_vs_flat_values"] += len(vals)
                for v, a, b in zip(vals, oc["verdicts"], of["verdicts"]):
                    if a != b:
                        bad = "subclass %s and the flat class with merged declarations disagree on %r: %r vs %r" % (name, v, a[0], b[0])
                        break
                if not bad and not strict_eq(oc["json"], of["json"]):
                    bad = "subclass %s serializes differently from the flat class with merged declarations" % name
                    payload = dict(payload, json_child=oc["json"], json_flat=of["json"])
                if not bad and ((child == flat) is not True):
                    bad = "subclass %s does not equal the flat class with merged declarations" % name
                # ---- instances of the child are instances of the parent -------------------------------
                for v, a in zip(vals, oc["verdicts"]):
                    if a[0] == "ok" and isinstance(v, dict):
                        stats["instances_checked"] += 1
                        inst = child(copy.deepcopy(v))
                        if not all(isinstance(inst, live[a2]) for a2 in anc) or not isinstance(inst, Object):
                            bad = bad or "an instance of %s is not an instance of its parent(s)" % name
                        # ... and is taken as one wherever the parent is the schema: passed through untouched
                        from statham.schema.elements import Array
                        for a2 in anc:
                            try:
                                same = live[a2](inst) is inst and Array(live[a2])([inst])[0] is inst
                            except BaseException as exc:  # noqa
                                same = "raised %s" % type(exc).__name__
                            if same is not True:
                                bad = bad or "an instance of %s given where its parent %s is the schema is not passed through (%s)" % (name, a2, same)
                # ---- reconfigure the child: the ancestors must not notice -----------------------------
                for _ in range(3):
                    r = rng.random()
                    try:
                        if r < 0.4:
                            kw = rng.choice(SIG["Obj"])
                            setattr(child, kw, live_value(kw, new_value(rng, kw)))
                        elif r < 0.7:
                            child.properties[rng.choice(dslgen.ATTRS)] = live_prop(prop_spec(rng))
                        elif child.properties:
                            del child.properties[rng.choice(sorted(child.properties))]
                        stats["reconfigurations"] += 1
                    except BaseException:  # noqa
                        pass
                    call(child, rng.choice(vals))
            # ---- definition, use and reconfiguration of the child left every ancestor as it was -----------
            for a in anc:
                after = observe(live[a], vals_by[a])
                for key in ("verdicts", "json", "repr_props"):
                    if after[key] != before[a][key] and not bad:
                        bad = "defining/using/reconfiguring %s changed how its ancestor %s %s" % (
                            name, a, {"verdicts": "validates", "json": "serializes", "repr_props": "declares its properties"}[key])
                if after["dump"] != before[a]["dump"] and not bad:
                    bad = "defining/using/reconfiguring %s changed the ancestor class %s (identity dump differs)" % (name, a)
            # restore the child for the next level: rebuild it from the spec on the same ancestors
            if spec["base"]:
                live.pop(name, None)
                dslgen.build(sub, classes=live)
            if bad:
                break
        res.count(json.dumps(doc, sort_keys=True, default=repr), nontrivial=len(doc["order"]) >= 2)
        res.sample({"classes": {n: {"base": c["base"], "kw": sorted(c["kw"]), "props": sorted(c["props"])} for n, c in doc["classes"].items()}}, limit=4)
        if bad:
            res.violation(dict(payload, kind="oracle", what=bad))
    codes, err = sc.eval_codes(["Elem", "Equality", "Canon", "Meta", "RunMeta"], "run_meta_case", cases, tag="c15", shard=80)
    res.corr_error = err
    res.corr_mismatches = [{"doc": metas[i][0], "class": metas[i][1], "what": "Meta.meta_new disagrees with the class ObjectMeta.__new__ built"}
                           for i, cs in sorted((codes or {}).items())]
    res.coverage["distribution"] = stats
    res.coverage["traces_validated_against_impl"] = len(cases)
    res.coverage["rule"] = ("class chains of depth 2-3: each level passes a random subset of the 11 class keywords and declares, overrides or leaves "
                            "properties (renamed ones included); per level: ancestors snapshotted, child defined on the live ancestors, child vs the flat "
                            "class with merged declarations (verdicts on aimed values, type-strict serialization, ==), isinstance of every ancestor, three "
                            "reconfigurations + calls on the child, ancestors compared with their snapshots (verdicts, serialization, identity dump); every "
                            "class declaration is also run through Meta.meta_new in Coq.  non-trivial = chain of >= 2 classes")
    return res
