"""C12 — every JSON name maps to a usable, unambiguous Python name."""
import ast
import copy
import json
import keyword
import os
import sys
import unicodedata

import common
import findings
import gen
import schemacase as sc
from common import Result, rng_for
from coqemit import cq_str, cq_list, cq_N

IMPORTED = {"Any", "List", "Union", "Maybe", "Property", "Element", "Nothing", "Not", "AnyOf", "OneOf", "AllOf", "Array", "Boolean",
            "Integer", "Null", "Number", "Object", "String"}


def xid_ok(a):
    return a.isidentifier() and not keyword.iskeyword(a)


def k2(name):
    """finding predicate: the name holds a code point that str.isalnum() accepts but that is not an
    identifier character, or that NFKC normalisation changes (the parser would read a different name)"""
    for ch in name:
        if ch.isalnum() and (not ("a" + ch).isidentifier() or unicodedata.normalize("NFKC", ch) != ch):
            return True
    return False


def k3(title_class):
    """finding predicate: the class name is empty, a constant keyword, or a name the generated module imports"""
    return title_class == "" or title_class in ("None", "True", "False") or title_class in IMPORTED or keyword.iskeyword(title_class)


def names_table(s):
    return [(ord(c), unicodedata.name(c, "unknown").lower()) for c in sorted(set(s)) if not c.isalnum()]


def code_point_stream(rng, tier):
    """single code points: every range endpoint (+-1) of the generated alnum table, all of ASCII/Latin-1,
    every 97th code point, random ones; each alone and inside four contexts"""
    pts = set(range(0, 0x250))
    import re
    text = open(os.path.join(common.COQ, "Generated", "Gen_unicode.v"), encoding="utf8").read()
    m = re.search(r"Definition alnum_ranges[^:]*:[^=]*:=\s*\[(.*?)\]\.", text, re.S)
    for lo, hi in re.findall(r"\((\d+)%N,\s*(\d+)%N\)", m.group(1) if m else ""):
        for x in (int(lo) - 1, int(lo), int(hi), int(hi) + 1):
            if 0 <= x < 0x110000:
                pts.add(x)
    step = 97 if tier == "quick" else 7
    pts.update(range(0, 0x110000, step * 50 if tier == "quick" else step * 10))
    for _ in range(300 if tier == "quick" else 20000):
        pts.add(rng.randrange(0x110000))
    pts = sorted(p for p in pts if not (0xD800 <= p <= 0xDFFF))
    out = []
    for p in pts:
        ch = chr(p)
        out.append(ch)
        if tier != "quick" or p % 3 == 0:
            out += ["a" + ch + "b", "_" + ch + "_", ch + ch, "1" + ch]
    return out


def string_stream(rng, n):
    alphabet = list("abzAZ09_- \t.$<>/\\'\"é²日🙂") + ["class", "def", "self", "__init__", "None", "items"]
    out = ["", "class", "def", "_dict", "__class__", "a b", "a-b", "a_b", "a\tb", "class_", "None", "1abc", "日本", "a²", "$ref", "<", "foo bar",
           "fooBar", "foo_bar", "FOO", "string", "object", "list", "x" * 40, "__", "-", " ", "a  b", "a__b", "match", "_", "Ünï"]
    out += sorted(dir(object)) + ["__dict__", "__weakref__", "__module__", "__slots__"] + list(keyword.kwlist)
    # the same names written with separators where the underscores are (they become reserved only after the mapping)
    for r in sorted(dir(object)) + ["_dict", "__dict__", "__weakref__"]:
        out += [r.replace("_", "-"), r.replace("_", " "), r.replace("__", "- ", 1), "-" + r.lstrip("_") if r.startswith("_") else " " + r]
    out += ["-dict", " dict", "--init--", "--class--", "- dict -", "__eq--", "class-", "def ", "-class", "a - $"]
    for _ in range(n):
        out.append("".join(rng.choice(alphabet) for _ in range(rng.randint(1, 6))))
    return out


def run(tier, seed, replay=None):
    from statham.schema.parser import _parse_attribute_name, _title_format, parse_element, parse
    from statham.schema.elements.meta import RESERVED_PROPERTIES, ObjectMeta
    from statham.serializers.orderer import get_object_classes
    res = Result("C12", tier, seed)
    rng = rng_for(seed, "C12")
    stats = {"names": 0, "code_points": 0, "k2_names": 0, "k3_titles": 0, "objects_parsed": 0, "sibling_pairs": 0, "k1_collisions": 0,
             "documents": 0, "class_names": 0, "modules_compiled": 0}
    inputs = [json.load(open(replay))["name"]] if replay else code_point_stream(rng, tier) + string_stream(rng, 300 if tier == "quick" else 5000)
    cases, metas = [], []
    for n in inputs:
        stats["names"] += 1
        if len(n) == 1:
            stats["code_points"] += 1
        try:
            a = _parse_attribute_name(n)
            t = _title_format(n)
        except BaseException as exc:  # noqa
            res.violation({"property": "C12", "kind": "oracle", "name": n, "what": "name mapping raised %s" % type(exc).__name__})
            continue
        res.count(n, nontrivial=not n.isascii() or not n.isalnum())
        why = None
        if not xid_ok(a):
            why = "attribute name %r is not a usable identifier" % a
        elif a in RESERVED_PROPERTIES or hasattr(object(), a) or keyword.iskeyword(a) or a in ("_dict", "__dict__", "__weakref__"):
            # read off the interpreter, not off the library's own list: an attribute every instance already has (or cannot take)
            why = "attribute name %r is a reserved attribute (an attribute of every object / a keyword / the model's own storage)" % a
        if why:
            if k2(n):
                stats["k2_names"] += 1
            res.violation({"property": "C12", "kind": "oracle", "finding": "C12-K2" if k2(n) else None, "name": n, "attribute": a, "what": why,
                           "replay": "./check C12 --replay <this file>"})
        if t and not (xid_ok(t) or k3(t)):
            res.violation({"property": "C12", "kind": "oracle", "name": n, "class_name": t, "what": "class name %r is not a usable identifier" % t})
        if len(cases) < (6000 if tier == "quick" else 60000) or len(n) > 1:
            cases.append("(%s, %s, %s, %s)" % (cq_list(["(%s, %s)" % (cq_N(c), cq_str(nm)) for c, nm in names_table(n)]),
                                               cq_str(n), cq_str(a), cq_str(t)))
            metas.append(n)
    res.sample({"name": "a<b", "attribute": _parse_attribute_name("a<b"), "class_name": _title_format("a<b")})
    res.sample({"name": "foo bar", "attribute": _parse_attribute_name("foo bar"), "class_name": _title_format("foo bar")})
    # ---- siblings of one object: distinct JSON names -> distinct attributes, source kept ------------------
    pool = ["a", "b", "a b", "a-b", "a_b", "a\tb", "class", "class_", "def", "$id", "$id_", "a<b", "a_less_than_sign_b", "é", "x y", "x_y", "1", "_1",
            "", "blank", "self", "items", "日本", "a.b", "a_full_stop_b", "A", "a", "from_", "in_", "import_", "from", "not_",
            "o\ufb03ce", "office", "x\u00b2", "x2"]
    FIXED_SIBLINGS = [["o\ufb03ce", "office"], ["x\u00b2", "x2"], ["cla\u017fs", "a"], ["i\uff4e", "b"], ["\u212bngstrom", "\u00c5ngstrom"], ["from_", "from"],
                      ["a b", "a  b"], ["amount (net)", "amount(net)"], ["price $", "price$"]]
    for it in range(0 if replay else (len(FIXED_SIBLINGS) * 2 + (150 if tier == "quick" else 3000))):
        names = list(FIXED_SIBLINGS[it // 2]) if it < len(FIXED_SIBLINGS) * 2 else rng.sample(sorted(set(pool)), rng.randint(2, 5))
        typed = (it % 2 == 0) if it < len(FIXED_SIBLINGS) * 2 else rng.random() < 0.6
        declared_n = names if not typed else names[:max(1, len(names) - rng.randint(0, 2))]
        s = {"properties": {n: {"type": rng.choice(["string", "integer"])} for n in declared_n}}
        if typed:
            # the names left over are only REQUIRED, not declared: an object class gets a property for each of them as well
            s.update({"type": "object", "title": "T", "required": [n for n in names if n not in declared_n] + declared_n[:1]})
        try:
            e = parse_element(copy.deepcopy(s))
        except BaseException as exc:  # noqa
            continue
        stats["objects_parsed"] += 1
        props = e.properties
        sources = sorted(p.source for p in props.values())
        res.count("siblings:" + json.dumps(sorted(names)), nontrivial=True)
        stats["sibling_pairs"] += len(names) * (len(names) - 1) // 2
        if sources != sorted(names):
            port = {}
            for n in names:
                port.setdefault(findings.attr_name(n), []).append(n)
            predicted = any(len(v) > 1 for v in port.values())
            if predicted:
                stats["k1_collisions"] += 1
            lost = sorted(set(names) - set(sources))
            fid = "C12-K1" if predicted and len(props) == len(port) else None
            if fid is None and lost == [""] and len(props) == len(names):
                fid = "C12-K4"
            res.violation({"property": "C12", "kind": "oracle", "finding": fid,
                           "schema": s, "lost_names": lost,
                           "what": "sibling property names %r collapse: %d names, %d properties (lost %r)" % (names, len(names), len(props), lost)})
        for attr, p in props.items():
            if p.source in names and attr != _parse_attribute_name(p.source):
                res.violation({"property": "C12", "kind": "oracle", "schema": s,
                               "what": "the property for the JSON name %r is stored under the attribute %r, the name mapping gives %r" % (p.source, attr, _parse_attribute_name(p.source))})
            if p.name != attr or p.source not in names:
                res.violation({"property": "C12", "kind": "oracle", "schema": s, "finding": "C12-K4" if ("" in names and attr == "blank" and p.source == "blank") else None,
                               "what": "property %r does not record its JSON name (source=%r)" % (attr, p.source)})
        # the generated module records the same JSON names: executed, its class has a property for every name, under the same source
        if typed and sources == sorted(names) and not any(k2(n) for n in names) and "" not in names:
            try:
                from statham.serializers import serialize_python as _sp
                from props.c02 import exec_fresh
                ns = exec_fresh(_sp(e))
                got = sorted(p.source for p in ns["T"].properties.values())
                stats["modules_sources_checked"] = stats.get("modules_sources_checked", 0) + 1
                if got != sources:
                    res.violation({"property": "C12", "kind": "oracle", "schema": s,
                                   "what": "the class obtained by executing the generated module records the JSON names %r, the parsed class %r" % (got, sources)})
            except BaseException:  # noqa   (what the generator cannot express is C02's subject)
                pass
        # the same schema OBJECT met at several positions (what $ref resolution produces) and parsed again: the JSON names stay recorded
        inner = copy.deepcopy(s)
        outer = {"type": "object", "title": "Outer", "properties": {"first": inner, "second": inner}, "additionalProperties": inner}
        try:
            o1 = parse_element(outer)
            o2 = parse_element(outer)          # the document as the first pass left it
        except BaseException:  # noqa
            continue
        stats["shared_objects_parsed"] = stats.get("shared_objects_parsed", 0) + 1
        for label, o in (("first parse", o1), ("second parse of the same document", o2)):
            for where, sub in (("first", o.properties["first"].element), ("second", o.properties["second"].element), ("additionalProperties", o.additionalProperties)):
                got = sorted(p.source for p in getattr(sub, "properties", {}).values())
                if got != sources:
                    res.violation({"property": "C12", "kind": "oracle", "schema": s, "position": where, "pass": label,
                                   "what": "the schema object met again at %r (%s) records the JSON names %r, not %r" % (where, label, got, sources)})
                    break
    # ---- whole documents: class names distinct, valid, not shadowing imports; module compiles ----------------
    from statham.serializers import serialize_python
    for _ in range(0 if replay else (120 if tier == "quick" else 2000)):
        cfg = gen.Cfg(max_depth=3, titles=["Foo", "foo", "Foo Bar", "fooBar", "Item", "item 1", "A", "Thing", "string", "none", "1abc", "list"])
        s = gen.gen_schema(rng, cfg, force_kind=rng.choice(["object", "multi", "comp", "array"]))
        if not isinstance(s, dict):
            continue
        if rng.random() < 0.4:
            s.setdefault("definitions", {})["d"] = gen.gen_schema(rng, cfg, force_kind="object")
        try:
            elems = parse(copy.deepcopy(s))
        except BaseException:  # noqa
            continue
        stats["documents"] += 1
        classes = get_object_classes(*elems)
        distinct = []
        for c in classes:
            if not any(c is d for d in distinct):
                distinct.append(c)
        names = [c.__name__ for c in distinct]
        stats["class_names"] += len(names)
        res.count("doc:" + json.dumps(s, sort_keys=True, default=repr), nontrivial=len(names) >= 2)
        if len(set(names)) != len(names):
            res.violation({"property": "C12", "kind": "oracle", "schema": s, "class_names": names,
                           "what": "two different classes of one document share the name %r" % [n for n in names if names.count(n) > 1][0]})
            continue
        bad = [n for n in names if not xid_ok(n) or n in IMPORTED]
        if bad:
            stats["k3_titles"] += 1
            res.violation({"property": "C12", "kind": "oracle", "finding": "C12-K3" if all(k3(n) for n in bad) else None, "schema": s,
                           "what": "class name(s) %r unusable or shadowing an imported name" % bad})
            continue
        if any(k2(p) for c in distinct for p in (x.source or "" for x in c.properties.values())) or findings.k1(s):
            continue
        try:
            text = serialize_python(*elems)
            tree = ast.parse(text)
            stats["modules_compiled"] += 1
            declared = [n.name for n in tree.body if isinstance(n, ast.ClassDef)]
            if len(set(declared)) != len(declared):
                res.violation({"property": "C12", "kind": "oracle", "schema": s, "what": "generated module declares a class name twice: %r" % declared})
        except SyntaxError as exc:
            res.violation({"property": "C12", "kind": "oracle", "schema": s, "what": "generated module is not valid Python: %s" % exc})
        except BaseException:  # noqa   (other generator errors belong to C02/C11)
            pass
    # ---- automatic titles of untitled schemas (statham/titles.py) vs Titles.v ---------------------------------------
    from statham.titles import _get_title_from_reference
    SEGS = ["properties", "items", "definitions", "anyOf", "oneOf", "allOf", "not", "0", "1", "12", "007", "x", "Foo bar", "additionalProperties",
            "patternProperties", "\u00b2", "\u0663", "a.b", "item", "Items", "anyof", "-1", "1a", "value", "list", "dependencies", "a~1b", "\u65e5\u672c"]
    tcases, tmetas = [], []
    for i in range(0 if replay else (400 if tier == "quick" else 6000)):
        name = rng.choice(["schema.json", "a.b.yaml", "noext", ".hidden", "x.y.z", "s"])
        base = rng.choice(["", "dir/", "/abs/dir/", "http://host/p/"])
        segs = [rng.choice(SEGS) for _ in range(rng.randint(0, 6))]
        ref = base + name + "#/" + "/".join(segs)
        try:
            got = _get_title_from_reference(ref)
        except BaseException as exc:  # noqa
            res.violation({"property": "C12", "kind": "oracle", "reference": ref, "what": "_get_title_from_reference raised %s" % type(exc).__name__})
            continue
        stats["auto_titles"] = stats.get("auto_titles", 0) + 1
        digits = sorted(set(s for s in segs if s.isdigit()))
        tcases.append("(%s, %s, %s, %s)" % (cq_str(name), cq_list([cq_str(s) for s in segs]), cq_list([cq_str(s) for s in digits]), cq_str(got)))
        tmetas.append(ref)
        cls = _title_format(got)
        if cls and not (xid_ok(cls) or k3(cls)):
            res.violation({"property": "C12", "kind": "oracle", "reference": ref, "class_name": cls, "what": "class name %r of an automatic title is not a usable identifier" % cls})
    tcodes, terr = sc.eval_codes(["Titles"], "run_title_case", tcases, tag="c12t", shard=700) if tcases else ({}, None)
    codes, err = sc.eval_codes(["Names", "RunNames"], "run_names_case", cases, tag="c12", shard=700)
    res.corr_error = err or terr
    res.corr_mismatches = [{"name": metas[i], "codes": cs, "what": "Names.v disagrees with the implementation: 1=_parse_attribute_name, 2=_title_format"}
                           for i, cs in sorted((codes or {}).items())]
    res.corr_mismatches += [{"reference": tmetas[i], "codes": cs, "what": "Titles.v disagrees with _get_title_from_reference"}
                            for i, cs in sorted((tcodes or {}).items())]
    res.witness_status = {"C12-K1": "fails" if stats["k1_collisions"] else "not-exercised", "C12-K2": "fails" if stats["k2_names"] else "not-exercised",
                          "C12-K3": "fails" if stats["k3_titles"] else "not-exercised"}
    res.coverage["distribution"] = stats
    res.coverage["traces_validated_against_impl"] = len(cases) + len(tcases)
    res.coverage["rule"] = ("names: single code points (all of U+0000-U+024F, every endpoint +-1 of the interpreter's alnum ranges, strided and random "
                            "points over the 17 planes) alone and in four contexts, plus random strings over an alphabet of separators, symbols, "
                            "non-ASCII letters and reserved words; each through the real functions, the identifier/keyword/reserved oracle and "
                            "Names.v in Coq.  Objects with 2-5 sibling names from a collision-prone pool; documents with repeated titles.  "
                            "non-trivial = name with a non-ASCII or non-alphanumeric character; distinct = distinct input")
    return res
