"""C05 — defaults fill omitted values and never override supplied ones."""
import copy
import itertools
import json
import re
import warnings

import common
import dslgen
import gen
import schemacase as sc
from canon import canon_result, Unmodelled
from common import Result, rng_for
from props.c18 import walk

NP = sc.NP


def is_np(x):
    from statham.schema.constants import NotPassed
    return isinstance(x, NotPassed)


def quiet_call(e, v):
    """-> ('ok', result) | ('rej', None) | ('terr', None) | ('crash:<T>', None);  v may be NP"""
    from statham.schema.constants import NotPassed
    from statham.schema.exceptions import ValidationError
    arg = NotPassed() if v is NP else copy.deepcopy(v)
    try:
        with warnings.catch_warnings():
            warnings.simplefilter("ignore")
            with common.time_limit(20):
                return "ok", e(arg)
    except ValidationError:
        return "rej", None
    except TypeError:
        return "terr", None
    except BaseException as exc:  # noqa
        return "crash:" + type(exc).__name__, None


def canon(r):
    try:
        return canon_result(r)
    except Unmodelled:
        return ["unmodelled", repr(r)]


def default_of(e):
    from statham.schema.constants import NotPassed
    return getattr(e, "default", NotPassed())


def check_no_value(e):
    """(a): e() with no value -> its default on the stated terms, or NotPassed; never an error"""
    tag, r = quiet_call(e, NP)
    d = default_of(e)
    if tag != "ok":
        return "calling with no value raised (%s)" % tag
    if is_np(d):
        return None if is_np(r) else "no default, yet calling with no value returned %r instead of NotPassed" % (r,)
    t2, r2 = quiet_call(e, d)
    if t2 == "ok":
        if canon(r) != canon(r2):
            return "the default is valid for the element but the no-value call did not return it converted as if supplied"
        # the result is the caller's: editing it must not change what the NEXT no-value call yields
        before = canon(r)
        try:
            if isinstance(r, list):
                r.append("__edited__")
            elif isinstance(r, dict):
                r["__edited__"] = 1
            elif hasattr(r, "_dict") and isinstance(r._dict, dict):
                r._dict["__edited__"] = 1
        except BaseException:  # noqa
            pass
        # (where the result IS the default object - an element that hands values back as they are - the edit went into the default
        #  itself, so the law is restated on the default as it is now)
        t3, r3 = quiet_call(e, NP)
        t4, r4 = quiet_call(e, default_of(e))
        if t3 != "ok" or t4 != "ok" or canon(r3) != canon(r4):
            return "a second no-value call, made after the first result was edited in place, yields %r, not the default converted as if supplied (%r)" % (r3, r4)
        return None
    if t2 in ("rej", "terr"):
        same = canon(r) == canon(d) if not isinstance(r, (dict, list)) or True else False
        return None if (r is d or (type(r) is type(d) and r == d)) and same else "the default is not valid for the element, yet the no-value call did not return it as-is"
    return None      # a crashing default is C10's subject


def object_like(e):
    from statham.schema.elements.meta import ObjectMeta
    props = getattr(e, "properties", None)
    return isinstance(props, dict) and len(props) > 0 and (isinstance(e, ObjectMeta) or type(e).__name__ == "Element")


def pattern_matched(e, source):
    pats = getattr(e, "patternProperties", None)
    if not isinstance(pats, dict):
        return False
    for p in pats:
        try:
            if re.search(p, source):
                return True
        except re.error:
            pass
    return False


def member_of(result, name):
    from statham.schema.elements import Object
    if isinstance(result, Object):
        try:
            attr = getattr(result, name) if name in type(result).properties else KeyError
        except AttributeError:
            attr = AttributeError                    # a declared property that is not readable: compared (unequal) below
        return result._dict.get(name, KeyError), attr
    if isinstance(result, dict):
        return result.get(name, KeyError), result.get(name, KeyError)
    return KeyError, KeyError


def value_for(rng, doc_like_schema):
    return gen.gen_value(rng, doc_like_schema if isinstance(doc_like_schema, dict) else {})


def run(tier, seed, replay=None):
    from statham.serializers.json import serialize_json  # only to aim values at a property's element
    res = Result("C05", tier, seed)
    rng = rng_for(seed, "C05")
    stats = {"elements_no_value": 0, "with_default": 0, "default_valid": 0, "default_invalid": 0, "objects": 0, "subsets": 0, "accepted_subsets": 0,
             "omitted_with_default": 0, "supplied_checked": 0, "renamed_omitted_with_default": 0, "findings": {}}
    docs = [json.load(open(replay))["doc"]] if replay else []
    if not replay:
        docs += TEMPLATES
        for _ in range(160 if tier == "quick" else 2500):
            d = dslgen.gen_doc(rng, dslgen.Cfg(max_depth=rng.choice([1, 2, 3]), p_default=0.45))
            # class-level defaults shaped like the class: right keys, one member possibly of the wrong type
            for name, c in d["classes"].items():
                if c["props"] and rng.random() < 0.5:
                    dv = gen.gen_value(rng, dslgen.spec_schema(d, {"k": "Ref", "name": name}))
                    if isinstance(dv, dict):
                        if dv and rng.random() < 0.5:
                            k0 = rng.choice(sorted(dv))
                            dv[k0] = rng.choice(["eighty", None, [], 1.5, {"x": 1}])
                        c["kw"]["default"] = dv
            docs.append(d)
    cases, metas = [], []
    for doc in docs:
        payload = {"property": "C05", "doc": doc, "replay": "./check C05 --replay <this file>"}
        objs = {}
        try:
            root, classes = dslgen.build(doc, objs)
        except BaseException as exc:  # noqa
            # a tree that can be declared once its class-level defaults are taken away: the default is what raised, and the
            # statement says a default is handed back as-is, "never an error", whatever JSON value it is
            bare = copy.deepcopy(doc)
            for c in bare["classes"].values():
                c["kw"].pop("default", None)
            try:
                dslgen.build(bare)
            except BaseException:  # noqa
                continue
            stats["undeclarable_defaults"] = stats.get("undeclarable_defaults", 0) + 1
            res.violation(dict(payload, kind="oracle", what="declaring a model class with its default raised %s: %s (without the class "
                               "defaults the same tree is declared fine)" % (type(exc).__name__, str(exc)[:120])))
            continue
        elems, _ = walk(root)
        for c in classes.values():
            walk(c, set(id(x) for x in elems), elems, [])
        # the live element's default IS the declared one (the laws below read the live attribute)
        for sid, spec in list(objs.get("__specs__", {}).items()):
            live = objs[sid]
            if spec["k"] == "Obj":
                m = dslgen.merged_class(doc, spec["name"])
                if "default" in m["props"]:
                    continue                                   # K14's subject
                declared = m["kw"].get("default", NP)
            elif spec["k"] in ("Not", "AnyOf", "OneOf", "AllOf"):
                declared = spec.get("default", NP)
            else:
                declared = spec.get("kw", {}).get("default", NP)
            d = default_of(live)
            stats["declared_defaults_compared"] = stats.get("declared_defaults_compared", 0) + 1
            same = is_np(d) if declared is NP else ((not is_np(d)) and json.dumps(d, sort_keys=True, default=repr) == json.dumps(declared, sort_keys=True, default=repr))
            if not same:
                res.violation(dict(payload, kind="oracle", element=repr(live)[:200],
                                   what="declared with default %r, the element carries %r: its no-value call cannot yield its own default"
                                        % (None if declared is NP else declared, "NotPassed" if is_np(d) else d)))
        res.count(json.dumps(doc, sort_keys=True, default=repr), nontrivial=any(not is_np(default_of(e)) for e in elems))
        for e in elems:
            stats["elements_no_value"] += 1
            d = default_of(e)
            if not is_np(d):
                stats["with_default"] += 1
                stats["default_valid" if quiet_call(e, d)[0] == "ok" else "default_invalid"] += 1
            why = check_no_value(e)
            if why:
                fid = None
                _props = getattr(e, "properties", None)
                if isinstance(_props, dict) and "default" in _props and type(e).__name__ == "ObjectMeta":
                    fid = "C05-K14"
                res.violation(dict(payload, kind="oracle", element=repr(e)[:300], finding=fid, what=why))
        # ---- objects: every subset of supplied declared properties -------------------------------------
        todo = [(e, True) for e in elems]
        if any(c.get("base") for c in doc["classes"].values()):
            # classes with a parent: once more on a FRESH build, parents before children (a class first used after its parent)
            try:
                _, fresh = dslgen.build(doc)
                todo = [(c, False) for c in sorted(fresh.values(), key=lambda c: len(c.__mro__))] + todo
                stats["parents_first_docs"] = stats.get("parents_first_docs", 0) + 1
            except BaseException:  # noqa
                pass
        for e, to_model in todo:
            if not object_like(e):
                continue
            props = list(e.properties.items())[:6]
            stats["objects"] += 1
            supplied_vals = {}
            for name, p in props:
                try:
                    s = serialize_json(p.element)
                except BaseException:  # noqa
                    s = {}
                v = value_for(rng, s)
                for _ in range(4):
                    if quiet_call(p.element, v)[0] == "ok":
                        break
                    v = value_for(rng, s)
                supplied_vals[name] = v
            subsets = list(itertools.chain.from_iterable(itertools.combinations(range(len(props)), k) for k in range(len(props) + 1)))
            if len(subsets) > (16 if tier == "quick" else 64):
                subsets = rng.sample(subsets, 16 if tier == "quick" else 64)
            obs_vals = []
            for sub in subsets:
                stats["subsets"] += 1
                inp = {}
                for i in sub:
                    name, p = props[i]
                    inp[p.source if p.source is not None else name] = copy.deepcopy(supplied_vals[name])
                obs_vals.append(inp)
                tag, r = quiet_call(e, inp)
                if tag != "ok":
                    continue
                stats["accepted_subsets"] += 1
                for i, (name, p) in enumerate(props):
                    src = p.source if p.source is not None else name
                    in_dict, as_attr = member_of(r, name)
                    if i in sub:
                        stats["supplied_checked"] += 1
                        t2, r2 = quiet_call(p.element, supplied_vals[name])
                        exp = canon(r2) if t2 == "ok" else None
                        if pattern_matched(e, src):
                            continue       # built by AllOf(element, patterns): first member's construction; C04's subject
                        if in_dict is KeyError or (exp is not None and canon(in_dict) != exp):
                            res.violation(dict(payload, kind="oracle", element=repr(e)[:200], input=inp, property_name=name,
                                               finding="C05-K13" if src != name and name in inp else None,
                                               what="supplied value of %r is not what the model exposes under %r (a supplied value must never be replaced)" % (src, name)))
                    else:
                        pd = default_of(p.element)
                        if is_np(pd):
                            exp_r = None
                            if not (in_dict is KeyError or is_np(in_dict)):
                                res.violation(dict(payload, kind="oracle", element=repr(e)[:200], input=inp, property_name=name,
                                                   what="omitted property %r without default is exposed as %r, not NotPassed" % (name, in_dict)))
                            continue
                        stats["omitted_with_default"] += 1
                        if src != name:
                            stats["renamed_omitted_with_default"] += 1
                        t3, r3 = quiet_call(p.element, NP)
                        fid = None
                        if pattern_matched(e, src):
                            fid = "C05-K12"
                        elif name == "default" or "default" in dict(props):
                            fid = "C05-K14"
                        bad = in_dict is KeyError or canon(in_dict) != canon(r3) or (as_attr is not KeyError and canon(as_attr) != canon(r3))
                        if bad:
                            stats["findings"][fid or "none"] = stats["findings"].get(fid or "none", 0) + 1
                            res.violation(dict(payload, kind="oracle", element=repr(e)[:200], input=inp, property_name=name, json_name=src, finding=fid,
                                               what="omitted property %r (JSON name %r) declares default %r but the model exposes %r under %r"
                                                    % (name, src, pd, None if in_dict is KeyError else in_dict, name)))
            if not to_model:
                continue
            try:
                obs, _ = sc.observe_elem(e, obs_vals[:8] + [NP])
                cases.append(sc.cq_ecase(doc, e, obs))
                metas.append((doc, repr(e)[:200]))
            except Unmodelled:
                pass
        try:
            obs, _ = sc.observe_elem(root, [NP] + list(doc.get("values", [])))
            cases.append(sc.cq_ecase(doc, root, obs))
            metas.append((doc, repr(root)[:200]))
        except Unmodelled:
            pass
        res.sample({"root": repr(root)[:200]}, limit=3)
    codes, err = sc.run_ecases(cases, tag="c05")
    res.corr_error = err
    res.corr_mismatches = [{"doc": metas[i][0], "element": metas[i][1], "codes": cs,
                            "what": "Validate.build disagrees with the implementation: 2=verdict class, 3=constructed result (defaults included)"}
                           for i, cs in sorted((codes or {}).items())]
    res.witness_status = {k: "fails" for k in stats["findings"] if k != "none"}
    res.coverage["distribution"] = stats
    res.coverage["traces_validated_against_impl"] = len(cases)
    res.coverage["rule"] = ("DSL trees with defaults on ~45% of elements (valid and invalid ones), templates for renamed / pattern-matched / nested "
                            "defaults and class defaults; (a) every reachable element and class called with no value and judged by the stated law; "
                            "(b,c) for every object-like element all (<=16 quick / <=64 thorough) subsets of supplied declared properties: omitted "
                            "-> the property's own no-value result under its Python name, supplied -> the construction of the supplied value; the "
                            "same calls evaluated by Validate.build in Coq.  non-trivial = tree with at least one default")
    return res


TEMPLATES = [
    {"classes": {"Host": {"k": "Obj", "name": "Host", "base": None, "doc": None, "kw": {"default": {"port": "eighty"}},
                          "props": {"port": {"e": {"k": "Integer", "kw": {}}, "required": True, "source": None}}},
                 "Deep": {"k": "Obj", "name": "Deep", "base": None, "doc": None, "kw": {"default": {"h": {"port": "eighty"}}, "additionalProperties": False},
                          "props": {"h": {"e": {"k": "Ref", "name": "Host"}, "required": False, "source": None}}}},
     "order": ["Host", "Deep"], "root": {"k": "Array", "items": {"k": "Ref", "name": "Deep"}, "kw": {}}},
    {"classes": {"Foo": {"k": "Obj", "name": "Foo", "base": None, "doc": None, "kw": {},
                         "props": {"class_": {"e": {"k": "String", "kw": {"default": "d"}}, "required": False, "source": "class"},
                                   "a": {"e": {"k": "Integer", "kw": {"default": "not an int"}}, "required": True, "source": None},
                                   "b": {"e": {"k": "Array", "items": {"k": "Integer", "kw": {}}, "kw": {"default": [1, 2]}}, "required": False, "source": None}}}},
     "order": ["Foo"], "root": {"k": "Ref", "name": "Foo"}},
    {"classes": {}, "order": [], "root": {"k": "Element", "kw": {"properties": {
        "p_1": {"e": {"k": "Number", "kw": {"default": 1}}, "required": False, "source": "p 1"},
        "x": {"e": {"k": "AnyOf", "elements": [{"k": "String", "kw": {}}, {"k": "Null", "kw": {}}], "default": None}, "required": True, "source": None},
        "name": {"e": {"k": "Not", "element": {"k": "String", "kw": {}}, "default": "s"}, "required": False, "source": None}}}}},
    {"classes": {"In": {"k": "Obj", "name": "In", "base": None, "doc": None, "kw": {"default": {"v": 3}},
                        "props": {"v": {"e": {"k": "Integer", "kw": {"default": 7}}, "required": False, "source": None}}},
                 "Out": {"k": "Obj", "name": "Out", "base": None, "doc": None, "kw": {},
                         "props": {"inner": {"e": {"k": "Ref", "name": "In"}, "required": False, "source": None},
                                   "type_": {"e": {"k": "Ref", "name": "In"}, "required": True, "source": "type"}}}},
     "order": ["In", "Out"], "root": {"k": "Ref", "name": "Out"}},
    {"classes": {"Base": {"k": "Obj", "name": "Base", "base": None, "doc": None, "kw": {},
                          "props": {"version": {"e": {"k": "Integer", "kw": {"default": 1}}, "required": False, "source": None}}},
                 "Versioned": {"k": "Obj", "name": "Versioned", "base": "Base", "doc": None, "kw": {},
                               "props": {"label": {"e": {"k": "String", "kw": {"default": "none"}}, "required": False, "source": None},
                                         "class_": {"e": {"k": "String", "kw": {"default": "k"}}, "required": False, "source": "class"}}}},
     "order": ["Base", "Versioned"], "root": {"k": "Array", "items": [{"k": "Ref", "name": "Base"}, {"k": "Ref", "name": "Versioned"}], "kw": {}}},
    {"classes": {"L": {"k": "Obj", "name": "L", "base": None, "doc": None, "kw": {"default": []}, "props": {}},
                 "S": {"k": "Obj", "name": "S", "base": None, "doc": None, "kw": {"default": ""},
                       "props": {"a": {"e": {"k": "Integer", "kw": {}}, "required": False, "source": None}}},
                 "N": {"k": "Obj", "name": "N", "base": None, "doc": None, "kw": {"default": None}, "props": {}},
                 "I": {"k": "Obj", "name": "I", "base": None, "doc": None, "kw": {"default": 5}, "props": {}},
                 "P": {"k": "Obj", "name": "P", "base": None, "doc": None, "kw": {"default": [["a", 1]]},
                       "props": {"a": {"e": {"k": "Integer", "kw": {}}, "required": False, "source": None}}},
                 "Kid": {"k": "Obj", "name": "Kid", "base": "I", "doc": None, "kw": {}, "props": {}}},
     "order": ["L", "S", "N", "I", "P", "Kid"],
     "root": {"k": "Array", "items": [{"k": "Ref", "name": n} for n in ["L", "S", "N", "I", "P", "Kid"]], "kw": {}}},
    # a pattern that matches the PYTHON name of a renamed property but not its JSON name: the property is not pattern-matched
    {"classes": {"Settings": {"k": "Obj", "name": "Settings", "base": None, "doc": None, "kw": {"patternProperties": {"^[a-z]+_[a-z]*$": {"k": "String", "kw": {}}}},
                              "props": {"class_": {"e": {"k": "String", "kw": {"default": "std"}}, "required": False, "source": "class"},
                                        "max_size": {"e": {"k": "Integer", "kw": {"default": 10}}, "required": False, "source": "max-size"}}}},
     "order": ["Settings"], "root": {"k": "Element", "kw": {"patternProperties": {"_": {"k": "Null", "kw": {}}},
                                                             "properties": {"p_1": {"e": {"k": "Number", "kw": {"default": 2}}, "required": False, "source": "p 1"},
                                                                            "s": {"e": {"k": "Ref", "name": "Settings"}, "required": False, "source": None}}}}},
    # objects met in the additionalItems position of an EMPTY tuple `items`, and under a one-member tuple: built by the class, defaults filled in
    {"classes": {"Entry": {"k": "Obj", "name": "Entry", "base": None, "doc": None, "kw": {},
                           "props": {"level": {"e": {"k": "Integer", "kw": {"default": 3}}, "required": False, "source": None},
                                     "class_": {"e": {"k": "String", "kw": {"default": "std"}}, "required": False, "source": "class"}}}},
     "order": ["Entry"], "root": {"k": "Element", "kw": {"properties": {
         "rows": {"e": {"k": "Array", "items": [], "kw": {"additionalItems": {"k": "Ref", "name": "Entry"}, "default": [{}]}}, "required": False, "source": None},
         "more": {"e": {"k": "Element", "kw": {"items": [], "additionalItems": {"k": "Ref", "name": "Entry"}}}, "required": False, "source": None},
         "one": {"e": {"k": "Array", "items": [{"k": "Ref", "name": "Entry"}], "kw": {"additionalItems": {"k": "Ref", "name": "Entry"}}}, "required": False, "source": None}}}},
     "values": [{"rows": [{}]}, {"more": [{}, {"level": 1}]}, {"one": [{}, {}]}, {}]},
    {"classes": {}, "order": [], "root": {"k": "Element", "kw": {"patternProperties": {"^a": {"k": "Integer", "kw": {}}},
                                                                   "properties": {"a": {"e": {"k": "Integer", "kw": {"default": 5}}, "required": False, "source": None},
                                                                                  "b": {"e": {"k": "Integer", "kw": {"default": 6}}, "required": False, "source": None}}}}},
]
