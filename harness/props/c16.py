"""C16 — format checking consults exactly the registered checker."""
import json
import uuid as uuidlib
import warnings

import common
import schemacase as sc
from common import Result, rng_for
from coqemit import cq_json, cq_str, cq_list, cq_bool

NAMES = ["uuid", "date-time", "fmtA", "fmtB", "x-y", "", "Ünï", "email", "UUID", "fmta", "Date-Time", "FMTB"]   # names are case-sensitive keys
# the format names of the JSON Schema drafts: none of them is registered by the library (apart from the two above), so none may reject
NAMES += ["ipv4", "ipv6", "hostname", "uri", "uri-reference", "uri-template", "json-pointer", "regex", "date", "time", "idn-email", "iri", "duration"]
STRINGS = ["", "abc", "123e4567-e89b-12d3-a456-426614174000", "2020-01-01T00:00:00Z", "a b", "é", "0", "zz", "127.0.0.1", "::1", "a@b.c", "(", "2020-01-01"]
NONSTR = [1, 0, None, True, False, 1.5, ["abc"], {"abc": "abc"}, []]


class Recorder:
    def __init__(self, accepted, log, ident):
        self.accepted, self.log, self.ident = set(accepted), log, ident

    def __call__(self, value):
        self.log.append((self.ident, value))
        return value in self.accepted


def make_checker(accepted, log, ident):
    """the same kind of checker as Recorder, as a closure: every one of them has the same __qualname__ / __module__ / code object"""
    def checker(value):
        log.append((ident, value))
        return value in accepted
    return checker


class AllowList:
    """a registered checker that is a callable OBJECT whose truth value is false (an empty container with __call__)"""
    def __init__(self, allowed):
        self.allowed = allowed
        self.calls = []

    def __len__(self):
        return 0

    def __call__(self, value):
        self.calls.append(value)
        return value in self.allowed


def unusual_checkers(res, stats):
    """registered is registered, whatever kind of callable the checker is; and a string is rejected on account of a format only when
    the checker RETURNED false - a checker that raises has said nothing, its exception is the caller's to see"""
    from statham.schema.validation.format import format_checker as fc
    from statham.schema.elements import String, Element, Not
    from statham.schema.exceptions import ValidationError
    saved = dict(fc._callable_register)

    def outcome(el, v):
        with warnings.catch_warnings(record=True) as w:
            warnings.simplefilter("always")
            try:
                el(v)
                k = "ok"
            except ValidationError:
                k = "rej"
            except BaseException as exc:  # noqa
                k = "raised:" + type(exc).__name__
        return k, any(issubclass(x.category, RuntimeWarning) for x in w)
    try:
        for allowed in (set(), {"red"}):
            chk = AllowList(allowed)
            fc.register("c16-allow")(chk)
            for el in (String(format="c16-allow"), Element(format="c16-allow")):
                for v in ("red", "blue"):
                    got = outcome(el, v)
                    want = ("ok" if v in allowed else "rej", False)
                    stats["unusual_checker_calls"] = stats.get("unusual_checker_calls", 0) + 1
                    if got != want or chk.calls[-1:] != [v]:
                        res.violation({"property": "C16", "kind": "oracle", "history": "register('c16-allow')(<callable object with len() == 0, allows %r>); check %r" % (sorted(allowed), v),
                                       "what": "a registered checker object whose truth value is false: outcome %r (warned=%r), expected %r without warning, checker consulted exactly once"
                                               % (got[0], got[1], want[0])})

        def natural(value):
            return int(value) >= 0          # raises ValueError on a string that is not a number

        def picky(value):
            if value == "t":
                raise TypeError("no")
            return value == "y"
        fc.register("c16-natural")(natural)
        fc.register("c16-picky")(picky)
        for name, v, exc in (("c16-natural", "abc", "ValueError"), ("c16-picky", "t", "TypeError")):
            for el, label in ((String(format=name), "String"), (Element(format=name), "Element")):
                got = outcome(el, v)
                stats["unusual_checker_calls"] = stats.get("unusual_checker_calls", 0) + 1
                if got[0] == "rej":
                    res.violation({"property": "C16", "kind": "oracle", "history": "register(%r)(<checker raising %s on %r>); %s(format=%r)(%r)" % (name, exc, v, label, name, v),
                                   "what": "the string was REJECTED on account of the format although the registered checker did not return false (it raised %s)" % exc})
            if exc == "TypeError":
                continue          # compositions take a TypeError from below for a rejection (tolerated by C10's statement): not this property's business
            got = outcome(Not(String(format=name)), v)
            if got[0] == "ok":
                res.violation({"property": "C16", "kind": "oracle", "history": "Not(String(format=%r))(%r) with a checker raising %s" % (name, v, exc),
                               "what": "an enclosing `not` ACCEPTS the value: a rejection on account of the format was invented for a checker that raised"})
        # checkers whose answer is truthy / falsy without being a bool (a match object, 1 / 0, a list)
        import re as _re
        fc.register("c16-ticket")(_re.compile(r"^[A-Z]+-\d+$").match)
        fc.register("c16-even")(lambda v: 1 - len(v) % 2)
        fc.register("c16-chars")(lambda v: [c for c in v if c.isdigit()])
        for name, v, want in (("c16-ticket", "ABC-123", "ok"), ("c16-ticket", "abc", "rej"), ("c16-even", "ab", "ok"), ("c16-even", "", "ok"), ("c16-even", "a", "rej"),
                              ("c16-chars", "a1", "ok"), ("c16-chars", "ab", "rej")):
            for el in (String(format=name), Element(format=name)):
                got = outcome(el, v)
                stats["unusual_checker_calls"] = stats.get("unusual_checker_calls", 0) + 1
                if got != (want, False):
                    res.violation({"property": "C16", "kind": "oracle", "history": "register(%r)(<checker answering with a truthy / falsy non-bool>); check %r" % (name, v),
                                   "what": "outcome %r (warned=%r), expected %r: a string is rejected on account of a format exactly when the checker's answer is false" % (got[0], got[1], want)})
        # an unregistered format warns wherever the string sits - inside compositions too
        from statham.schema.elements import AnyOf, OneOf, AllOf, Array, Integer, Null
        from statham.schema.parser import parse_element
        nested = [("AnyOf(String(format), Integer())", AnyOf(String(format="c16-nope"), Integer()), "abc"),
                  ("OneOf(String(format), Null())", OneOf(String(format="c16-nope"), Null()), "abc"),
                  ("AllOf(String(), Element(format))", AllOf(String(), Element(format="c16-nope")), "abc"),
                  ("Array(AnyOf(String(format), Null()))", Array(AnyOf(String(format="c16-nope"), Null())), ["abc"]),
                  ("parse {'type': ['string','null'], 'format': ...}", parse_element({"type": ["string", "null"], "format": "c16-nope"}), "abc"),
                  ("Not(Not(String(format)))", Not(Not(String(format="c16-nope"))), "abc")]
        for label, el, v in nested:
            got = outcome(el, v)
            stats["unusual_checker_calls"] = stats.get("unusual_checker_calls", 0) + 1
            if got != ("ok", True):
                res.violation({"property": "C16", "kind": "oracle", "history": "%s called on %r, nothing registered under the format" % (label, v),
                               "what": "outcome %r, warning emitted: %r; an unregistered format never rejects and produces a warning" % (got[0], got[1])})
        for name, v, want in (("c16-natural", "12", "ok"), ("c16-natural", "-3", "rej"), ("c16-picky", "y", "ok"), ("c16-picky", "n", "rej")):
            got = outcome(String(format=name), v)
            if got != (want, False):
                res.violation({"property": "C16", "kind": "oracle", "history": "String(format=%r)(%r)" % (name, v), "what": "outcome %r, expected %r" % (got, want)})
    finally:
        fc._callable_register.clear()
        fc._callable_register.update(saved)


def gen_history(rng, tier):
    n = rng.randint(3, 14 if tier == "quick" else 30)
    names = rng.sample(NAMES, rng.randint(1, 4))
    ops = []
    for _ in range(n):
        if rng.random() < 0.3:
            ops.append(["reg", rng.choice(names), sorted(rng.sample(STRINGS, rng.randint(0, len(STRINGS))))])
        else:
            v = rng.choice(STRINGS) if rng.random() < 0.7 else rng.choice(NONSTR)
            ops.append(["chk", rng.random() < 0.5, rng.choice(names), v])
    return ops


def run_history(ops):
    """Execute on the implementation.  Returns (observations per op, spec violations)."""
    from statham.schema.validation.format import format_checker as fc
    from statham.schema.elements import String, Element
    from statham.schema.exceptions import ValidationError
    saved = dict(fc._callable_register)
    builtin_tables = {}
    for nm in list(saved):            # whatever the library registers at import is "registered" (uuid, date-time today)
        if nm in saved:
            acc = []
            for s in STRINGS:
                try:
                    if saved[nm](s):
                        acc.append(s)
                except BaseException:  # noqa
                    pass
            builtin_tables[nm] = acc
    log, obs, bad = [], [], []
    current = {}          # name -> ident of the checker that must be consulted (spec side)
    tables = {k: set(v) for k, v in builtin_tables.items()}
    try:
        for i, op in enumerate(ops):
            if op[0] == "reg":
                _, name, accepted = op
                ident = "r%d" % i
                # alternately an instance, a closure from one factory, a lambda from one line: "the same function again" by name only
                maker = [Recorder, make_checker, lambda acc, lg, idn: (lambda value: (lg.append((idn, value)), value in acc)[1])][len(name) % 3]
                fc.register(name)(maker(accepted, log, ident))
                current[name] = ident
                tables[name] = set(accepted)
                obs.append(None)
                continue
            _, string_class, name, v = op
            el = String(format=name) if string_class else Element(format=name)
            before = len(log)
            with warnings.catch_warnings(record=True) as w:
                warnings.simplefilter("always")
                try:
                    with common.time_limit(20):
                        el(v)
                    ok = True
                except (ValidationError,):
                    ok = False
                except TypeError:
                    ok = "TypeError"
                except BaseException as exc:  # noqa
                    ok = "crash:" + type(exc).__name__
            warned = any(issubclass(x.category, RuntimeWarning) for x in w)
            calls = log[before:]
            obs.append((ok, warned))
            # ---- the statement, directly -------------------------------------------------
            is_str = isinstance(v, str)
            registered = name in tables
            exp_warn = is_str and not registered
            if string_class and not is_str:
                exp_ok = False                    # rejected by type, not on account of the format
            elif is_str and registered:
                exp_ok = v in tables[name]
            else:
                exp_ok = True
            why = None
            if ok != exp_ok:
                why = "verdict %r, expected %r" % (ok, exp_ok)
            elif warned != exp_warn:
                why = "warning emitted=%r, expected %r" % (warned, exp_warn)
            elif name in current:
                want = [(current[name], v)] if is_str else []
                if calls != want:
                    why = "checker calls %r, expected %r (exactly the registered checker, exactly once, only for strings)" % (calls, want)
            elif calls:
                why = "a recorded checker was called for a name it is not registered under: %r" % (calls,)
            if why:
                bad.append((i, why))
    finally:
        fc._callable_register.clear()
        fc._callable_register.update(saved)
    return obs, bad, builtin_tables


def cq_history(ops, obs, builtin_tables):
    init = cq_list(["(%s, %s)" % (cq_str(k), cq_list([cq_str(s) for s in v])) for k, v in builtin_tables.items()])
    items = []
    for op, ob in zip(ops, obs):
        if op[0] == "reg":
            items.append("RReg %s %s" % (cq_str(op[1]), cq_list([cq_str(s) for s in op[2]])))
        else:
            ok, warned = ob
            items.append("RChk %s %s %s %s %s" % (cq_bool(op[1]), cq_str(op[2]), cq_json(op[3]), cq_bool(ok is True), cq_bool(warned)))
    return "(%s, %s)" % (init, cq_list(items))


# ---- built-in formats -------------------------------------------------------------------
def rfc3339_stream(rng, tier):
    """Valid RFC 3339 date-times: every field at its extremes, both separators' cases, fractions, offsets."""
    out = []
    years = ["0000", "0001", "1970", "1999", "2000", "2016", "2024", "9999"]
    mds = ["01-01", "01-31", "02-28", "04-30", "12-31", "06-30", "07-04"]
    times = ["00:00:00", "23:59:59", "12:30:45", "23:59:60", "00:00:59", "09:05:01"]
    fracs = ["", ".0", ".5", ".123", ".123456", ".123456789", ".000000001"]
    offs = ["Z", "z", "+00:00", "-00:00", "+23:59", "-23:59", "+05:30", "-08:00", "+14:00"]
    seps = ["T", "t"]
    for y in years:
        for md in mds:
            out.append("%s-%sT12:00:00Z" % (y, md))
    out.append("2024-02-29T00:00:00Z")
    out.append("2000-02-29T00:00:00Z")
    for t in times:
        for f in fracs:
            for o in offs:
                md = "12-31" if t.endswith("60") else "03-15"
                out.append("2016-%s%s%s%s%s" % (md, "T", t, f, o))
    for s in seps:
        out.append("2020-01-01%s00:00:00Z" % s)
    n = 200 if tier == "quick" else 5000
    for _ in range(n):
        y = rng.choice(years + ["%04d" % rng.randint(1, 9999)])
        m = rng.randint(1, 12)
        d = rng.randint(1, 28)
        out.append("%s-%02d-%02d%s%02d:%02d:%02d%s%s" % (y, m, d, rng.choice(seps), rng.randint(0, 23), rng.randint(0, 59),
                                                         rng.randint(0, 59), rng.choice(fracs), rng.choice(offs)))
    return out


def k7(ts):
    """finding predicate: leap second or year 0000"""
    return ts[:4] == "0000" or ts[17:19] == "60"


def run(tier, seed, replay=None):
    res = Result("C16", tier, seed)
    rng = rng_for(seed, "C16")
    stats = {"histories": 0, "ops": 0, "checks": 0, "registrations": 0, "re_registrations": 0, "warned": 0, "rejected": 0,
             "nonstring_checks": 0, "repeat_same_string_after_reregister": 0, "repeat_unregistered": 0,
             "rfc3339": 0, "uuids": 0, "k7_inputs": 0}
    if replay:
        payload = json.load(open(replay))
        hists = [payload["history"]] if "history" in payload else []
    else:
        hists = [
            [["reg", "f", ["abc"]], ["chk", True, "f", "abc"], ["reg", "f", []], ["chk", True, "f", "abc"], ["chk", False, "f", "abc"]],
            [["chk", True, "nope", "abc"], ["chk", True, "nope", "abc"], ["chk", False, "nope", "abc"], ["chk", False, "nope", 1]],
            [["reg", "uuid", []], ["chk", True, "uuid", "123e4567-e89b-12d3-a456-426614174000"], ["chk", True, "date-time", "abc"]],
            [["chk", True, "f", 1], ["chk", False, "f", None], ["reg", "f", []], ["chk", False, "f", ["abc"]], ["chk", False, "f", "abc"]],
        ]
        # every name with nothing registered by the test, against every string, through both element kinds
        # (names the library registers itself are recognised in run_history from its register)
        for nm in NAMES:
            hists.append([["chk", k, nm, s] for s in STRINGS for k in (True, False)])
        for _ in range(150 if tier == "quick" else 3000):
            hists.append(gen_history(rng, tier))
    if not replay:
        unusual_checkers(res, stats)
    cases, metas = [], []
    for ops in hists:
        obs, bad, builtin_tables = run_history(ops)
        stats["histories"] += 1
        stats["ops"] += len(ops)
        seen_reg, seen_chk, unreg_seen = {}, set(), set()
        for op, ob in zip(ops, obs):
            if op[0] == "reg":
                stats["registrations"] += 1
                if op[1] in seen_reg:
                    stats["re_registrations"] += 1
                seen_reg[op[1]] = seen_reg.get(op[1], 0) + 1
            else:
                stats["checks"] += 1
                key = (op[2], json.dumps(op[3]), seen_reg.get(op[2], 0))
                older = [(n, v, g) for (n, v, g) in seen_chk if n == op[2] and v == key[1] and g < key[2]]
                if older:
                    stats["repeat_same_string_after_reregister"] += 1
                if op[2] not in seen_reg and op[2] not in builtin_tables and isinstance(op[3], str):
                    if (op[2], key[1]) in unreg_seen:
                        stats["repeat_unregistered"] += 1
                    unreg_seen.add((op[2], key[1]))
                seen_chk.add(key)
                if not isinstance(op[3], str):
                    stats["nonstring_checks"] += 1
                if ob[1]:
                    stats["warned"] += 1
                if ob[0] is False:
                    stats["rejected"] += 1
        res.count(json.dumps(ops, sort_keys=True), nontrivial=any(o[0] == "reg" for o in ops) and any(o[0] == "chk" for o in ops))
        res.sample({"history": ops, "observed": obs}, limit=3)
        for i, why in bad[:1]:
            res.violation({"property": "C16", "kind": "oracle", "history": ops, "failing_op_index": i, "what": why,
                           "observed": obs, "replay": "./check C16 --replay <this file>"})
        if all(o is None or (o[0] in (True, False)) for o in obs):
            cases.append(cq_history(ops, obs, builtin_tables))
            metas.append(ops)
    codes, err = sc.eval_codes(["Elem", "Validate", "Format", "RunFormat"], "run_format_case", cases, tag="c16")
    res.corr_error = err
    res.corr_mismatches = [{"history": metas[i], "op_indices": cs, "what": "Format.v/Validate.v disagree with the implementation on these operations"}
                           for i, cs in sorted((codes or {}).items())]
    # ---- built-in formats (a test of third-party checkers, not a theorem) ---------------------
    if not replay or "timestamp" in (json.load(open(replay)) if replay else {}):
        from statham.schema.validation.format import format_checker as fc
        stream = [json.load(open(replay))["timestamp"]] if replay else rfc3339_stream(rng, tier)
        for ts in stream:
            stats["rfc3339"] += 1
            res.count("ts:" + ts)
            try:
                with warnings.catch_warnings():
                    warnings.simplefilter("ignore")
                    ok = fc("date-time", ts)
            except BaseException as exc:  # noqa
                ok = "crash:" + type(exc).__name__
            if ok is not True:
                if k7(ts):
                    stats["k7_inputs"] += 1
                res.violation({"property": "C16", "kind": "builtin", "finding": "C16-K7" if k7(ts) and ok is False else None,
                               "timestamp": ts, "got": ok, "what": "built-in date-time format does not accept the RFC 3339 timestamp %r" % ts})
        if not replay:
            us = [uuidlib.UUID(int=rng.getrandbits(128)) for _ in range(200 if tier == "quick" else 5000)]
            us += [uuidlib.UUID(int=0), uuidlib.UUID(int=(1 << 128) - 1)]
            for u in us:
                for text in (str(u), str(u).upper()):
                    stats["uuids"] += 1
                    res.count("uuid:" + text)
                    try:
                        ok = fc("uuid", text)
                    except BaseException as exc:  # noqa
                        ok = "crash:" + type(exc).__name__
                    if ok is not True:
                        res.violation({"property": "C16", "kind": "builtin", "uuid": text, "got": ok,
                                       "what": "built-in uuid format does not accept the canonical UUID %r" % text})
    res.witness_status = {"C16-K7": "fails" if stats["k7_inputs"] else "not-exercised"}
    res.coverage["distribution"] = stats
    res.coverage["traces_validated_against_impl"] = len(metas)
    res.coverage["rule"] = ("registration/check histories (corpus + seeded random, <=14 ops quick / <=30 thorough) over a pool of 12 format names (case variants are different names) "
                            "(both built-ins included), 8 strings and 9 non-string values, recording checkers; each check observed through "
                            "String(format=n) or Element(format=n) with warnings captured under the 'always' filter; every history is also run "
                            "through Format.v/Validate.v inside Coq.  Built-ins: enumerated RFC 3339 grammar extremes + random timestamps and "
                            "UUIDs (a test of dateutil/uuid, not a theorem).  non-trivial = history with at least one registration and one check")
    return res
