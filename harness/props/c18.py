"""C18 — an element's repr is the expression that rebuilds it."""
import ast
import inspect
import json

import common
import dslgen
import schemacase as sc
from canon import cq_elem, Unmodelled
from common import Result, rng_for
from coqemit import cq_str, cq_list, cq_nat


def namespace(classes):
    from statham.schema import elements as E
    from statham.schema.property import Property
    ns = {n: getattr(E, n) for n in E.__all__} if hasattr(E, "__all__") else {}
    for n in ("Element", "Nothing", "Not", "AnyOf", "OneOf", "AllOf", "Array", "String", "Integer", "Number", "Boolean", "Null", "Object"):
        ns[n] = getattr(E, n)
    ns["Property"] = Property
    ns.update(classes)
    return ns


def walk(e, seen=None, out=None, props=None):
    """every element object and every property object reachable from e"""
    from statham.schema.elements import Element
    from statham.schema.property import _Property
    seen = seen if seen is not None else set()
    out = out if out is not None else []
    props = props if props is not None else []
    if id(e) in seen:
        return out, props
    seen.add(id(e))
    out.append(e)
    kids = []
    for kw in ("items", "additionalItems", "contains", "additionalProperties", "propertyNames", "element"):
        v = getattr(e, kw, None)
        if isinstance(v, Element):
            kids.append(v)
        elif isinstance(v, list):
            kids += [x for x in v if isinstance(x, Element)]
    for kw in ("patternProperties", "dependencies"):
        v = getattr(e, kw, None)
        if isinstance(v, dict):
            kids += [x for x in v.values() if isinstance(x, Element)]
    v = getattr(e, "elements", None)
    if isinstance(v, list):
        kids += v
    ps = getattr(e, "properties", None)
    if isinstance(ps, dict):
        for p in ps.values():
            if isinstance(p, _Property):
                props.append(p)
                kids.append(p.element)
    for k in kids:
        walk(k, seen, out, props)
    return out, props


def shape_of(text):
    """(callee name, positional count, keyword names) of a repr text, or the bare name"""
    node = ast.parse(text, mode="eval").body
    if isinstance(node, ast.Name):
        return node.id, 0, []
    assert isinstance(node, ast.Call) and isinstance(node.func, ast.Name), text
    return node.func.id, len(node.args), [k.arg for k in node.keywords]


def expected_shape(x):
    """The statement, read directly: keyword-only parameters whose value != default, in order."""
    from statham.schema.elements.meta import ObjectMeta
    if isinstance(x, ObjectMeta):
        return x.__name__, 0, []
    params = list(inspect.signature(type(x).__init__).parameters.values())[1:]
    npos, kws = 0, []
    for p in params:
        v = getattr(x, p.name, None)
        if p.kind == p.VAR_POSITIONAL:
            npos += len(v or [])
        elif p.kind == p.KEYWORD_ONLY:
            if not (v == p.default):
                kws.append(p.name)
        else:
            npos += 1
    return type(x).__name__.lstrip("_"), npos, kws


CORPUS_DOCS = [
    {"classes": {}, "order": [], "root": {"k": "OneOf", "elements": [{"k": "String", "kw": {}}, {"k": "String", "kw": {}}]}},
    {"classes": {}, "order": [], "root": {"k": "AllOf", "elements": [{"k": "AnyOf", "elements": [{"k": "Integer", "kw": {"minimum": 1}}, {"k": "Integer", "kw": {"minimum": 1}}, {"k": "Null", "kw": {}}]}], "default": 0}},
    {"classes": {}, "order": [], "root": {"k": "Element", "kw": {"properties": {"class_": {"e": {"k": "String", "kw": {}}, "required": True, "source": "class"},
                                                                                  "a": {"e": {"k": "Element", "kw": {}}, "required": False, "source": None}},
                                                                   "additionalProperties": False, "uniqueItems": True, "required": ["a"]}}},
    {"classes": {}, "order": [], "root": {"k": "Array", "items": [{"k": "Nothing"}, {"k": "Not", "element": {"k": "Boolean", "kw": {"default": False}}, "default": None}],
                                           "kw": {"additionalItems": False, "default": [], "minItems": 0}}},
    {"classes": {}, "order": [], "root": {"k": "Element", "kw": {"default": None, "const": 0, "enum": [], "description": "", "minimum": 0}}},
]


# values that LOOK like "nothing was said" but are not the constructor's default: the unconstrained element under every element-valued
# keyword, zero / empty values under the others - each of them must appear in the repr
_E = {"k": "Element", "kw": {}}
CORPUS_DOCS += [
    {"classes": {}, "order": [], "root": {"k": "Element", "kw": {"additionalProperties": _E}}},
    {"classes": {}, "order": [], "root": {"k": "Element", "kw": {"items": [{"k": "String", "kw": {}}, {"k": "Integer", "kw": {}}], "additionalItems": _E}}},
    {"classes": {}, "order": [], "root": {"k": "Array", "items": [{"k": "String", "kw": {}}], "kw": {"additionalItems": _E}}},
    {"classes": {}, "order": [], "root": {"k": "Array", "items": _E, "kw": {"additionalItems": _E, "contains": _E}}},
    {"classes": {}, "order": [], "root": {"k": "Not", "element": {"k": "Element", "kw": {"additionalProperties": _E, "propertyNames": _E, "contains": _E, "items": _E}}}},
    {"classes": {}, "order": [], "root": {"k": "Element", "kw": {"patternProperties": {"^a": {"k": "Element", "kw": {"additionalItems": _E}}},
                                                                   "properties": {"p": {"e": {"k": "Element", "kw": {"additionalProperties": _E}}, "required": False, "source": None}},
                                                                   "dependencies": {"k": _E, "l": []}}}},
    {"classes": {}, "order": [], "root": {"k": "Element", "kw": {"minItems": 0, "minLength": 0, "minProperties": 0, "maxItems": 0, "maxLength": 0, "maxProperties": 0,
                                                                   "minimum": 0, "maximum": 0, "exclusiveMinimum": 0, "exclusiveMaximum": 0, "pattern": "", "format": "",
                                                                   "required": [], "enum": [], "dependencies": {}, "patternProperties": {}, "properties": {}, "items": []}}},
    {"classes": {}, "order": [], "root": {"k": "AnyOf", "elements": [_E, {"k": "Nothing"}], "default": False}},
    # floats whose shortest repr needs 16-17 significant digits, huge and tiny ones, in keyword and in literal positions; unsorted required lists
    {"classes": {}, "order": [], "root": {"k": "Number", "kw": {"multipleOf": 1 / 3, "minimum": 0.1 + 0.2, "maximum": 9007199254740993.0, "default": 0.1 + 0.2,
                                                                "exclusiveMaximum": 1.7976931348623157e308, "exclusiveMinimum": 5e-324}}},
    {"classes": {}, "order": [], "root": {"k": "Array", "items": {"k": "Element", "kw": {"enum": [1 / 3, 2 / 3], "const": 0.30000000000000004}}, "kw": {"default": [1e-7 / 3]}}},
    {"classes": {}, "order": [], "root": {"k": "Element", "kw": {"required": ["b", "a", "B", "name", "id"], "properties": {"p": {"e": {"k": "Element", "kw": {"required": ["z", "y"]}}, "required": True, "source": None}},
                                                                   "dependencies": {"k": ["d", "c"], "l": {"k": "Element", "kw": {"required": ["n", "m"]}}}}}},
]


def run(tier, seed, replay=None):
    from statham.schema.property import Property, _Property
    res = Result("C18", tier, seed)
    rng = rng_for(seed, "C18")
    stats = {"docs": 0, "elements": 0, "properties": 0, "free_properties": 0, "classes_seen": {}, "with_duplicates": 0, "unmodelled": 0,
             "kw_hist": {}}
    if replay:
        docs = [json.load(open(replay))["doc"]]
    else:
        docs = list(CORPUS_DOCS)
        for _ in range(250 if tier == "quick" else 4000):
            docs.append(dslgen.gen_doc(rng, dslgen.Cfg(max_depth=rng.choice([1, 2, 3]))))
    cases, metas = [], []
    for doc in docs:
        root, classes = dslgen.build(doc)
        ns = namespace(classes)
        stats["docs"] += 1
        elems, props = walk(root)
        for c in classes.values():
            walk(c, set(id(x) for x in elems), elems, props)
        # free-standing property wrappers and one bound under the empty key
        free = []
        for e in elems[:3]:
            free.append(Property(e, required=rng.random() < 0.5, source=rng.choice([None, "class", "a b", ""])))
        holder = dslgen.build({"classes": {}, "order": [], "root": {"k": "Element", "kw": {"properties": {
            "": {"e": {"k": "String", "kw": {}}, "required": False, "source": "src"}, "plain": {"e": {"k": "Null", "kw": {}}, "required": True, "source": None}}}}})[0]
        props_all = [("bound", p) for p in props] + [("free", p) for p in free] + [("bound-empty-key", p) for p in holder.properties.values()]
        for x in elems:
            stats["elements"] += 1
            cname = type(x).__name__
            stats["classes_seen"][cname] = stats["classes_seen"].get(cname, 0) + 1
            text = repr(x)
            why = None
            try:
                y = eval(text, dict(ns))
                if not ((y == x) is True and (x == y) is True):
                    why = "eval(repr(e)) != e"
            except BaseException as exc:  # noqa
                why = "eval(repr(e)) raised %s: %s" % (type(exc).__name__, str(exc)[:100])
            got = shape_of(text) if why is None else None
            exp = expected_shape(x)
            if why is None and got != exp:
                why = "printed arguments %r, expected %r (keywords at their default omitted, every other keyword present)" % (got, exp)
            if getattr(x, "elements", None) and any(a == b for i, a in enumerate(x.elements) for b in x.elements[i + 1:]):
                stats["with_duplicates"] += 1
            for k in (got[2] if got else []):
                stats["kw_hist"][k] = stats["kw_hist"].get(k, 0) + 1
            res.count(text, nontrivial=bool(got and (got[1] or got[2])))
            if why:
                res.violation({"property": "C18", "kind": "oracle", "doc": doc, "repr": text[:2000], "what": why,
                               "replay": "./check C18 --replay <this file>"})
                continue
            res.sample({"repr": text[:300], "shape": got}, limit=5)
            from statham.schema.elements.meta import ObjectMeta
            if not isinstance(x, ObjectMeta):
                try:
                    cases.append("(%s, %s, %s)" % (cq_elem(x), cq_nat(got[1]), cq_list([cq_str(k) for k in got[2]])))
                    metas.append((doc, text))
                except Unmodelled:
                    stats["unmodelled"] += 1
        # the same elements once they have validated values: a call leaves nothing on an element that == can see
        from props.c05 import quiet_call
        for v in dslgen.gen_values(rng, doc, 3):
            quiet_call(root, v)
        for sub in elems[1:4]:                      # and a few sub-elements called directly
            quiet_call(sub, rng.choice(["a", 1, None, [], {}]))
        for x in elems:
            try:
                text = repr(x)
                y = eval(text, dict(ns))
                ok = (y == x) is True and (x == y) is True
            except BaseException as exc:  # noqa
                ok = False
            stats["used_round_trips"] = stats.get("used_round_trips", 0) + 1
            if not ok:
                res.violation({"property": "C18", "kind": "oracle", "doc": doc, "repr": text[:2000],
                               "what": "after the element validated some values, eval(repr(e)) != e", "replay": "./check C18 --replay <this file>"})
                break
        for kind, p in props_all:
            stats["properties"] += 1
            if kind != "bound":
                stats["free_properties"] += 1
            text = repr(p)
            why = None
            try:
                q = eval(text, dict(ns))
                # a property is rebuilt unbound: bind it as the original is bound before comparing
                if isinstance(q, _Property) and p.name:
                    q.bind(name=p.name)
                if not ((q == p) is True and (p == q) is True):
                    why = "eval(repr(property)) != property"
            except BaseException as exc:  # noqa
                why = "eval(repr(property)) raised %s" % type(exc).__name__
            if why is None:
                name, npos, kws = shape_of(text)
                exp = []
                if p.required is not False:
                    exp.append("required")
                if p.source is not None and p.source != p.name:
                    exp.append("source")
                if (name, npos, kws) != ("Property", 1, exp):
                    why = "printed %r, expected Property with keywords %r" % ((name, npos, kws), exp)
            res.count("P:" + text, nontrivial=True)
            if why:
                res.violation({"property": "C18", "kind": "oracle-property", "doc": doc, "repr": text[:1000], "binding": kind,
                               "name": p.name, "source": p.source, "what": why})
    codes, err = sc.eval_codes(["Elem", "Repr", "RunRepr"], "run_repr_case", cases, tag="c18", shard=200)
    res.corr_error = err
    res.corr_mismatches = [{"doc": metas[i][0], "repr": metas[i][1][:500], "codes": cs,
                            "what": "Repr.repr_shape over the generated signatures disagrees with repr(): 1=positional count, 2=keyword names"}
                           for i, cs in sorted((codes or {}).items())]
    res.coverage["distribution"] = stats
    res.coverage["traces_validated_against_impl"] = len(cases)
    res.coverage["rule"] = ("DSL element trees (dslgen.py: all element classes, compositions incl. equal members, Not, Nothing, model classes with "
                            "inheritance, renamed properties) — every reachable element and property object, plus free-standing and empty-key "
                            "property wrappers: eval(repr(x)) == x both ways, printed argument shape vs the statement; the shape is also computed "
                            "by Repr.repr_shape in Coq.  non-trivial = repr carries at least one argument; distinct = distinct repr text")
    return res
