"""C02 — generated Python models accept exactly what the source schema accepts."""
import ast
import builtins
import copy
import json
import os
import warnings

import common
import schemacase as sc
from canon import cq_elem, Unmodelled
import findings
import gen
from common import Result, rng_for
from props.c05 import quiet_call
from props.c12 import k2, k3


def write_docs(files, tag):
    d = os.path.join(common.ensure_work(), "c02_%s" % tag)
    os.makedirs(d, exist_ok=True)
    for name, doc in files.items():
        with open(os.path.join(d, name), "w") as f:
            json.dump(doc, f)
    return d


def parsed_elements(path):
    from json_ref_dict import materialize, RefDict
    from statham.schema.parser import parse
    from statham.titles import title_labeller
    schema = materialize(RefDict.from_uri(path + "#/"), context_labeller=title_labeller())
    return parse(schema), schema


def distinct_classes(elems):
    from statham.serializers.orderer import get_object_classes
    out = []
    for c in get_object_classes(*elems):
        if not any(c is d for d in out):
            out.append(c)
    return out


def exec_fresh(text):
    """execute the module text in a namespace that holds nothing but builtins"""
    ns = {"__builtins__": builtins, "__name__": "generated"}
    with warnings.catch_warnings():
        warnings.simplefilter("ignore")
        exec(compile(text, "<generated>", "exec"), ns)
    return ns


def unsafe_doc(classes):
    for c in classes:
        d = getattr(c, "description", None)
        if isinstance(d, str) and ('"""' in d or d.endswith('"') or "\\" in d):
            return True
    return False


def explicit_titles(j, acc=None):
    acc = [] if acc is None else acc
    if isinstance(j, dict):
        if isinstance(j.get("title"), str):
            acc.append(j["title"])
        for v in j.values():
            explicit_titles(v, acc)
    elif isinstance(j, list):
        for v in j:
            explicit_titles(v, acc)
    return acc


def predicted_autotitles(doc, stem="main"):
    """the automatic titles of the untitled object schemas of a document, computed HERE (the rule of Titles.v) from their positions"""
    def auto(segs):
        if not segs:
            return stem
        t = segs[-1]
        if t == "items":
            return auto(segs[:-1]) + "Item"
        if t.isdigit():
            return auto(segs[:-1]) + t
        if t in ("anyOf", "oneOf", "allOf", "not"):
            return auto(segs[:-1])
        return t
    out = []

    def visit(s, segs):
        if not isinstance(s, dict) or "$ref" in s:
            return
        if s.get("type") == "object" or (isinstance(s.get("type"), list) and "object" in s["type"]):
            if not isinstance(s.get("title"), str):
                out.append(auto(segs))
        for k in ("properties", "patternProperties", "dependencies", "definitions"):
            if isinstance(s.get(k), dict):
                for name, sub in s[k].items():
                    visit(sub, segs + [k, name])
        for k in ("additionalItems", "additionalProperties", "contains", "propertyNames", "not"):
            visit(s.get(k), segs + [k])
        if isinstance(s.get("items"), list):
            for i, sub in enumerate(s["items"]):
                visit(sub, segs + ["items", str(i)])
        else:
            visit(s.get("items"), segs + ["items"])
        for k in ("anyOf", "oneOf", "allOf"):
            if isinstance(s.get(k), list):
                for i, sub in enumerate(s[k]):
                    visit(sub, segs + [k, str(i)])
    visit(doc, [])
    return out


def known_name_issue(classes, schema):
    # K3: a class name that is empty / a constant / an imported name.  The excuse is granted only when the names PREDICTED here from the
    # document (written titles and automatic titles, through the harness's own copy of the formatting rule) contain such a name
    predicted = [findings.title_format(t) for t in explicit_titles(schema) + (predicted_autotitles(schema) if isinstance(schema, dict) else [])]
    if any(k3(c.__name__) for c in classes) and any(k3(n) for n in predicted):
        return "C02-K3"
    if any(k2(p.source or "") for c in classes for p in c.properties.values()):
        return "C02-K2"
    if findings.k1(schema) if isinstance(schema, dict) else False:
        return "C02-K1"
    return None


def strip_titles(s):
    """values aimed at the source schema: the generator understands plain Draft-6"""
    return s


TEMPLATE_FILES = [
    # local $ref, definitions, a definition used twice, untitled nested objects (auto titles), repeated titles
    ({"main.json": {"title": "Root", "type": "object", "required": ["a"],
                    "properties": {"a": {"$ref": "#/definitions/thing"}, "b": {"$ref": "#/definitions/thing"},
                                   "nested": {"type": "object", "properties": {"deep": {"type": "object", "properties": {"x": {"type": "integer"}}}}},
                                   "items": {"type": "array", "items": {"type": "object", "properties": {"k": {"type": "string"}}}},
                                   "choice": {"anyOf": [{"type": "object", "properties": {"l": {"type": "null"}}}, {"type": "object", "title": "thing", "required": ["q"]}]}},
                    "definitions": {"thing": {"type": "object", "title": "Thing", "properties": {"v": {"type": "number", "default": 1.5}}}}}}, "main.json"),
    # cross-file references
    ({"main.json": {"title": "Order", "type": "object", "properties": {"customer": {"$ref": "other.json#/definitions/person"},
                                                                       "lines": {"type": "array", "items": {"$ref": "other.json#/definitions/line"}}}},
      "other.json": {"definitions": {"person": {"type": "object", "title": "Person", "properties": {"name": {"type": "string"}, "friend": {"$ref": "#/definitions/line"}}},
                                     "line": {"type": "object", "properties": {"sku": {"type": "string"}, "n": {"type": "integer", "minimum": 1}}, "required": ["sku"]}}}}, "main.json"),
    # `false` sub-schemas in every position, Not, Nothing must be imported when used
    ({"main.json": {"title": "Strict", "type": "object", "properties": {"never": False, "maybe": {"not": False}, "arr": {"type": "array", "items": False},
                                                                        "c": {"type": "array", "contains": False}, "t": {"type": "array", "items": [{"type": "string"}, False]}},
                    "propertyNames": False, "additionalProperties": False}}, "main.json"),
    # the same title in the root tree and in definitions with different content
    ({"main.json": {"title": "Cart", "type": "object", "properties": {"item": {"type": "object", "title": "Item", "properties": {"sku": {"type": "string"}}, "required": ["sku"]}},
                    "definitions": {"item": {"type": "object", "title": "Item", "properties": {"price": {"type": "number"}}, "required": ["price"]}}}}, "main.json"),
    # keywords everywhere: defaults, enum/const, tuple items, dependencies, patternProperties
    ({"main.json": {"title": "Everything", "type": "object", "default": {"s": "x"}, "minProperties": 1, "dependencies": {"s": ["n"], "n": {"required": ["s"]}},
                    "patternProperties": {"^x_": {"type": ["integer", "null"]}},
                    "properties": {"s": {"type": "string", "minLength": 1, "pattern": "^[a-z]+$", "default": "dflt"}, "n": {"type": "integer", "multipleOf": 2},
                                   "e": {"enum": [1, "a", None, [1], {"k": False}]}, "c": {"const": {"a": [1, 2]}},
                                   "t": {"type": "array", "items": [{"type": "string"}, {"type": "integer"}], "additionalItems": False, "uniqueItems": True},
                                   "class": {"type": "boolean"}, "a b": {"type": "null"}}}}, "main.json"),
]


TEMPLATE_FILES += [
    # two DIFFERENT object schemas with one title, both referenced twice (the renamed class is met again by later passes)
    ({"main.json": {"title": "Root", "type": "object",
                    "properties": {"a": {"$ref": "#/definitions/a"}, "b": {"$ref": "#/definitions/b"}, "b2": {"$ref": "#/definitions/b"},
                                   "l": {"type": "array", "items": {"$ref": "#/definitions/b"}}},
                    "definitions": {"a": {"title": "Foo", "type": "object", "properties": {"x": {"type": "string"}}},
                                    "b": {"title": "Foo", "type": "object", "properties": {"y": {"type": "integer"}}},
                                    "c": {"title": "foo", "type": "object", "properties": {"y": {"type": "integer"}, "z": {"$ref": "#/definitions/b"}}}}}}, "main.json"),
]
TEMPLATE_FILES += [
    # recorded findings: class name shadowing an import, unusable attribute name, docstring quoting
    ({"main.json": {"title": "string", "type": "object", "properties": {"s": {"type": "string"}}}}, "main.json"),
    ({"main.json": {"title": "Sq", "type": "object", "properties": {"a\u00b2": {"type": "string"}}}}, "main.json"),
    ({"main.json": {"title": "Doc", "type": "object", "description": 'ends with a quote"'}}, "main.json"),
    ({"main.json": {"type": "object", "title": "T", "properties": {"p": {"oneOf": [False], "default": 2}}}}, "main.json"),
]


# documents with hand-written verdicts of the SOURCE schema (Draft 6 read by hand): the generated root must agree with them,
# not merely with the directly parsed model (both pass through the same literal handling)
EXPECTED = {
    "literals": ({"main.json": {"title": "Lit", "type": "object",
                                "properties": {"mode": {"const": {"retry": {"limit": 3}}},
                                               "level": {"enum": [{"tags": [{"name": "a"}]}, "plain", [{"k": {"d": None}}]]},
                                               "opt": {"type": "object", "title": "Opt", "default": {"limits": {"max": [{"n": 1}]}}, "properties": {"limits": {}}}}}},
                 [({"mode": {"retry": {"limit": 3}}}, True), ({"mode": {"retry": {"limit": 4}}}, False), ({"mode": {"retry": {"limit": 3, "_x_autotitle": "retry"}}}, False),
                  ({"level": {"tags": [{"name": "a"}]}}, True), ({"level": "plain"}, True), ({"level": [{"k": {"d": None}}]}, True), ({"level": {"tags": []}}, False),
                  ({"opt": {}}, True), ({}, True)]),
}


EXPECTED["annotation-named-members"] = (
    # members NAMED like annotation keywords (examples, $comment, title, description, default, definitions ...) are ordinary members
    {"main.json": {"title": "Snippet", "type": "object", "additionalProperties": False, "required": ["name"],
                   "properties": {"name": {"type": "string"}, "examples": {"type": "array", "items": {"type": "string"}},
                                  "$comment": {"type": "string", "maxLength": 3}, "description": {"type": "integer"},
                                  "default": {"type": "boolean"}, "definitions": {"type": "null"}, "title": {"type": "string"}},
                   "patternProperties": {"^examples_": {"type": "integer"}},
                   "dependencies": {"examples": ["name"], "$comment": {"required": ["title"]}}}},
    [({"name": "a", "examples": ["x = 1"]}, True), ({"name": "a", "examples": [1]}, False), ({"name": "a", "$comment": "toolong"}, False),
     ({"name": "a", "$comment": "ok", "title": "t"}, True), ({"name": "a", "$comment": "ok"}, False), ({"name": "a", "description": "s"}, False),
     ({"name": "a", "default": True, "definitions": None, "description": 3}, True), ({"name": "a", "examples_1": "x"}, False), ({"examples": []}, False)])
EXPECTED["equal-wrappers"] = (
    # two arrays whose item classes are distinct but structurally identical: both classes are declared, each before its use
    {"main.json": {"title": "Owner", "type": "object",
                   "properties": {"cats": {"type": "array", "items": {"$ref": "#/definitions/Cat"}}, "dogs": {"type": "array", "items": {"$ref": "#/definitions/Dog"}},
                                  "birds": {"type": "array", "items": {"type": "object", "title": "Bird", "properties": {"name": {"type": "string"}}}}},
                   "definitions": {"Cat": {"type": "object", "properties": {"name": {"type": "string"}}},
                                   "Dog": {"type": "object", "properties": {"name": {"type": "string"}}}}}},
    [({"cats": [{"name": "a"}], "dogs": [{"name": "b"}], "birds": [{"name": "c"}]}, True), ({"dogs": [{"name": 1}]}, False), ({"birds": [1]}, False)])


EXPECTED["digit-keys"] = (
    {"main.json": {"title": "Ledger", "type": "object",
                   "properties": {"1": {"type": "object", "properties": {"a": {"type": "integer"}}}, "007": {"type": "object", "properties": {"b": {"type": "null"}}},
                                  "latest": {"$ref": "#/definitions/2020"}},
                   "patternProperties": {"^x9": {"type": "object", "properties": {"c": {"type": "string"}}}},
                   "definitions": {"2020": {"type": "object", "properties": {"total": {"type": "number"}}}}}},
    [({"1": {"a": 1}, "latest": {"total": 1.5}}, True), ({"1": {"a": "x"}}, False), ({"latest": {"total": "x"}}, False), ({"007": {"b": None}, "x99": {"c": "s"}}, True),
     ({"x99": {"c": 1}}, False)])


def second_generation():
    """the same process generates a SECOND document whose class has the name, property names and content of a class of the
    first, but whose nested classes are named differently: nothing of the first module may be reused"""
    def doc(inner):
        return {"main.json": {"title": "Order", "type": "object", "required": ["item"],
                              "properties": {"item": {"type": "object", "title": inner, "properties": {"name": {"type": "string"}}},
                                             "more": {"type": "array", "items": {"type": "object", "title": inner + "Part", "properties": {"n": {"type": "integer"}}}}}}}
    return [(doc("Book"), "main.json"), (doc("Toy"), "main.json"), (doc("Book"), "main.json")]


def minimal_modules():
    """documents in which each kind of sub-schema occurs exactly ONCE, in each keyword position: every name the generated module
    mentions (Property, Element, the typed elements, Not/Nothing/AnyOf..., typing names) must be imported on account of that one
    occurrence alone - the import list is inferred from the text, so this is where an inference rule can be too narrow"""
    kinds = {
        "untyped+properties": {"properties": {"id": {"type": "integer"}}, "required": ["id"]},
        "untyped+required-prop": {"properties": {"id": {}}},
        "untyped": {"minLength": 2},
        "string": {"type": "string"}, "integer": {"type": "integer"}, "number": {"type": "number"}, "boolean": {"type": "boolean"},
        "null": {"type": "null"}, "array": {"type": "array", "items": {"type": "null"}}, "array-any": {"type": "array"},
        "false": False, "not": {"not": {"type": "null"}}, "anyOf": {"anyOf": [{"type": "string"}, {"type": "null"}]},
        "oneOf": {"oneOf": [{"minimum": 1}, {"maximum": 0}]}, "allOf": {"allOf": [{"minimum": 1}, {"maximum": 5}]},
        "type-list": {"type": ["string", "null"]}, "object": {"type": "object", "title": "Inner"},
        "object+props": {"type": "object", "title": "Inner", "properties": {"x": {"type": "boolean"}}},
    }
    positions = {
        "additionalProperties": lambda k: {"additionalProperties": k},
        "patternProperties": lambda k: {"patternProperties": {"^x": k}},
        "dependencies": lambda k: {"dependencies": {"a": k}},
        "propertyNames": lambda k: {"propertyNames": k},
        "property": lambda k: {"properties": {"p": k}},
        "allOf-next-to-object": lambda k: {"allOf": [k]},
    }
    out = []
    for pn, pos in sorted(positions.items()):
        for kn, k in sorted(kinds.items()):
            if pn == "propertyNames" and kn.startswith("object"):
                continue
            doc = dict({"type": "object", "title": "Envelope"}, **pos(copy.deepcopy(k)))
            out.append(({"main.json": doc}, "main.json"))
    # the same under an array root (no object class at the top at all)
    for kn, k in sorted(kinds.items()):
        out.append(({"main.json": {"type": "array", "title": "Rows", "items": copy.deepcopy(k)}}, "main.json"))
        out.append(({"main.json": {"type": "array", "title": "Rows", "items": [copy.deepcopy(k)], "additionalItems": copy.deepcopy(k)}}, "main.json"))
    return out


def run(tier, seed, replay=None):
    from statham.__main__ import main as generate
    from statham.schema.elements.meta import ObjectMeta
    res = Result("C02", tier, seed)
    rng = rng_for(seed, "C02")
    stats = {"documents": 0, "modules": 0, "refused": 0, "classes": 0, "values": 0, "accepted": 0, "findings": {}, "cross_file": 0}
    batches = []
    eq_cases, eq_meta = [], []
    if replay:
        p = json.load(open(replay))
        batches = [(p["files"], p["entry"])]
    else:
        batches = list(TEMPLATE_FILES) + second_generation() + [(files, "main.json") for files, _ in EXPECTED.values()] + minimal_modules()
        stats["minimal_modules"] = len(minimal_modules())
        titles = ["Foo", "foo", "Bar", "Item", "Thing"]
        for i in range(90 if tier == "quick" else 1500):
            s = gen.gen_schema(rng, gen.Cfg(max_depth=3, titles=titles), force_kind=rng.choice(["object", "object", "comp", "array", "multi"]))
            if not isinstance(s, dict):
                continue
            s.setdefault("title", "Root")
            if rng.random() < 0.4:
                d = gen.gen_schema(rng, gen.Cfg(max_depth=2, titles=titles), force_kind="object")
                if rng.random() < 0.5:
                    s.setdefault("definitions", {})["shared"] = d
                    s.setdefault("properties", {})["ref_a"] = {"$ref": "#/definitions/shared"}
                    if rng.random() < 0.5:
                        s["properties"]["ref_b"] = {"$ref": "#/definitions/shared"}
                    if "properties" in s and s.get("type") not in (None, "object") and not isinstance(s.get("type"), list):
                        pass
                    batches.append(({"main.json": s}, "main.json"))
                else:
                    s.setdefault("properties", {})["ext"] = {"$ref": "lib.json#/definitions/shared"}
                    batches.append(({"main.json": s, "lib.json": {"definitions": {"shared": d}}}, "main.json"))
                continue
            batches.append(({"main.json": s}, "main.json"))
    for bi, (files, entry) in enumerate(batches):
        stats["documents"] += 1
        if len(files) > 1:
            stats["cross_file"] += 1
        d = write_docs(files, "%d" % bi)
        path = os.path.join(d, entry)
        payload = {"property": "C02", "files": files, "entry": entry, "replay": "./check C02 --replay <this file>"}
        res.count(json.dumps(files, sort_keys=True, default=repr), nontrivial=True)
        try:
            with common.time_limit(60):
                elems, schema = parsed_elements(path)
        except BaseException as exc:  # noqa   (what parsing refuses is C10/C20's subject)
            stats["refused"] += 1
            continue
        classes = distinct_classes(elems)
        fid = known_name_issue(classes, files[entry])
        if fid is None and unsafe_doc(classes):
            fid = "C02-K4"
        if fid is None:
            from props.c06 import nothing_with_default
            if nothing_with_default(classes):
                fid = "C02-K5"
        try:
            with common.time_limit(60):
                text = generate(path + "#/")
        except BaseException as exc:  # noqa
            if fid:
                stats["findings"][fid] = stats["findings"].get(fid, 0) + 1
            res.violation(dict(payload, kind="oracle", finding=fid, what="generation raised %s: %s" % (type(exc).__name__, str(exc)[:150])))
            continue
        stats["modules"] += 1
        # 1. valid Python that executes using only the imports it declares
        try:
            tree = ast.parse(text)
            ns = exec_fresh(text)
        except BaseException as exc:  # noqa
            if fid:
                stats["findings"][fid] = stats["findings"].get(fid, 0) + 1
            res.violation(dict(payload, kind="oracle", finding=fid, module=text[:3000],
                               what="the generated module does not execute with its own imports: %s: %s" % (type(exc).__name__, str(exc)[:150])))
            continue
        # 2. exactly one class per distinct object schema, each before its first use
        declared = [n.name for n in tree.body if isinstance(n, ast.ClassDef)]
        expected = [c.__name__ for c in classes]
        stats["classes"] += len(expected)
        if sorted(declared) != sorted(expected):
            if fid:
                stats["findings"][fid] = stats["findings"].get(fid, 0) + 1
            res.violation(dict(payload, kind="oracle", finding=fid, module=text[:3000],
                               what="the module declares classes %r but the document has the distinct object schemas %r" % (declared, expected)))
            continue
        # 2b. one class per DISTINCT object schema: classes that share a base name (Foo, Foo_1, Foo_2: the de-duplication suffixes)
        #     are pairwise unequal - two of them being equal means one object schema was declared twice
        import re as _re
        dup = None
        for i, a in enumerate(classes):
            for b in classes[i + 1:]:
                if _re.sub(r"_\d+$", "", a.__name__) == _re.sub(r"_\d+$", "", b.__name__) and ((a == b) is True or (b == a) is True):
                    dup = (a.__name__, b.__name__)
        if dup:
            res.violation(dict(payload, kind="oracle", module=text[:3000],
                               what="classes %s and %s are equal: one object schema was given two classes (de-duplication failed)" % dup))
            continue
        # 3. each generated class equals the model parsed directly, and validates identically
        bad = None
        for c in classes:
            g = ns.get(c.__name__)
            if not isinstance(g, ObjectMeta) or (g == c) is not True or (c == g) is not True:
                bad = "generated class %s is not equal to the class obtained by parsing the schema directly" % c.__name__
                break
            try:   # the pair, as trees, for Coq: == recomputed by Equality.elem_eq, and whether C02_equal_classes_validate_identically applies
                eq_cases.append("(%s, %s, true, true)" % (cq_elem(g), cq_elem(c)))
                eq_meta.append({"files": files, "class": c.__name__})
            except (Unmodelled, TypeError, AssertionError, RecursionError):
                stats["pairs_unmodelled"] = stats.get("pairs_unmodelled", 0) + 1
        if bad:
            if fid:
                stats["findings"][fid] = stats["findings"].get(fid, 0) + 1
            res.violation(dict(payload, kind="oracle", finding=fid, module=text[:3000], what=bad))
            continue
        root = elems[0]
        if isinstance(root, ObjectMeta):
            groot = ns[root.__name__]
            vals = [gen.gen_value(rng, files[entry]) for _ in range(6)] + [gen.lookalike(rng, gen.gen_value(rng, files[entry]))]
            for v in vals:
                a, b = quiet_call(root, v)[0], quiet_call(groot, v)[0]
                stats["values"] += 1
                stats["accepted"] += a == "ok"
                if a != b:
                    res.violation(dict(payload, kind="oracle", module=text[:3000], value=v,
                                       what="the generated root class answers %r, the directly parsed model %r" % (b, a)))
                    break
        for label, (efiles, pairs) in EXPECTED.items():
            if files is efiles and isinstance(root, ObjectMeta):
                for v, want in pairs:
                    got = quiet_call(ns[root.__name__], v)[0] == "ok"
                    stats["hand_verdicts"] = stats.get("hand_verdicts", 0) + 1
                    if got != want:
                        res.violation(dict(payload, kind="oracle", module=text[:3000], value=v,
                                           what="the source schema %s %r, the generated root class %s it" % ("accepts" if want else "rejects", v, "accepts" if got else "rejects")))
                        break
        res.sample({"entry_schema_keys": sorted(files[entry]), "classes": expected, "module_head": text[:200]}, limit=3)
    eq_cases, eq_meta = eq_cases[:600 if tier == "quick" else 4000], eq_meta[:600 if tier == "quick" else 4000]
    codes, err = sc.eval_codes(["Elem", "Equality", "RunEq"], "run_eq_case", eq_cases, tag="c02e", shard=120) if eq_cases else ({}, None)
    res.corr_error = err
    # code 9 / 10 = the pair lies in the fragment of C17's congruence (without / with object classes inside): equal => validates identically by theorem
    stats["theorem_applies"] = {"class_pairs": sum(1 for cs in (codes or {}).values() if 9 in cs or 10 in cs), "of": len(eq_cases)}
    res.corr_mismatches = [dict(eq_meta[i], codes=[c for c in cs if c not in (9, 10)], what="Equality.elem_eq disagrees with == on a generated / parsed class pair")
                           for i, cs in sorted((codes or {}).items()) if any(c not in (9, 10) for c in cs)]
    res.witness_status = {k: "fails" for k in stats["findings"]}
    res.coverage["distribution"] = stats
    res.coverage["traces_validated_against_impl"] = stats["modules"] + len(eq_cases)
    res.coverage["rule"] = ("documents written to files (templates: local and cross-file $ref, a definition used twice, untitled nested objects, repeated "
                            "titles between root tree and definitions, `false` sub-schemas in every position, all keyword families; generated schemas over a "
                            "pool of colliding titles, 40% with a local or cross-file shared definition) through statham.__main__.main; the module text is "
                            "parsed, executed in a namespace holding only builtins, its classes compared (count, names, == both ways) with the classes of "
                            "parse(materialize(doc)), and the generated root is called on values aimed at the source schema.  non-trivial = every document")
    return res
