"""C14 — concurrent validation against shared models equals sequential validation."""
import copy
import json
import sys
import threading
import time

import common
import dslgen
import treedump
from common import Result, rng_for
from props.c08 import CORPUS_VALUES, CORPUS_DOCS as C08_DOCS
from canon import canon_result, Unmodelled

YIELD_FORMAT = "verif-yield"

CORPUS_DOCS = [
    {"classes": {}, "order": [], "root": {"k": "AnyOf", "elements": [
        {"k": "String", "kw": {"format": YIELD_FORMAT, "maxLength": 2}}, {"k": "String", "kw": {"format": YIELD_FORMAT, "minLength": 4}},
        {"k": "Integer", "kw": {}}]}},
    {"classes": {}, "order": [], "root": {"k": "OneOf", "elements": [
        {"k": "String", "kw": {"format": YIELD_FORMAT, "maxLength": 3}}, {"k": "String", "kw": {"format": YIELD_FORMAT, "minLength": 3}}]}},
    {"classes": {}, "order": [], "root": {"k": "Element", "kw": {"properties": {
        "a": {"e": {"k": "AllOf", "elements": [{"k": "String", "kw": {"format": YIELD_FORMAT}}, {"k": "String", "kw": {"minLength": 2}}]}, "required": True, "source": None},
        "class_": {"e": {"k": "String", "kw": {"format": YIELD_FORMAT, "default": "d"}}, "required": False, "source": "class"}},
        "patternProperties": {"^a": {"k": "String", "kw": {"maxLength": 4}}}}}},
    {"classes": {"Base": {"k": "Obj", "name": "Base", "base": None, "doc": None, "kw": {},
                          "props": {"name": {"e": {"k": "String", "kw": {"format": YIELD_FORMAT}}, "required": True, "source": None}}},
                 "Child": {"k": "Obj", "name": "Child", "base": "Base", "doc": None, "kw": {"maxProperties": 2, "required": ["age"]},
                           "props": {"age": {"e": {"k": "Integer", "kw": {}}, "required": False, "source": None}}}},
     "order": ["Base", "Child"], "root": {"k": "Array", "items": {"k": "AnyOf", "elements": [{"k": "Ref", "name": "Child"}, {"k": "Ref", "name": "Base"}]}, "kw": {}}},
]
CORPUS_VALS = ["a", "ab", "abc", "abcd", "abcde", 1, None, {"a": "xy"}, {"a": "x"}, {"a": "abcdef"}, {"a": "ab", "class": "c"},
               [{"name": "n"}], [{"name": "n", "age": 3}], [{"name": "n", "age": 3, "x": 1}], [{"age": 3}], [{"name": 1}], [{"name": "n"}, {"name": "m", "age": 1}]]


def call(e, v):
    """thread-safe variant of props.c08.call (no signal-based time limit, warnings left alone)"""
    from statham.schema.exceptions import ValidationError
    try:
        r = e(v)
        try:
            return "ok", canon_result(r), r
        except Unmodelled:
            return "ok", repr(r), r
    except ValidationError:
        return "rej", None, None
    except TypeError:
        return "terr", None, None
    except BaseException as exc:  # noqa
        return "crash:" + type(exc).__name__, None, None


def alone(doc, v):
    root, _ = dslgen.build(doc)
    return call(root, copy.deepcopy(v))[:2]


def run_threads(root, per_thread, rounds):
    """each thread validates its own values against the shared tree; returns outcomes[thread][i]"""
    n = len(per_thread)
    outs = [[None] * (len(vs) * rounds) for vs in per_thread]
    barrier = threading.Barrier(n)
    errors = []

    def work(t):
        try:
            barrier.wait()
            k = 0
            for _ in range(rounds):
                for v in per_thread[t]:
                    outs[t][k] = call(root, copy.deepcopy(v))[:2]
                    k += 1
        except BaseException as exc:  # noqa
            errors.append("%s: %s" % (type(exc).__name__, exc))

    ths = [threading.Thread(target=work, args=(t,)) for t in range(n)]
    for th in ths:
        th.start()
    for th in ths:
        th.join(120)
    return outs, errors


def parked_schedules(res, stats, fc):
    """forced schedules: one thread is PARKED in the middle of a validation (inside a format checker reached through a property,
    an array item, propertyNames and contains) for longer than any plausible lock time-out, while other threads validate other values
    against the same tree to completion; everybody gets what the same call gives alone"""
    from statham.schema.elements import Object, String, Integer, Array, Element, AnyOf, Null
    from statham.schema.property import Property
    entered, release = threading.Event(), threading.Event()

    def park(value):
        # parks on the marked string only, so that the place where the thread waits is chosen by the value: inside the construction of
        # a property value, of an array item, of a composition member, or in the propertyNames validator
        if threading.current_thread().name == "c14-parked" and value == "PARK":
            entered.set()
            release.wait(5.0)
        return True
    fc.register("c14-park")(park)

    def build():
        limits = Object.inline("Limits", properties={"retries": Property(Integer(default=3)), "backoff": Property(Integer(default=2))}, default={"retries": 3})
        tag = Object.inline("Tag", properties={"label": Property(String(default="misc"))})
        return Object.inline("Model", properties={
            "first": Property(String(format="c14-park")), "tags": Property(Array(String(format="c14-park"))),
            "opt": Property(Integer(default=3)), "mode": Property(String(default="fast")), "limits": Property(limits),
            "labels": Property(Array(tag, default=[{"label": "x"}])),
            "any": Property(AnyOf(Array(String(), contains=String(format="c14-park")), Null()))}, propertyNames=String(format="c14-park"))
    parked_values = [{"first": "PARK"}, {"tags": ["x", "PARK"]}, {"any": ["PARK"]}, {"PARK": 1}, {"first": "a", "tags": ["PARK"], "limits": {}}]
    other_values = [{"first": "b", "tags": []}, {"opt": 1}, {}, {"tags": ["q"], "limits": {"retries": 1}}, {"first": 1}, {"labels": [{}]}, {"any": None, "mode": "m"}]
    for pv in parked_values:
        expect_p = call(build(), copy.deepcopy(pv))[:2]
        expect_o = [call(build(), copy.deepcopy(v))[:2] for v in other_values]
        shared = build()
        entered.clear()
        release.clear()
        out_p, outs_o = [], []
        tp = threading.Thread(name="c14-parked", target=lambda: out_p.append(call(shared, copy.deepcopy(pv))[:2]))
        tp.start()
        entered.wait(5.0)

        def others():
            for _ in range(2):
                outs_o.append([call(shared, copy.deepcopy(v))[:2] for v in other_values])
                time.sleep(0.12)
        workers = [threading.Thread(target=others) for _ in range(3)]
        for wk in workers:
            wk.start()
        for wk in workers:
            wk.join(30)
        release.set()
        tp.join(30)
        stats["parked_schedules"] = stats.get("parked_schedules", 0) + 1
        bad = None
        for got in outs_o:
            for v, g, e in zip(other_values, got, expect_o):
                if g != e and bad is None:
                    bad = "while another thread was parked inside a validation of %r, %r gave %r; alone it gives %r" % (pv, v, g[0] if g[0] != e[0] else g, e[0] if g[0] != e[0] else e)
        if not out_p or out_p[0] != expect_p:
            bad = bad or "the parked call on %r gave %r; alone it gives %r" % (pv, out_p[0] if out_p else "nothing (thread died)", expect_p)
        after = [call(shared, copy.deepcopy(v))[:2] for v in other_values]
        if after != expect_o and bad is None:
            bad = "after all threads have finished, the shared model answers %r where a fresh one answers %r" % (after, expect_o)
        if bad:
            res.violation({"property": "C14", "kind": "oracle", "schedule": "thread P parks inside the format checker while validating %r; three threads validate %r twice each; P resumes" % (pv, other_values),
                           "what": bad})


def run(tier, seed, replay=None):
    from statham.schema.validation.format import format_checker as fc
    from statham.schema.property import _Property
    res = Result("C14", tier, seed)
    rng = rng_for(seed, "C14")
    stats = {"trees": 0, "threads": 0, "threaded_calls": 0, "accepted": 0, "rejected": 0, "bind_yields": 0, "format_yields": 0}
    saved_reg = dict(fc._callable_register)
    saved_interval = sys.getswitchinterval()
    orig_bind = _Property.bind
    counters = {"bind": 0, "fmt": 0}

    def yielding_bind(self, name=None, parent=None):
        counters["bind"] += 1
        if counters["bind"] % 3 == 0:
            time.sleep(0)                     # give the scheduler a chance inside the shared write
        return orig_bind(self, name=name, parent=parent)

    def yielding_format(value):
        counters["fmt"] += 1
        time.sleep(0)
        return True

    docs = []
    if replay:
        p = json.load(open(replay))
        docs = [(p["doc"], p["values"])]
    else:
        docs = [(d, CORPUS_VALS) for d in CORPUS_DOCS] + [(d, CORPUS_VALUES) for d in C08_DOCS]
        for _ in range(25 if tier == "quick" else 300):
            d = dslgen.gen_doc(rng, dslgen.Cfg(max_depth=rng.choice([2, 3])))
            docs.append((d, None))
    try:
        if not replay:
            parked_schedules(res, stats, fc)
        fc.register(YIELD_FORMAT)(yielding_format)
        sys.setswitchinterval(1e-6)
        _Property.bind = yielding_bind
        n_threads = 8 if tier == "quick" else 16
        rounds = 3 if tier == "quick" else 6
        for doc, vals in docs:
            vals = list(vals) if vals is not None else dslgen.gen_values(rng, doc, 10)
            if not vals:
                continue
            _Property.bind = orig_bind
            expected = {json.dumps(v, sort_keys=True, default=repr): alone(doc, v) for v in vals}
            root, classes = dslgen.build(doc)
            before = treedump.dump([root] + list(classes.values()))
            _Property.bind = yielding_bind
            per_thread = [[rng.choice(vals) for _ in range(6)] for _ in range(n_threads)]
            outs, errors = run_threads(root, per_thread, rounds)
            _Property.bind = orig_bind
            stats["trees"] += 1
            stats["threads"] += n_threads
            payload = {"property": "C14", "doc": doc, "values": vals, "replay": "./check C14 --replay <this file>"}
            res.count(json.dumps(doc, sort_keys=True, default=repr), nontrivial=True)
            bad = None
            if errors:
                bad = "a validating thread died: %s" % errors[0]
            for t, vs in enumerate(per_thread):
                for k, o in enumerate(outs[t]):
                    v = vs[k % len(vs)]
                    stats["threaded_calls"] += 1
                    e = expected[json.dumps(v, sort_keys=True, default=repr)]
                    if o is not None:
                        stats["accepted" if o[0] == "ok" else "rejected"] += 1
                    if o != e and bad is None:
                        bad = "thread %d, value %r: concurrent outcome %r, alone %r" % (t, v, o and o[0], e[0]) if (o is None or o[0] != e[0]) \
                            else "thread %d, value %r: accepted both ways but the results differ" % (t, v)
            after = treedump.dump([root] + list(classes.values()))
            if after != before and bad is None:
                bad = "the shared element tree changed during concurrent validation"
            if bad:
                res.violation(dict(payload, kind="oracle", what=bad, threads=n_threads))
            res.sample({"tree": repr(root)[:200], "threads": n_threads, "calls_per_thread": 6 * rounds}, limit=3)
    finally:
        _Property.bind = orig_bind
        sys.setswitchinterval(saved_interval)
        fc._callable_register.clear()
        fc._callable_register.update(saved_reg)
    stats["bind_yields"] = counters["bind"] // 3
    stats["format_yields"] = counters["fmt"]
    res.coverage["distribution"] = stats
    res.coverage["traces_validated_against_impl"] = stats["threaded_calls"]
    res.coverage["rule"] = ("shared DSL trees (templates with yielding format checkers inside compositions/properties/inherited classes, C08's templates, "
                            "dslgen trees); 8 (quick) / 16 (thorough) threads x 6 values x 3/6 rounds, switch interval 1e-6, _Property.bind wrapped "
                            "from the harness to yield inside the shared write; each threaded outcome compared with the outcome of the same call on "
                            "a freshly built tree (alone); identity dump of the shared tree before/after.  A sample of schedules only: the theorem, "
                            "not this run, covers all interleavings.  non-trivial = every tree (>= 8 concurrent threads)")
    return res
