"""C09 — code generation and serialization are deterministic across processes."""
import json
import os
import subprocess

import common
import gen
from common import Result, rng_for

TEMPLATES = [
    # same-titled, different object schemas under different composition keywords of one parent
    {"title": "Root", "anyOf": [{"type": "object", "title": "Thing", "properties": {"a": {"type": "string"}}}],
     "oneOf": [{"type": "object", "title": "Thing", "properties": {"b": {"type": "string"}}}],
     "allOf": [{"type": "object", "title": "Thing", "properties": {"c": {"type": "string"}}}]},
    # ... under different keywords of one parent
    {"type": "object", "title": "Order", "properties": {"billing": {"type": "object", "title": "Address", "properties": {"x": {"type": "string"}}}},
     "dependencies": {"billing": {"type": "object", "title": "Address", "properties": {"y": {"type": "string"}}}},
     "patternProperties": {"^s": {"type": "object", "title": "Address", "properties": {"z": {"type": "integer"}}}},
     "additionalProperties": {"type": "object", "title": "address", "properties": {"w": {"type": "null"}}}},
    # independent sibling classes reached through different keywords (declaration order, definitions order)
    {"type": "object", "title": "Holder", "properties": {"p": {"type": "object", "title": "Alpha"}}, "patternProperties": {"^q": {"type": "object", "title": "Beta"}},
     "additionalProperties": {"type": "object", "title": "Gamma"}, "propertyNames": {"maxLength": 5},
     "dependencies": {"p": {"type": "object", "title": "Delta"}}},
    {"type": "array", "items": [{"type": "object", "title": "I"}, {"type": "string"}], "additionalItems": {"type": "object", "title": "J"},
     "contains": {"type": "object", "title": "K", "properties": {"n": {"type": ["integer", "null", "object"], "title": "L"}}}},
    # many element kinds -> import line
    {"type": "object", "title": "Kinds", "properties": {"a": {"type": "string"}, "b": {"type": "integer"}, "c": {"type": "number"}, "d": {"type": "boolean"},
                                                       "e": {"type": "null"}, "f": {"type": "array", "items": {"anyOf": [{"type": "string"}, {"not": {"type": "null"}}]}},
                                                       "g": {"oneOf": [{"allOf": [{}, {"type": "string"}]}, False]}}},
]


TEMPLATES += [
    # property names that map onto ONE attribute name (whichever survives, it is the same one in every process)
    {"type": "object", "title": "Clash", "properties": {"created-at": {"type": "string"}, "created_at": {"type": "integer"}, "created at": {"type": "null"},
                                                       "content type": {"type": "string"}, "content-type": {"type": "integer"}, "content_type": {"type": "boolean"}}},
    {"title": "U", "properties": {"a b": {}, "a-b": {"type": "string"}, "a_b": {"type": "integer"}}, "required": ["a b", "a_b"]},
    # a type list that repeats a member; several names that are only required; many dependencies / patternProperties
    {"title": "T", "type": ["string", "null", "integer", "string", "null"]},
    {"type": "object", "title": "Address", "properties": {"note": {"type": "string"}}, "required": ["street", "city", "postcode", "country", "note"]},
    {"type": "object", "title": "Ship", "dependencies": {"weight": ["unit"], "express": {"type": "object", "title": "Extra", "required": ["a"]},
                                                      "insured": {"type": "object", "title": "Extra", "required": ["b"]}, "fragile": {"required": ["c", "d"]}},
     "patternProperties": {"^x": {"type": "object", "title": "Extra"}, "^y": {"type": "object", "title": "extra", "minProperties": 1}}},
    {"type": "object", "title": "When", "properties": {"when": {"oneOf": [{"type": "string", "format": "date"}, {"type": "string", "format": "date-time"},
                                                                          {"type": "integer", "minimum": 0}, {"type": "null"}]},
                                                      "many": {"type": "array", "items": {"anyOf": [{"type": "string"}, {"type": "string", "maxLength": 1}, {"type": "integer"}]}}}},
]


def run(tier, seed, replay=None):
    res = Result("C09", tier, seed)
    rng = rng_for(seed, "C09")
    n_seeds = 8 if tier == "quick" else 32
    stats = {"documents": 0, "hash_seeds": n_seeds, "modules_generated": 0, "refused": 0, "compared_outputs": 0, "composition_docs": 0}
    docs = [json.load(open(replay))["document"]] if replay else list(TEMPLATES)
    if not replay:
        titles = ["Foo", "foo", "Bar", "Item"]
        while len(docs) < (120 if tier == "quick" else 1500):
            s = gen.gen_schema(rng, gen.Cfg(max_depth=3, titles=titles), force_kind=rng.choice(["object", "comp", "comp", "multi", "array", "untyped"]))
            if isinstance(s, dict):
                if rng.random() < 0.3:
                    s.setdefault("definitions", {})["d"] = gen.gen_schema(rng, gen.Cfg(max_depth=2, titles=titles), force_kind="object")
                s.setdefault("title", "Root")
                docs.append(s)
    work = common.ensure_work()
    batch = os.path.join(work, "c09_batch")
    os.makedirs(batch, exist_ok=True)
    for i, d in enumerate(docs):
        with open(os.path.join(batch, "doc%04d.json" % i), "w") as f:
            json.dump(d, f)
        stats["documents"] += 1
        if any(k in d for k in ("anyOf", "oneOf", "allOf")):
            stats["composition_docs"] += 1
    procs = []
    for hs in range(n_seeds):
        env = common.impl_env(hashseed=hs)
        out = os.path.join(work, "c09_out_%d.json" % hs)
        procs.append((hs, out, subprocess.Popen([common.PY, "-B", os.path.join(common.VERIF, "harness", "c09_driver.py"), batch, out],
                                                env=env, stdout=subprocess.PIPE, stderr=subprocess.PIPE, text=True)))
    results = {}
    for hs, out, p in procs:
        o, e = p.communicate(timeout=1800)
        if p.returncode != 0:
            res.violation({"property": "C09", "kind": "harness", "what": "driver failed under PYTHONHASHSEED=%d: %s" % (hs, e[-500:])}, no_input=True)
            continue
        results[hs] = json.load(open(out))
    base = results.get(0, {})
    for i, d in enumerate(docs):
        name = "doc%04d.json" % i
        res.count(json.dumps(d, sort_keys=True), nontrivial=len(json.dumps(d)) > 60)
        r0 = base.get(name, {})
        if str(r0.get("module", "")).startswith("raised"):
            stats["refused"] += 1
        else:
            stats["modules_generated"] += 1
        for hs, r in results.items():
            rr = r.get(name, {})
            for key in ("module", "json", "class_names"):
                stats["compared_outputs"] += 1
                if rr.get(key) != r0.get(key):
                    res.violation({"property": "C09", "kind": "oracle", "document": d, "observable": key, "hash_seeds": [0, hs],
                                   "seed0": r0.get(key) if key != "module" else str(r0.get(key))[:1500],
                                   "other": rr.get(key) if key != "module" else str(rr.get(key))[:1500],
                                   "what": "%s differs between PYTHONHASHSEED=0 and PYTHONHASHSEED=%d for the same document" % (
                                       {"module": "the generated Python module", "json": "the JSON serialization", "class_names": "the list of class names"}[key], hs),
                                   "replay": "./check C09 --replay <this file>"})
                    break
            else:
                continue
            break
    res.sample({"document": docs[0], "class_names": base.get("doc0000.json", {}).get("class_names")}, limit=2)
    res.coverage["distribution"] = stats
    res.coverage["traces_validated_against_impl"] = stats["compared_outputs"]
    res.coverage["rule"] = ("documents (templates: same-titled different objects under different composition keywords / different keywords of one parent, "
                            "sibling classes through different keywords, many element kinds; generated schemas over a pool of 4 colliding titles) written to "
                            "files and generated in %d fresh interpreters with PYTHONHASHSEED 0..%d: module text, json.dumps of serialize_json and class name "
                            "lists compared byte for byte.  non-trivial = every document" % (n_seeds, n_seeds - 1))
    return res
