"""C04 — an accepted value comes back complete and unaltered inside the model."""
import copy
import json

import common
import dslgen
import gen
import schemacase as sc
from canon import Unmodelled
from common import Result, rng_for
from props.c05 import quiet_call, is_np
from props.c18 import walk


def tree_names(elems):
    """JSON name -> set of Python names, and the set of all declared Python names, over the whole tree"""
    by_source, declared = {}, set()
    for e in elems:
        props = getattr(e, "properties", None)
        if isinstance(props, dict):
            for name, p in props.items():
                declared.add(name)
                by_source.setdefault(p.source if p.source is not None else name, set()).add(name)
    return by_source, declared


def retrieves(v, r, names, path="$"):
    """None if every member of the input v is found, unaltered, in the result r; else a description"""
    from statham.schema.elements import Object
    by_source, declared = names
    if isinstance(v, dict):
        if isinstance(r, Object):
            store = r._dict
            cls_props = type(r).properties
        elif isinstance(r, dict):
            store, cls_props = r, None
        else:
            return "%s: an object came back as %s" % (path, type(r).__name__)
        used = {}
        for k, x in v.items():
            cands = []
            if cls_props is not None:
                renamed = [n for n, p in cls_props.items() if (p.source if p.source is not None else n) == k]
                cands = renamed or [k]
            else:
                cands = [n for n in by_source.get(k, ())] + [k]
            hit = None
            why = "missing"
            for c in cands:
                if c in store:
                    w = retrieves(x, store[c], names, "%s.%s" % (path, c))
                    if w is None:
                        hit = c
                        break
                    why = w
            if hit is None:
                return "%s: member %r of the input is not retrievable (%s)" % (path, k, why)
            if hit in used:
                return "%s: input members %r and %r both land on result member %r (one of them is lost)" % (path, used[hit], k, hit)
            used[hit] = k
            if isinstance(r, Object) and hit not in cls_props:
                # "all other members by item access under their JSON names"
                try:
                    got = r[hit]
                except BaseException as exc:  # noqa
                    return "%s: member %r is not readable by item access (%s)" % (path, hit, type(exc).__name__)
                if retrieves(x, got, names, "%s[%r]" % (path, hit)) is not None:
                    return "%s: item access under the JSON name %r returns %r, not the supplied member" % (path, hit, got)
            if cls_props is not None and hit in cls_props:
                try:
                    attr = getattr(r, hit)
                except AttributeError:
                    return "%s: declared property %r is not readable as an attribute" % (path, hit)
                if retrieves(x, attr, names, "%s.%s" % (path, hit)) is not None:
                    return "%s: attribute %r does not hold the supplied member" % (path, hit)
        for c, val in store.items():
            if c not in used:
                if c not in declared and (cls_props is None or c not in cls_props):
                    return "%s: result member %r was not in the input and is not a declared property" % (path, c)
        return None
    if isinstance(v, list):
        if not isinstance(r, list):
            return "%s: an array came back as %s" % (path, type(r).__name__)
        if len(r) != len(v):
            return "%s: array length %d came back as %d" % (path, len(v), len(r))
        for i, (x, y) in enumerate(zip(v, r)):
            w = retrieves(x, y, names, "%s[%d]" % (path, i))
            if w:
                return w
        return None
    if isinstance(v, bool) or v is None or isinstance(v, str):
        return None if (type(r) is type(v) and r == v) else "%s: %r came back as %r" % (path, v, r)
    if isinstance(v, int):
        if type(r) is int and r == v:
            return None
        if type(r) is float:           # an integer accepted by a number schema: the equal float
            return None if r == v else "%s: int %r came back as the unequal float %r" % (path, v, r)
        return "%s: %r came back as %r" % (path, v, r)
    if isinstance(v, float):
        return None if (type(r) is float and (r == v)) else "%s: %r came back as %r" % (path, v, r)
    return "%s: unexpected input %r" % (path, v)


def constructed_by(elem, v, r, path="$", depth=0, doc=None):
    """schema-directed half of the oracle, along the deterministic positions only (typed arrays and object classes, no
    composition, no member that a patternProperties regex also matches): every member is BUILT by the element responsible
    for its position - an object under a class comes back as an instance of it with its declared properties readable as
    attributes under their Python names, an int under Number as a float.  None if so, else a description."""
    import re
    from statham.schema.elements import Array, Element, Number
    from statham.schema.elements.meta import ObjectMeta
    if depth > 8:
        return None
    if isinstance(elem, ObjectMeta):
        if not isinstance(v, dict):
            return None
        if not isinstance(r, elem):
            return "%s: an object accepted by class %s came back as %s, not as an instance of it" % (path, elem.__name__, type(r).__name__)
        pats = list(getattr(elem, "patternProperties", None) or {}) if isinstance(getattr(elem, "patternProperties", None), dict) else []
        declared = [(name, p.source if p.source is not None else name) for name, p in elem.properties.items()]
        if doc is not None and doc["classes"].get(elem.__name__) and not doc["classes"][elem.__name__].get("pyname"):
            # the names as DECLARED (own and inherited, child wins), not as the live class reports them
            declared = [(name, ps["source"] if ps.get("source") is not None else name)
                        for name, ps in dslgen.merged_class(doc, elem.__name__)["props"].items()]
        for name, src in declared:
            p = elem.properties.get(name)
            if p is None:
                return "%s: class %s does not carry its declared property %r" % (path, elem.__name__, name)
            if src not in v or (name != src and name in v):        # omitted (C05's subject) / K13 collision
                continue
            # (a declared member that a patternProperties regex also matches is built by AllOf(declared, *patterns): the FIRST member's,
            #  i.e. the declared element's, construction - so it is checked like any other declared member)
            try:
                attr = getattr(r, name)
            except AttributeError:
                return "%s: declared property %r is not readable as an attribute" % (path, name)
            if retrieves(v[src], attr, ({}, set())) is not None and not isinstance(v[src], (dict, list)):
                return "%s: attribute %r (JSON name %r) does not hold the supplied member" % (path, name, src)
            w = constructed_by(p.element, v[src], attr, "%s.%s" % (path, name), depth + 1, doc)
            if w:
                return w
        return None
    if type(elem) is Array:
        if not isinstance(v, list) or not isinstance(r, list) or len(r) != len(v):
            return None                                            # length / kind: judged by `retrieves`
        items = getattr(elem, "items", None)
        addl = getattr(elem, "additionalItems", True)
        for i, (x, y) in enumerate(zip(v, r)):
            if isinstance(items, list):
                sub = items[i] if i < len(items) else (addl if isinstance(addl, (Element, ObjectMeta)) else None)
            else:
                sub = items if isinstance(items, (Element, ObjectMeta)) else None
            if sub is not None:
                w = constructed_by(sub, x, y, "%s[%d]" % (path, i), depth + 1, doc)
                if w:
                    return w
        return None
    if type(elem) is Number:
        if isinstance(v, int) and not isinstance(v, bool) and type(r) is not float:
            return "%s: the integer %r accepted by a number schema came back as %s, not as the equal float" % (path, v, type(r).__name__)
    return None


TEMPLATES = [
    ({"classes": {"Foo": {"k": "Obj", "name": "Foo", "base": None, "doc": None, "kw": {"patternProperties": {"^c": {"k": "String", "kw": {}}}},
                          "props": {"class_": {"e": {"k": "String", "kw": {}}, "required": False, "source": "class"},
                                    "n": {"e": {"k": "Number", "kw": {}}, "required": False, "source": None}}}},
      "order": ["Foo"], "root": {"k": "Array", "items": [{"k": "Ref", "name": "Foo"}], "kw": {"additionalItems": {"k": "Number", "kw": {}}}}},
     [[{"class": "c", "n": 1, "extra": [1, {"a": None}]}, 2, 3.5], [{"class": "c", "class_": "d"}], [{"n": 9007199254740993}], [{}, 1, 2, 3]]),
    ({"classes": {}, "order": [], "root": {"k": "AnyOf", "elements": [
        {"k": "Element", "kw": {"properties": {"a": {"e": {"k": "String", "kw": {}}, "required": True, "source": None}}}},
        {"k": "Element", "kw": {"properties": {"a": {"e": {"k": "Integer", "kw": {}}, "required": False, "source": None},
                                               "p_1": {"e": {"k": "Element", "kw": {}}, "required": False, "source": "p 1"}},
                                "dependencies": {"a": {"k": "Element", "kw": {"properties": {"z": {"e": {"k": "Null", "kw": {"default": None}}, "required": False, "source": None}}}}}}}]}},
     [{"a": 1, "p 1": {"deep": [1, 2, {"x": True}]}}, {"a": "s", "other": 0}, {"a": 1, "b": 2, "c": [[]]}]),
    ({"classes": {}, "order": [], "root": {"k": "AllOf", "elements": [
        {"k": "Not", "element": {"k": "String", "kw": {}}},
        {"k": "Element", "kw": {"properties": {"a": {"e": {"k": "Integer", "kw": {"default": 3}}, "required": False, "source": None}}}}]}},
     [{"b": 1}, {"a": 2, "b": [1, 2]}, [1, 2], 7]),
]


TEMPLATES.append(
    # inheritance: a renamed parent property read through the child, a renamed child property, parent used before child
    ({"classes": {"Vehicle": {"k": "Obj", "name": "Vehicle", "base": None, "doc": None, "kw": {},
                              "props": {"class_": {"e": {"k": "String", "kw": {}}, "required": False, "source": "class"},
                                        "wheels": {"e": {"k": "Number", "kw": {}}, "required": False, "source": None}}},
                  "Car": {"k": "Obj", "name": "Car", "base": "Vehicle", "doc": None, "kw": {},
                          "props": {"type_": {"e": {"k": "String", "kw": {}}, "required": False, "source": "type"},
                                    "doors": {"e": {"k": "Number", "kw": {}}, "required": False, "source": None},
                                    "owner": {"e": {"k": "Ref", "name": "Vehicle"}, "required": False, "source": None}}}},
      "order": ["Vehicle", "Car"], "root": {"k": "Array", "items": [{"k": "Ref", "name": "Vehicle"}, {"k": "Ref", "name": "Car"}], "kw": {}}},
     [[{"class": "a", "wheels": 2}, {"class": "b", "type": "t", "doors": 4, "wheels": 4, "owner": {"class": "o", "wheels": 3}}],
      [{"class": "a"}, {"class": "c"}], [{}, {"type": "t"}], [{"wheels": 1}, {"doors": 2, "extra": [1]}]]))


TEMPLATES.append(
    # additional members named like attributes every model class / instance already has
    ({"classes": {"Annotated": {"k": "Obj", "name": "Annotated", "base": None, "doc": "A titled thing.", "kw": {"minProperties": 1},
                                "props": {"title": {"e": {"k": "String", "kw": {}}, "required": False, "source": None}}}},
      "order": ["Annotated"], "root": {"k": "Array", "items": {"k": "Ref", "name": "Annotated"}, "kw": {}}},
     [[{"title": "width", "description": "how wide it is", "default": 0, "required": ["a"], "const": 1, "enum": [1], "additionalProperties": False}],
      [{"title": "t", "properties": {"x": 1}, "patternProperties": None, "minProperties": 5, "inline": True, "annotation": "x", "python": 3}],
      [{"__doc__": "d", "__class__": "c", "__module__": "m", "__name__": "n", "validators": [], "type_validator": 0}]]))


TEMPLATES.append(
    ({"classes": {"Child": {"k": "Obj", "name": "Child", "base": None, "doc": None, "kw": {},
                            "props": {"class_": {"e": {"k": "Integer", "kw": {}}, "required": False, "source": "class"},
                                      "size": {"e": {"k": "Integer", "kw": {"default": 7}}, "required": False, "source": None}}},
                  "Measurement": {"k": "Obj", "name": "Measurement", "base": None, "doc": None,
                                  "kw": {"patternProperties": {"^val": {"k": "Element", "kw": {"minimum": 0}}, "^c": {"k": "Element", "kw": {"minProperties": 1}}}},
                                  "props": {"value": {"e": {"k": "Number", "kw": {}}, "required": False, "source": None},
                                            "child": {"e": {"k": "Ref", "name": "Child"}, "required": False, "source": None},
                                            "children": {"e": {"k": "Array", "items": {"k": "Ref", "name": "Child"}, "kw": {}}, "required": False, "source": None}}}},
      "order": ["Child", "Measurement"], "root": {"k": "Ref", "name": "Measurement"}},
     [{"value": 3}, {"value": 3, "child": {"class": 1, "k": None}, "children": [{"class": 2}]}, {"child": {"class": 1}}, {"valid": 2, "value": 0}]))


TEMPLATES.append(
    # compositions whose members build the same value differently: the FIRST successful branch's construction is the result
    ({"classes": {"Holder": {"k": "Obj", "name": "Holder", "base": None, "doc": None, "kw": {},
                             "props": {"n": {"e": {"k": "AnyOf", "elements": [{"k": "Number", "kw": {}}, {"k": "Integer", "kw": {}}]}, "required": False, "source": None},
                                       "m": {"e": {"k": "AnyOf", "elements": [{"k": "Integer", "kw": {}}, {"k": "Number", "kw": {}}]}, "required": False, "source": None}}}},
      "order": ["Holder"], "root": {"k": "Array", "items": [
          {"k": "AnyOf", "elements": [{"k": "Number", "kw": {}}, {"k": "Integer", "kw": {}}]},
          {"k": "AnyOf", "elements": [{"k": "Number", "kw": {"minimum": 0}}, {"k": "Element", "kw": {}}]},
          {"k": "Array", "items": {"k": "AnyOf", "elements": [{"k": "Number", "kw": {}}, {"k": "Integer", "kw": {}}]}, "kw": {}},
          {"k": "Ref", "name": "Holder"},
          {"k": "OneOf", "elements": [{"k": "Number", "kw": {}}, {"k": "String", "kw": {}}]},
          {"k": "AllOf", "elements": [{"k": "Number", "kw": {}}, {"k": "Integer", "kw": {}}]}], "kw": {}}},
     [[3, 0, [1, 2.5, 3], {"n": 4, "m": 4}, 7, 2], [3.5, -1, [], {}, "s", 2], [0, 0, [0], {"n": 0}, 0, 0]]))


def run(tier, seed, replay=None):
    from statham.schema.parser import parse_element
    res = Result("C04", tier, seed)
    rng = rng_for(seed, "C04")
    stats = {"trees": 0, "values": 0, "accepted": 0, "objects_in": 0, "arrays_in": 0, "max_depth_in": 0, "k8_inputs": 0, "k13_inputs": 0, "parsed": 0}
    items = []
    if replay:
        p = json.load(open(replay))
        items = [(p["doc"], p["values"])] if "doc" in p else []
    else:
        items = list(TEMPLATES)
        for _ in range(140 if tier == "quick" else 2500):
            d = dslgen.gen_doc(rng, dslgen.Cfg(max_depth=rng.choice([2, 3])))
            items.append((d, None))
    cases, metas = [], []

    def depth(v):
        return 1 + max([depth(x) for x in (v.values() if isinstance(v, dict) else v)] + [0]) if isinstance(v, (dict, list)) else 0

    def judge(root, elems, v, payload, doc=None):
        tag, r = quiet_call(root, v)
        stats["values"] += 1
        if tag != "ok":
            return
        stats["accepted"] += 1
        stats["objects_in"] += isinstance(v, dict)
        stats["arrays_in"] += isinstance(v, list)
        stats["max_depth_in"] = max(stats["max_depth_in"], depth(v))
        why = retrieves(v, r, tree_names(elems))
        if why:
            fid = None
            if "unequal float" in why:
                fid = "C04-K8"
                stats["k8_inputs"] += 1
            elif "both land on" in why or "not retrievable" in why:
                by_source, _ = tree_names(elems)
                flat = json.dumps(v)
                if any(n != s and ('"%s"' % n) in flat and ('"%s"' % s) in flat for s, ns in by_source.items() for n in ns):
                    fid = "C04-K13"
                    stats["k13_inputs"] += 1
            res.violation(dict(payload, kind="oracle", value=v, finding=fid, what=why))
            return
        why = constructed_by(root, v, r, doc=doc)
        stats["construct_checked"] = stats.get("construct_checked", 0) + 1
        if why:
            res.violation(dict(payload, kind="oracle", value=v, what=why))

    for di, (doc, vals) in enumerate(items):
        try:
            root, classes = dslgen.build(doc)
        except BaseException as exc:  # noqa
            if not replay and di < len(TEMPLATES):
                res.violation({"property": "C04", "doc": doc, "kind": "oracle",
                               "what": "declaring the template tree raised %s: %s" % (type(exc).__name__, str(exc)[:120])})
            continue
        elems, _ = walk(root)
        for c in classes.values():
            walk(c, set(id(x) for x in elems), elems, [])
        stats["trees"] += 1
        vals = list(vals) if vals is not None else dslgen.gen_values(rng, doc, 8)
        payload = {"property": "C04", "doc": doc, "values": vals, "replay": "./check C04 --replay <this file>"}
        res.count(json.dumps(doc, sort_keys=True, default=repr), nontrivial=any(isinstance(v, (dict, list)) for v in vals))
        for v in vals:
            judge(root, elems, v, payload, doc)
        # every class on its own, parents before children, on a FRESH build (a class first used after its parent)
        if doc["order"] and (not replay or True):
            _, fresh = dslgen.build(doc)
            chain = sorted(fresh, key=lambda n: len(fresh[n].__mro__))
            for name in chain:
                cvals = [gen.gen_value(rng, dslgen.spec_schema(doc, {"k": "Ref", "name": name})) for _ in range(3)]
                c_elems, _ = walk(fresh[name])
                stats["class_first_use_calls"] = stats.get("class_first_use_calls", 0) + len(cvals)
                for v in cvals:
                    judge(fresh[name], c_elems, v, dict(payload, values=[v], called_class=name), doc)
        try:
            obs, _ = sc.observe_elem(root, vals)
            cases.append(sc.cq_ecase(doc, root, obs))
            metas.append(doc)
        except Unmodelled:
            pass
        res.sample({"root": repr(root)[:160], "value": vals[0] if vals else None}, limit=3)
    # ---- parsed schemas (classes from the parser, auto-renamed properties) -----------------------------
    smetas = []
    for _ in range(0 if replay else (120 if tier == "quick" else 2500)):
        s = gen.gen_schema(rng, gen.Cfg(max_depth=3))
        if not isinstance(s, dict):
            continue
        vals = [gen.gen_value(rng, s) for _ in range(6)]
        try:
            e = parse_element(copy.deepcopy(s))
        except BaseException:  # noqa
            continue
        stats["parsed"] += 1
        elems, _ = walk(e)
        res.count("schema:" + json.dumps(s, sort_keys=True, default=repr))
        for v in vals:
            judge(e, elems, v, {"property": "C04", "schema": s})
        smetas.append((s, vals, "parsed"))
    pm, unmod, perr = sc.run_stream(smetas, tag="c04s") if smetas else ([], 0, None)
    codes, err = sc.eval_codes(["Elem", "Validate", "RunElem"], "run_elem_case_c04", cases, tag="c04", shard=120)
    res.corr_error = err or perr
    # code 9 = every value of the case satisfies the premise of C04_complete (Retr.safeb, proved sound)
    stats["theorem_applies"] = {"cases": sum(1 for cs in (codes or {}).values() if 9 in cs), "of": len(cases)}
    res.corr_mismatches = [{"doc": metas[i], "codes": [c for c in cs if c != 9], "what": "Validate.build disagrees with the implementation: 2=verdict class, 3=constructed result"}
                           for i, cs in sorted((codes or {}).items()) if any(c != 9 for c in cs)]
    for m in pm:
        if 3 in m["codes"] or 2 in m["codes"]:
            res.corr_mismatches.append({"schema": m["schema"], "values": sc.vals_json(m["ob"]), "codes": m["codes"],
                                        "what": "parsed schema: model and implementation disagree (2=verdict class, 3=constructed result)"})
    res.witness_status = {"C04-K8": "fails" if stats["k8_inputs"] else "not-exercised", "C04-K13": "fails" if stats["k13_inputs"] else "not-exercised"}
    res.coverage["distribution"] = stats
    res.coverage["traces_validated_against_impl"] = len(cases) + len(pm)
    res.coverage["rule"] = ("DSL trees (templates: renamed property x same-named additional member, composition branches, huge ints under number, "
                            "tuple items) and parsed schemas with values aimed at them; every accepted value is walked against the returned model "
                            "(every member at every depth retrievable under its Python/JSON name and unaltered, arrays same length and order, no "
                            "two members on one result key, extras only declared properties); the constructed result is also computed by "
                            "Validate.build in Coq and must be identical.  non-trivial = tree exercised with container values")
    return res
