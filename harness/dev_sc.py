import sys, os, json, random, collections
sys.path.insert(0, os.path.dirname(os.path.abspath(__file__)))
import common, gen, schemacase as sc
from canon import Unmodelled
sys.path.insert(0, common.REPO)
import statham
n = int(sys.argv[1]) if len(sys.argv) > 1 else 200
seed = int(sys.argv[2]) if len(sys.argv) > 2 else 1
rng = random.Random(seed)
cases, meta = [], []
unm = 0
for i in range(n):
    s = gen.gen_schema(rng)
    if not isinstance(s, dict):
        continue
    vals = [gen.gen_value(rng, s) for _ in range(4)] + [sc.NP]
    try:
        ob = sc.observe(s, vals)
    except Unmodelled as exc:
        unm += 1
        continue
    cases.append(sc.cq_case(s, ob["parse_obs"], ob["vals"]))
    meta.append((s, ob))
res, err = sc.run_cases(cases)
if err:
    print(err); sys.exit(1)
hist = collections.Counter()
for idx, codes in res.items():
    for c in codes: hist[c] += 1
kinds = collections.Counter(m[1]["kind"] for m in meta)
tags = collections.Counter(o[0] for m in meta for _, o in m[1]["vals"])
print("cases", len(cases), "unmodelled", unm, "kinds", dict(kinds), "tags", dict(tags), "codes", dict(hist))
shown = 0
want = int(sys.argv[3]) if len(sys.argv) > 3 else None
for idx, codes in sorted(res.items()):
    if want and want not in codes: continue
    s, ob = meta[idx]
    print("----", idx, codes)
    print("schema:", json.dumps(s)[:3000])
    print("impl parse:", json.dumps(ob["parse_obs"])[:200], ob["detail"])
    for v, o in ob["vals"]:
        print("   val", "NP" if v is sc.NP else json.dumps(v), "->", json.dumps(o)[:300])
    import coqparse
    out = sc.show_case(cases[idx])
    try:
        dec = coqparse.pretty(coqparse.parse_term(coqparse.result_text(out)))
        print("model parse:", json.dumps(dec[0])[:1500])
        for x in dec[1]: print("   model val:", json.dumps(x)[:400])
        if dec[0][0]=="ok" and ob["parse_obs"][0]=="ok":
            def diff(a,b,path=""):
                if type(a)!=type(b): print("   DIFF at",path,":",json.dumps(a)[:200],"VS",json.dumps(b)[:200]); return
                if isinstance(a,list):
                    if len(a)!=len(b): print("   DIFF len at",path,":",json.dumps(a)[:300],"VS",json.dumps(b)[:300]); return
                    for i,(x,y) in enumerate(zip(a,b)): diff(x,y,path+"/%d"%i)
                elif isinstance(a,dict):
                    if list(a)!=list(b): print("   DIFF keys at",path,":",list(a),"VS",list(b)); 
                    for k in a:
                        if k in b: diff(a[k],b[k],path+"/"+k)
                elif a!=b or (isinstance(a,bool)!=isinstance(b,bool)): print("   DIFF at",path,":",a,"VS",b)
            diff(ob["parse_obs"][1], dec[0][1])
    except Exception as exc:
        print("decode failed", exc, out[:500])
    shown += 1
    if shown >= 3: break
common.cleanup_work()
