"""Validation of the reference semantics itself (trusted-base item: my reading of Draft 6 in Spec6.v).

Spec6.v6 (strict reading, WNever) is evaluated in Coq on (schema, value) pairs and compared with
jsonschema's Draft6Validator run in the tooling interpreter (python3-vt).  Differences are expected
only in the two documented deviation classes of Spec6.v:
  DEV 1  "integer" means a Python int (jsonschema accepts 1.0),
  DEV 2  `format` consults statham's registry (jsonschema, without a FormatChecker, ignores it),
and in float `multipleOf` (Spec6.v reads it as the binary64 remainder test; jsonschema divides and asks is_integer).
Anything else is reported as `unexplained` in the evidence of C01 (it would mean that Spec6.v, and
with it the statement of C01/C03/C06/C17, is not Draft 6 there).  This is a test of the model, not a
proof and not a check of the implementation."""
import json
import os
import re
import subprocess

import common
import schemacase as sc
from coqemit import cq_json, cq_str, cq_list

JS_SRC = '''
import json, sys
from jsonschema import Draft6Validator
data = json.load(open(sys.argv[1]))
out = []
for s, vals in data:
    row = []
    for v in vals:
        try:
            row.append(Draft6Validator(s).is_valid(v))
        except Exception as exc:
            row.append("exc:" + type(exc).__name__)
    out.append(row)
json.dump(out, open(sys.argv[2], "w"))
'''


def has_kw(s, kw):
    return ('"%s"' % kw) in json.dumps(s)


def compare(items, tag="specref", shard=120):
    """items: list of (schema, [json values]).  -> stats dict"""
    work = common.ensure_work()
    pairs = []
    for s, vals in items:
        vals = [v for v in vals if v is not sc.NP]
        try:
            json.dumps(s)
            json.dumps(vals)
        except (TypeError, ValueError):
            continue
        if vals:
            pairs.append((s, vals))
    stats = {"schemas": len(pairs), "verdicts_compared": 0, "deviations": {}, "unexplained": 0, "unexplained_samples": [], "status": "ok"}
    if not pairs:
        return stats
    src, inp, outp = (os.path.join(work, "%s_js.py" % tag), os.path.join(work, "%s_in.json" % tag), os.path.join(work, "%s_out.json" % tag))
    with open(src, "w") as f:
        f.write(JS_SRC)
    with open(inp, "w") as f:
        json.dump(pairs, f)
    try:
        p = subprocess.run(["python3-vt", src, inp, outp], capture_output=True, text=True, timeout=600)
    except (OSError, subprocess.TimeoutExpired) as exc:
        stats["status"] = "skipped: %s" % type(exc).__name__
        return stats
    if p.returncode != 0:
        stats["status"] = "skipped: jsonschema run failed (%s)" % p.stderr[-200:]
        return stats
    ref = json.load(open(outp))
    cases = []
    for s, vals in pairs:
        ret, strs = sc.regex_table(s, vals)
        fmt = sc.format_table(s, strs)
        cases.append("(%s, %s, %s, %s)" % (
            cq_list(["(%s, %s)" % (cq_str(pt), cq_list([cq_str(x) for x in l])) for pt, l in ret.items()]),
            cq_list(["(%s, %s)" % (cq_str(fk), cq_list([cq_str(x) for x in l])) for fk, l in fmt.items()]),
            cq_json(s), cq_list([cq_json(v) for v in vals])))
    jobs = []
    for si in range(0, len(cases), shard):
        body = common.CASE_PRELUDE.format(mods="Elem Validate Spec6 RunHelpers", extra="")
        body += ("Definition cases : list (list (str * list str) * list (str * list str) * json * list json) := [\n  "
                 + ";\n  ".join(cases[si:si + shard]) + "\n].\n")
        body += ("Eval vm_compute in map (fun c => match c with (re, fm, s, vals) => "
                 "map (fun v => v6 (tbl_oracles re fm) WNever s v) vals end) cases.\n")
        path = os.path.join(work, "%s_%d.v" % (tag, si))
        with open(path, "w", encoding="utf8") as f:
            f.write(body)
        jobs.append(path)
    rows = []
    for rc, o, e in sc.run_parallel(jobs):
        if rc != 0:
            stats["status"] = "skipped: coqc failed (%s)" % (e or o)[-300:]
            return stats
        m = re.search(r"=\s*(\[.*\])\s*:\s*list \(list bool\)", o, re.S)
        if not m:
            stats["status"] = "skipped: unparsable coqc output"
            return stats
        rows.extend([[x.strip() == "true" for x in row.split(";") if x.strip()] for row in re.findall(r"\[([a-z;\s]*)\]", m.group(1)[1:-1])])
    for (s, vals), spec_row, ref_row in zip(pairs, rows, ref):
        for v, a, b in zip(vals, spec_row, ref_row):
            if isinstance(b, str):
                continue
            stats["verdicts_compared"] += 1
            if a != b:
                if has_kw(s, "format"):
                    why = "format (DEV 2)"
                elif has_kw(s, "integer") and re.search(r"\d\.0\b", json.dumps(v)):
                    why = "integer 1.0 (DEV 1)"
                elif has_kw(s, "multipleOf"):
                    why = "multipleOf float arithmetic (binary64 remainder vs jsonschema's division test)"
                else:
                    why = None
                if why:
                    stats["deviations"][why] = stats["deviations"].get(why, 0) + 1
                else:
                    stats["unexplained"] += 1
                    if len(stats["unexplained_samples"]) < 5:
                        stats["unexplained_samples"].append({"schema": s, "value": v, "spec6": a, "jsonschema": b})
    return stats
