(* C20 — unsupported schema features are refused, never silently mis-modelled.
   Statements only; proofs are in Proofs/UnsupportedProof.v.  The parser configuration is
   built from the tables regenerated from /repo on every run (Generated/). *)
From Coq Require Import String.
From Statham.Model Require Import Str Json Elem Names Tables Parser Unsupported.
From Statham.Generated Require Gen_constants Gen_parser_tables.
From Statham.Proofs Require Import Agree_tables UnsupportedProof.
Local Open Scope string_scope.

(* the parser as the code configures it now: refused set and composition order from /repo *)
Definition cfg_now (U : unicode) (reserved : list str) : pcfg :=
  mkCfg U reserved Gen_constants.unsupported_keywords Gen_parser_tables.comp_order_now.

(* Safety, all schemas, any nesting depth, any parse state, any Unicode oracle: whenever
   parse_element returns an element, no keyword of the code's refused set occurs at any
   position the parser interprets as a schema (root, properties.*, patternProperties.*,
   additionalProperties, propertyNames, dependencies.* (schema form), items, items[i],
   additionalItems, contains, anyOf/oneOf/allOf[i], not). *)
Theorem C20_never_silently_ignored : forall U reserved S st e st',
  parse_element (cfg_now U reserved) S st = POk (e, st') ->
  uses_unsupported Gen_constants.unsupported_keywords S = false.
Proof.
  intros U reserved. apply (parse_element_ok_no_unsupported (cfg_now U reserved)).
  exact Agree_tables.comp_order_complete_now.
Qed.
Print Assumptions C20_never_silently_ignored.

(* the same for a whole document: the root and every schema under root "definitions" *)
Theorem C20_document : forall U reserved S l,
  parse (cfg_now U reserved) S = POk l ->
  doc_uses_unsupported Gen_constants.unsupported_keywords S = false.
Proof.
  intros U reserved. apply (parse_ok_no_unsupported (cfg_now U reserved)).
  exact Agree_tables.comp_order_complete_now.
Qed.
Print Assumptions C20_document.

(* a refused keyword at the root yields the not-implemented error whatever else is there *)
Theorem C20_root_refused : forall U reserved kvs st,
  existsb (fun kv => mem_str (fst kv) Gen_constants.unsupported_keywords) kvs = true ->
  parse_element (cfg_now U reserved) (JObj kvs) st = PErr PNotImpl.
Proof. intros U reserved. exact (root_unsupported_refused (cfg_now U reserved)). Qed.
Print Assumptions C20_root_refused.

(* every keyword statham documents as unsupported is in the code's refused set *)
Theorem C20_documented_are_refused :
  incl_strs unsupported_keywords Gen_constants.unsupported_keywords = true.
Proof. exact unsupported_agree. Qed.
Print Assumptions C20_documented_are_refused.

(* non-vacuity: a schema that parses, and one that is refused three levels down *)
Example C20_parses_somewhere :
  exists e st, parse_element (cfg_now (mkU (fun _ => true) (fun _ => [])) [])
    (JObj [(s_ "properties", JObj [(s_ "a", JObj [(s_ "items", JObj [(s_ "type", JStr (s_ "string"))])])])]) [] = POk (e, st).
Proof. eexists. eexists. vm_compute. reflexivity. Qed.
Example C20_refused_nested :
  parse_element (cfg_now (mkU (fun _ => true) (fun _ => [])) [])
    (JObj [(s_ "properties", JObj [(s_ "a", JObj [(s_ "items", JObj [(s_ "if", JBool false)])])])]) [] = PErr PNotImpl.
Proof. vm_compute. reflexivity. Qed.
