(* C16 — format checking consults exactly the registered checker.  Statements only. *)
From Coq Require Import String.
From Statham.Model Require Import Str Json Elem PyNum Validate Format Tables.
Local Open Scope string_scope.
Local Open Scope list_scope.
From Statham.Generated Require Gen_validators.
From Statham.Proofs Require Import Agree_tables FormatProof.

(* After ANY history of registrations and checks, from any initial registry, a check of
   value v under format n: a non-string is accepted without warning; a string is judged by
   the checker most recently registered under n; with none registered it is accepted with a
   warning. *)
Theorem C16_registry_last_wins : forall ops r0 n v,
  fcheck (fst (frun r0 ops)) n v =
  match v with
  | JStr s => match last_registered r0 ops n with
              | Some f => (f s, false)
              | None => (true, true)
              end
  | _ => (true, false)
  end.
Proof. exact registry_last_wins. Qed.
Print Assumptions C16_registry_last_wins.

(* registering a name again replaces the earlier checker ... *)
Theorem C16_reregister_replaces : forall ops r0 n f s,
  fcheck (fst (frun r0 (ops ++ [Register n f]))) n (JStr s) = (f s, false).
Proof. exact reregister_replaces. Qed.
Print Assumptions C16_reregister_replaces.

(* ... and touches no other name; checks never change the registry *)
Theorem C16_other_names_untouched : forall ops r0 n m f v, n <> m ->
  fcheck (fst (frun r0 (ops ++ [Register m f]))) n v = fcheck (fst (frun r0 ops)) n v.
Proof. exact other_names_untouched. Qed.
Print Assumptions C16_other_names_untouched.
Theorem C16_checks_are_reads : forall r n v, fst (fstep r (Check n v)) = r.
Proof. exact checks_do_not_change_registry. Qed.
Print Assumptions C16_checks_are_reads.

(* the verdict of elements carrying the keyword, for every oracle/registry and every value *)
Theorem C16_string_element : forall O n v,
  build O (EK CString (kfmt n)) (Some v) =
  match v with
  | JStr s => match fmt O n with Some f => if f s then Ok (RStr s) else Rej | None => Ok (RStr s) end
  | _ => Rej
  end.
Proof. exact string_format_verdict. Qed.
Print Assumptions C16_string_element.
Theorem C16_untyped_element : forall O n v,
  accepts O (EK CElement (kfmt n)) v =
  match v with
  | JStr s => match fmt O n with Some f => f s | None => true end
  | _ => true
  end.
Proof. exact element_format_verdict. Qed.
Print Assumptions C16_untyped_element.

(* the code's Format validator is still type-guarded to str and keyed on `format` *)
Theorem C16_format_validator_row :
  existsb (fun row => match row with (n, tys, kws) =>
     str_eqb n (s_ "Format") && strs_eqb tys [s_ "str"] && strs_eqb kws [s_ "format"] end)
     Gen_validators.validators = true.
Proof. vm_compute. reflexivity. Qed.

Example C16_nonvacuous :
  fcheck (fst (frun [] [Register (s_ "f") (fun _ => true); Check (s_ "f") (JStr (s_ "x"));
                        Register (s_ "f") (fun _ => false)])) (s_ "f") (JStr (s_ "x")) = (false, false).
Proof. vm_compute. reflexivity. Qed.
