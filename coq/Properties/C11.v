(* C11 — class declaration order is a complete topological order; cycles are refused.
   This file holds only statements closed by `exact`, with Print Assumptions. *)
From Coq Require Import Permutation.
From Statham.Model Require Import Str Orderer Tables.
From Statham.Generated Require Import Gen_orderer_paths.
From Statham.Proofs Require Import StrFacts OrdererLoop Agree_orderer.

(* The emission loop of orderer(): on every dependency map with unique keys that is
   closed (dependencies are keys and are transitive, which get_children's transitive
   enumeration provides) and has no self-dependency, the loop terminates with Ok,
   yields every key exactly once (a permutation) and every dependency before its
   dependant.  No bound on the number of classes. *)
Theorem C11_loop_topological : forall d : deps_t,
  NoDup (keys d) -> closed d -> has_cycle d = false ->
  exists l, order_names d = OOk l /\ Permutation l (keys d) /\
            forall k ds x, In (k, ds) d -> In x ds -> before x k l.
Proof. exact order_names_acyclic. Qed.
Print Assumptions C11_loop_topological.

(* A self-dependency anywhere is refused with the schema-parse error (never Ok). *)
Theorem C11_cycle_refused : forall d : deps_t,
  (exists k ds, In (k, ds) d /\ In k ds) -> order_names d = OSchemaParseError.
Proof. exact order_names_cyclic. Qed.
Print Assumptions C11_cycle_refused.

(* Every keyword position that can hold an element is reached by a path of the
   code's current `paths` list (generated table). *)
Theorem C11_positions :
  forallb (fun pp => mem_str (snd pp) Gen_orderer_paths.paths) element_positions = true.
Proof. exact orderer_positions_covered. Qed.
Print Assumptions C11_positions.

Theorem C11_paths_audited :
  incl_str Gen_orderer_paths.paths orderer_paths && incl_str orderer_paths Gen_orderer_paths.paths = true.
Proof. exact orderer_paths_agree. Qed.
Print Assumptions C11_paths_audited.
