(* C11 — class declaration order is a complete topological order; cycles are refused.
   This file holds only statements closed by `exact`, with Print Assumptions. *)
From Coq Require Import Permutation String.
From Statham.Model Require Import Str Orderer Tables.
From Statham.Generated Require Import Gen_orderer_paths.
From Statham.Proofs Require Import StrFacts OrdererLoop OrdererSound OrdererWalk OrdererDirect OrdererReach OrdererClosed OrdererClasses Agree_orderer.

(* The emission loop of orderer(): on every dependency map with unique keys that is
   closed (dependencies are keys and are transitive, which get_children's transitive
   enumeration provides) and has no self-dependency, the loop terminates with Ok,
   yields every key exactly once (a permutation) and every dependency before its
   dependant.  No bound on the number of classes. *)
Theorem C11_loop_topological : forall d : deps_t,
  NoDup (keys d) -> closed d -> has_cycle d = false ->
  exists l, order_names d = OOk l /\ Permutation l (keys d) /\
            forall k ds x, In (k, ds) d -> In x ds -> before x k l.
Proof. exact order_names_acyclic. Qed.
Print Assumptions C11_loop_topological.

(* A self-dependency anywhere is refused with the schema-parse error (never Ok). *)
Theorem C11_cycle_refused : forall d : deps_t,
  (exists k ds, In (k, ds) d /\ In k ds) -> order_names d = OSchemaParseError.
Proof. exact order_names_cyclic. Qed.
Print Assumptions C11_cycle_refused.

(* Every keyword position that can hold an element is reached by a path of the
   code's current `paths` list (generated table). *)
Theorem C11_positions :
  forallb (fun pp => mem_str (snd pp) Gen_orderer_paths.paths) element_positions = true.
Proof. exact orderer_positions_covered. Qed.
Print Assumptions C11_positions.

Theorem C11_paths_audited :
  incl_str Gen_orderer_paths.paths orderer_paths && incl_str orderer_paths Gen_orderer_paths.paths = true.
Proof. exact orderer_paths_agree. Qed.
Print Assumptions C11_paths_audited.

(* Soundness with NO premise on the map beyond unique keys (it is a Python dict): every
   order the loop returns is a permutation of the keys with every dependency before its
   dependant.  So even on a map that is not closed (a dependency that is not a key) the
   loop cannot return a partial or mis-ordered list: it returns nothing (next theorems). *)
Theorem C11_loop_sound : forall (d : deps_t) l,
  NoDup (keys d) -> order_names d = OOk l ->
  Permutation l (keys d) /\ forall k ds x, In (k, ds) d -> In x ds -> before x k l.
Proof. exact order_names_sound. Qed.
Print Assumptions C11_loop_sound.

(* The loop needs at most one iteration per key: the model's fuel is never the reason for
   an answer (the totalised OOutOfFuel value is unreachable from the loop). *)
Theorem C11_loop_total : forall d : deps_t, NoDup (keys d) -> order_names d <> OOutOfFuel.
Proof. exact order_names_total. Qed.
Print Assumptions C11_loop_total.

(* The closing `assert not object_dependencies.values()` can fire only on a map that is
   not closed; on orderer()'s own maps that is excluded by the correspondence run. *)
Theorem C11_assert_only_unclosed : forall d : deps_t,
  NoDup (keys d) -> order_names d = OAssertionError -> ~ closed d.
Proof. exact order_names_assert. Qed.
Print Assumptions C11_assert_only_unclosed.

(* The same for orderer() as a whole, over every identity graph and root list: the map it
   builds is a dict (unique keys by construction), so no premise is left. *)
Theorem C11_orderer_sound : forall paths G roots l,
  orderer paths G roots = OOk l ->
  exists ocs ps, get_object_classes paths G roots = Some ocs /\ dep_pairs paths G ocs = Some ps /\
    Permutation l (keys (dict_of_pairs ps)) /\
    forall k ds x, In (k, ds) (dict_of_pairs ps) -> In x ds -> before x k l.
Proof. exact orderer_sound. Qed.
Print Assumptions C11_orderer_sound.

(* Termination of the enumeration: get_children's walk with its shared `seen` set never
   exhausts the model's fuel S (length G) on an identity graph whose child ids are node ids
   (checked per graph by wf_graphb in the correspondence run), whatever the sharing and the
   cycles: each nested call adds a node to `seen`, and `seen` never holds a node twice. *)
Theorem C11_walk_terminates : forall paths G,
  wf_graph paths G -> forall n, n < length G -> get_children paths G n <> None.
Proof. exact get_children_total. Qed.
Print Assumptions C11_walk_terminates.

(* ... hence orderer() as a whole never answers with the totalised out-of-fuel value: every
   verdict of the model (an order, the schema-parse error, the assertion) is the code's. *)
Theorem C11_orderer_total : forall paths G roots,
  wf_graphb paths G = true -> boundedb G roots = true -> orderer paths G roots <> OOutOfFuel.
Proof. exact orderer_total_b. Qed.
Print Assumptions C11_orderer_total.

(* The enumeration is exact: whenever get_children(n) returns, what it yields is exactly the
   set of nodes reachable from n in one or more child steps — nothing else, and nothing
   missed, whatever the sharing and the cycles and however the shared `seen` set cuts the
   walk short (invariant: a node newly added to `seen` has all its children in the final
   `seen` and in the yield list). *)
Theorem C11_walk_exact : forall paths G n ys,
  get_children paths G n = Some ys -> forall x, In x ys <-> reach paths G n x.
Proof. exact get_children_reach. Qed.
Print Assumptions C11_walk_exact.

(* What a returned order means for the module that is generated from it, with NO closure
   premise: a class body mentions its direct children only, and every object class that a
   class of the map reaches in one step of get_children (a keyword position of `paths`,
   C11_positions) stands before that class in the order.  With unique class names (the
   routine's documented precondition) `c` is THE class named k. *)
Theorem C11_orderer_direct : forall paths G roots l,
  orderer paths G roots = OOk l ->
  exists ocs ps, get_object_classes paths G roots = Some ocs /\ dep_pairs paths G ocs = Some ps /\
    Permutation l (keys (dict_of_pairs ps)) /\
    forall k ds, In (k, ds) (dict_of_pairs ps) ->
      exists c, In c ocs /\ class_name G c = k /\
        forall x, In x (kids paths G c) -> is_class G x = true -> before (class_name G x) k l.
Proof. exact orderer_direct. Qed.
Print Assumptions C11_orderer_direct.

(* Completeness of the class list: get_object_classes enumerates exactly the object classes
   among the roots and everything reachable from them, and the names of ANY returned order
   are exactly the names of those classes — none missing, none invented (no premise). *)
Theorem C11_classes_exact : forall paths G roots ocs,
  get_object_classes paths G roots = Some ocs ->
  forall c, In c ocs <->
    is_class G c = true /\ (In c roots \/ exists r, In r roots /\ reach paths G r c).
Proof. exact object_classes_exact. Qed.
Print Assumptions C11_classes_exact.
Theorem C11_order_names_exact : forall paths G roots l,
  orderer paths G roots = OOk l ->
  forall k, In k l <->
    exists c, class_name G c = k /\ is_class G c = true /\
              (In c roots \/ exists r, In r roots /\ reach paths G r c).
Proof. exact order_names_exact. Qed.
Print Assumptions C11_order_names_exact.

(* END TO END, for every identity graph and root list on which the enumeration returns (always,
   on well-formed graphs: C11_orderer_total) and whose object classes have unique names (the
   routine's documented precondition; without it see C03-K25): the dependency map that
   orderer() builds IS closed (dep_map_closed, from C11_walk_exact), so the premises of
   C11_loop_topological are discharged from the graph itself:
   - some object class reaches itself  =>  the schema-parse error, nothing else;
   - otherwise  =>  an order listing every class name exactly once in which every class that
     a class reaches, directly or through any chain of keyword positions, stands before it. *)
Theorem C11_end_to_end : forall paths G roots ocs ps,
  get_object_classes paths G roots = Some ocs -> dep_pairs paths G ocs = Some ps ->
  (forall a b, In a ocs -> In b ocs -> class_name G a = class_name G b -> a = b) ->
  ((exists c, In c ocs /\ reach paths G c c) -> orderer paths G roots = OSchemaParseError) /\
  ((forall c, In c ocs -> ~ reach paths G c c) ->
   exists l, orderer paths G roots = OOk l /\
     Permutation l (keys (dict_of_pairs ps)) /\
     forall c x, In c ocs -> reach paths G c x -> is_class G x = true ->
       before (class_name G x) (class_name G c) l).
Proof. exact orderer_end_to_end. Qed.
Print Assumptions C11_end_to_end.

(* "cycles are refused" made exact: the schema-parse error is raised for a class that reaches
   itself and for nothing else. *)
Theorem C11_refusal_exact : forall paths G roots ocs ps,
  get_object_classes paths G roots = Some ocs -> dep_pairs paths G ocs = Some ps ->
  (forall a b, In a ocs -> In b ocs -> class_name G a = class_name G b -> a = b) ->
  (orderer paths G roots = OSchemaParseError <-> exists c, In c ocs /\ reach paths G c c).
Proof. exact orderer_refusal_exact. Qed.
Print Assumptions C11_refusal_exact.

Theorem C11_unique_names_checker : forall G ocs, uniq_namesb G ocs = true ->
  forall a b, In a ocs -> In b ocs -> class_name G a = class_name G b -> a = b.
Proof. exact uniq_namesb_sound. Qed.
Print Assumptions C11_unique_names_checker.

Local Open Scope string_scope.
Local Open Scope list_scope.
(* the premises hold on a graph with a shared class and an intermediate non-class node *)
Example C11_end_to_end_nonvacuous :
  let G := [ {| n_class := Some (s_ "A"); n_kids := [(s_ "properties.*.element", [1; 3])] |};
             {| n_class := None; n_kids := [(s_ "items", [2])] |};
             {| n_class := Some (s_ "B"); n_kids := [(s_ "additionalProperties", [3])] |};
             {| n_class := Some (s_ "C"); n_kids := [] |} ] in
  match get_object_classes Gen_orderer_paths.paths G [0] with
  | Some ocs => uniq_namesb G ocs = true /\
                orderer Gen_orderer_paths.paths G [0] = OOk [s_ "C"; s_ "B"; s_ "A"]
  | None => False
  end.
Proof. vm_compute. split; reflexivity. Qed.
Example C11_direct_nonvacuous :
  let G := [ {| n_class := Some (s_ "A"); n_kids := [(s_ "properties.*.element", [1; 2])] |};
             {| n_class := Some (s_ "B"); n_kids := [(s_ "items", [2])] |};
             {| n_class := Some (s_ "C"); n_kids := [] |} ] in
  orderer Gen_orderer_paths.paths G [0] = OOk [s_ "C"; s_ "B"; s_ "A"].
Proof. vm_compute. reflexivity. Qed.
(* a two-node cycle through `items` with a shared leaf: well-formed, and the walk ends *)
Example C11_walk_nonvacuous :
  let G := [ {| n_class := Some (s_ "A"); n_kids := [(s_ "items", [1; 2])] |};
             {| n_class := None; n_kids := [(s_ "items", [0; 2])] |};
             {| n_class := Some (s_ "B"); n_kids := [] |} ] in
  wf_graphb Gen_orderer_paths.paths G = true /\
  get_children Gen_orderer_paths.paths G 0 = Some [1; 0; 0; 2; 2; 2].
Proof. vm_compute. split; reflexivity. Qed.
Example C11_sound_nonvacuous :
  order_names [(s_ "B", [s_ "A"]); (s_ "A", [])] = OOk [s_ "A"; s_ "B"] /\
  order_names [(s_ "B", [s_ "Z"]); (s_ "A", [])] = OAssertionError.
Proof. vm_compute. split; reflexivity. Qed.
