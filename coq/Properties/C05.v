(* C05 — defaults fill omitted values and never override supplied ones.  Statements only
   (Proofs/DefaultsProof.v) about Validate.build, the model of Element.__call__ /
   Object.__new__ + __init__ / Properties.__getitem__. *)
From Statham.Model Require Import Str Json Elem PyNum Validate.
From Statham.Proofs Require Import DefaultsProof.
From Statham.Model Require Import Plain Retr.
From Statham.Proofs Require Import C04Retrieve.

(* Calling ANY element or model class with no value: its own default, converted exactly as if it
   had been supplied when valid, returned as-is when not; NotPassed when it has none. *)
Theorem C05_no_value_law : forall O e,
  build O e None =
  match elem_default e with
  | None => Ok RNotPassed
  | Some d => match build O e (Some d) with
              | Ok r => Ok r
              | Rej => Ok (rv_of_json d)
              | Crash x => Crash x
              end
  end.
Proof. exact default_law. Qed.
Print Assumptions C05_no_value_law.

(* ... and it is never an error of the library *)
Theorem C05_no_value_never_rejects : forall O e, build O e None <> Rej.
Proof. exact no_value_never_rejects. Qed.
Print Assumptions C05_no_value_never_rejects.

(* A declared property that no pattern matches is built by its own element under its Python
   name, from the member value when supplied (mv = Some v) and from "no value" when omitted
   (mv = None) — so by the law above an omitted property shows its default, on the same terms. *)
Theorem C05_declared_member : forall O B k key mv ps name p,
  k_properties k = Some ps -> NoDup (map (fun np => p_source (snd np)) ps) -> In (name, p) ps -> p_source p = key ->
  map_matching_o (fun e' => B e' mv) (fun pat => re_search O pat key) (k_patternProperties k) = [] ->
  member O B k key mv = (name, B (p_elem p) mv).
Proof. exact member_declared. Qed.
Print Assumptions C05_declared_member.

(* A supplied value is judged without looking at the default at all. *)
Theorem C05_supplied_ignores_default : forall O c k v d,
  build O (EK c k) (Some v) =
  build O (EK c (mkK d (k_const k) (k_enum k) (k_items k) (k_additionalItems k) (k_minItems k) (k_maxItems k)
                    (k_uniqueItems k) (k_contains k) (k_minimum k) (k_maximum k) (k_exclusiveMinimum k)
                    (k_exclusiveMaximum k) (k_multipleOf k) (k_format k) (k_pattern k) (k_minLength k)
                    (k_maxLength k) (k_required k) (k_properties k) (k_patternProperties k)
                    (k_additionalProperties k) (k_minProperties k) (k_maxProperties k) (k_propertyNames k)
                    (k_dependencies k) (k_description k))) (Some v).
Proof. exact supplied_ignores_default. Qed.
Print Assumptions C05_supplied_ignores_default.

(* Properties.__call__ iterates over `merged_members`: the not-passed placeholders of every
   declared property (keyed by JSON name), overridden by the supplied members. *)
Theorem C05_members_iterated : forall O B k kvs,
  build_members O B k kvs =
  let '(s, rs) := collect (map (fun kv => member O B k (fst kv) (snd kv)) (merged_members k kvs)) in
  (s, dict_of_pairs rs).
Proof. exact build_members_unfold. Qed.
(* a supplied member is visited with its value — the placeholder never wins *)
Theorem C05_supplied_wins : forall k kvs key v, NoDup (keys kvs) -> lookup key kvs = Some v ->
  lookup key (merged_members k kvs) = Some (Some v).
Proof. exact supplied_wins. Qed.
Print Assumptions C05_supplied_wins.
(* every declared property is visited even when omitted, with "no value", whatever its JSON name *)
Theorem C05_omitted_is_visited : forall k kvs ps name p,
  k_properties k = Some ps -> In (name, p) ps -> p_source p <> [] -> lookup (p_source p) kvs = None ->
  lookup (p_source p) (merged_members k kvs) = Some None.
Proof. exact omitted_is_visited. Qed.
Print Assumptions C05_omitted_is_visited.

(* ---- end to end: what the result of an object call holds for an omitted declared property ---- *)
(* For every Element / model class e with keyword record k, every object value m it accepts:
   a declared property (Python name `name`, JSON name p_source p) that m omits and that no
   patternProperties regex matches (finding K12 otherwise) is present in the result under its
   PYTHON name, holding exactly what calling the property's element with no value returns - by
   C05_no_value_law its default converted as if supplied, or as-is when invalid, or the not-passed
   marker.  Premise local_safe (executable: Retr.local_safeb): well-formed property maps and no
   member of m named like the Python name of a renamed property (finding K13 otherwise). *)
Theorem C05_omitted_exposed : forall O e k m kvs' name p,
  props_of e = match k_properties k with Some l => l | None => [] end ->
  local_safe e (JObj m) -> NoDup (keys m) ->
  build_members O (build O) k m = (VPass, kvs') ->
  In (name, p) (props_of e) -> lookup (p_source p) m = None ->
  map_matching_o (fun e' => build O e' None) (fun pat => re_search O pat (p_source p)) (k_patternProperties k) = [] ->
  exists r, build O (p_elem p) None = Ok r /\ lookup name kvs' = Some r.
Proof. exact omitted_exposed. Qed.
Print Assumptions C05_omitted_exposed.
