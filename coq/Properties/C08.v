(* C08 — validation is pure and repeatable.  Statements only (Proofs/StoreProof.v,
   Proofs/Agree_writes.v). *)
From Coq Require Import String.
From Statham.Model Require Import Str Json Elem Validate Store Tables.
Local Open Scope string_scope.
Local Open Scope list_scope.
From Statham.Generated Require Gen_writes.
From Statham.Proofs Require Import StoreProof Agree_writes.

(* Every store statement the code (statham/schema outside the parser) contains is one of the
   audited ones: the three stores of _Property.bind, the reconfiguration API, the format
   registry, result objects, and in-place operators on fresh/immutable locals.  Regenerated
   from /repo on every run: a cache write, an in-place normalisation of the input, `+=` on an
   aliased list ... adds an entry and this obligation fails. *)
Theorem C08_writes_audited : forallb write_audited Gen_writes.writes = true.
Proof. exact writes_audited. Qed.
Print Assumptions C08_writes_audited.

(* The writes a validation call performs are re-binds of declared properties to their own key
   and owner.  From a well-bound store (established by every constructor) ANY finite sequence
   of them — any number of calls, accepted or rejected values, any element — leaves the store
   exactly as it was. *)
Theorem C08_pure : forall (h : homes) ops s,
  WB h s -> Forall (call_bind h) ops -> run s ops = s.
Proof. intros h ops s. exact (run_id h ops s). Qed.
Print Assumptions C08_pure.

(* ... and so does every prefix: repeated calls start from the same store, and since the
   evaluator (Validate.build) is a function of element, value and oracles only, they give
   the same outcome. *)
Theorem C08_repeatable : forall (h : homes) ops s,
  WB h s -> Forall (call_bind h) ops -> forall k, run s (firstn k ops) = s.
Proof. intros h ops s. exact (run_prefix_id h ops s). Qed.
Print Assumptions C08_repeatable.
Theorem C08_same_outcome : forall O e v (n : nat),
  Forall (fun o => o = build O e v) (repeat (build O e v) n).
Proof. intros. apply Forall_forall. intros o H. now apply repeat_spec in H. Qed.

(* non-vacuity: a bound property cell is well-bound and re-binding it changes nothing;
   an UNBOUND cell is changed by the same bind (the premise is necessary) *)
Example C08_wb_example :
  let c := mkCell (Some (s_ "class_")) (Some (s_ "class")) (Some 0) in
  wb_cell (s_ "class_") 0 c /\ bind c (Some (s_ "class_")) (Some 0) = c /\
  bind (mkCell None None None) (Some (s_ "class_")) (Some 0) <> mkCell None None None.
Proof. vm_compute. repeat split; auto; discriminate. Qed.
