(* C13 — elements always validate according to their current configuration.
   Statements only (Proofs/HistoryProof.v, StoreProof.v, Agree_writes.v). *)
From Statham.Model Require Import Str Store History Tables.
From Statham.Generated Require Gen_writes.
From Statham.Proofs Require Import StoreProof HistoryProof Agree_writes.

(* For every history of reconfigurations (keyword reassigned, properties assigned, a property
   added / replaced / removed) and validation calls, on an element or a model class: every call
   of the live element returns what the reference returns that has only seen the configuration
   operations, and the state left behind is the one those operations alone produce.
   Premises (about the code, tied below and by the history correspondence):
     - a call's writes are binds of declared properties to their own key and owner;
     - the reconfiguration API leaves the property cells well-bound. *)
Theorem C13_current :
  forall (S V R C : Type) (apply_cfg : S -> C -> S) (rebind : S -> C -> store -> store)
         (call_binds : S -> list wop) (eval : S -> store -> V -> R) (home : S -> homes),
  (forall s, Forall (call_bind (home s)) (call_binds s)) ->
  (forall s c st, WB (home s) st -> WB (home (apply_cfg s c)) (rebind s c st)) ->
  forall ops s st, WB (home s) st ->
    fst (hrun S V R C apply_cfg rebind call_binds eval s st ops) = href S V R C apply_cfg rebind eval s st ops /\
    snd (hrun S V R C apply_cfg rebind call_binds eval s st ops) = cfg_only S V C apply_cfg rebind s st ops.
Proof. intros S V R C a r cb ev home H1 H2 ops s st. exact (live_equals_reference S V R C a r cb ev home H1 H2 ops s st). Qed.
Print Assumptions C13_current.

(* the call made after any history answers as a fresh element configured by the
   configuration operations alone *)
Theorem C13_last_call :
  forall (S V R C : Type) (apply_cfg : S -> C -> S) (rebind : S -> C -> store -> store)
         (call_binds : S -> list wop) (eval : S -> store -> V -> R) (home : S -> homes),
  (forall s, Forall (call_bind (home s)) (call_binds s)) ->
  (forall s c st, WB (home s) st -> WB (home (apply_cfg s c)) (rebind s c st)) ->
  forall ops v s st, WB (home s) st ->
    fst (hrun S V R C apply_cfg rebind call_binds eval s st (ops ++ [HCall V C v])) =
    href S V R C apply_cfg rebind eval s st ops ++
    [eval (fst (cfg_only S V C apply_cfg rebind s st ops)) (snd (cfg_only S V C apply_cfg rebind s st ops)) v].
Proof. intros S V R C a r cb ev home H1 H2 ops v s st. exact (last_call_sees_current_configuration S V R C a r cb ev home H1 H2 ops v s st). Qed.
Print Assumptions C13_last_call.

(* no derived state in the code: the write set read from /repo has nothing but the audited
   stores (a memoised validator list, a cached Properties helper ... would add an entry) *)
Theorem C13_no_hidden_state : forallb write_audited Gen_writes.writes = true.
Proof. exact writes_audited. Qed.
Print Assumptions C13_no_hidden_state.

(* non-vacuity: a two-keyword configuration, calls interleaved with a reassignment *)
Example C13_example :
  let apply_cfg := fun (s : nat * nat) (c : bool * nat) => if fst c then (snd c, snd s) else (fst s, snd c) in
  let eval := fun (s : nat * nat) (_ : store) (v : nat) => Nat.leb (fst s) v && Nat.leb v (snd s) in
  fst (hrun (nat * nat) nat bool (bool * nat) apply_cfg (fun _ _ st => st) (fun _ => []) eval (0, 5) []
         [HCall _ _ 7; HCfg _ _ (false, 9); HCall _ _ 7; HCfg _ _ (true, 8); HCall _ _ 7]) = [false; true; false].
Proof. vm_compute. reflexivity. Qed.
