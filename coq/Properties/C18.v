(* C18 — an element's repr is the expression that rebuilds it.  Statements only; proofs in
   Proofs/ReprProof.v.  The signatures are the ones regenerated from /repo on every run. *)
From Coq Require Import String.
From Statham.Model Require Import Str Json Elem Tables Repr.
From Statham.Generated Require Gen_signatures.
From Statham.Proofs Require Import ReprProof.

(* For every element class, composition class, Not, Nothing and the property wrapper: for ANY
   attribute valuation `get`, over any value domain V with a reflexive == and list packing
   that == preserves, the (positional, keyword) arguments that custom_repr_args prints bind
   through the constructor signature to attributes that are pairwise == to the originals. *)
Theorem C18_roundtrip :
  forall (V : Type) (veq : V -> V -> bool) (unpack : V -> list V) (pack : list V -> V) (np : V) (inj : json -> V),
  (forall x, veq x x = true) -> (forall x, veq x (pack (unpack x)) = true) ->
  forall (get : str -> V) sig, In sig all_signatures ->
  let ps := map (conv V np inj) sig in
  exists attrs, bind_sig V pack ps (fst (repr_args V veq unpack ps get)) (snd (repr_args V veq unpack ps get)) = Some attrs /\
                Forall2 (attr_ok V veq get) ps attrs.
Proof. exact repr_roundtrip_generated. Qed.
Print Assumptions C18_roundtrip.

(* Keywords left at the constructor default are omitted and every other keyword appears. *)
Theorem C18_minimal :
  forall (V : Type) (veq : V -> V -> bool) (unpack : V -> list V) (np : V) (inj : json -> V)
         (get : str -> V) sig n d, In sig all_signatures ->
  let ps := map (conv V np inj) sig in
  In (n, KwOnly, d) ps ->
  has_key n (snd (repr_args V veq unpack ps get)) =
  negb (match d with Some dv => veq (get n) dv | None => false end).
Proof. exact repr_minimal_generated. Qed.
Print Assumptions C18_minimal.

(* The premise on the code: every constructor signature still has the shape
   (required positionals, at most one *args, keyword-only parameters with defaults) and
   distinct parameter names — e.g. giving Array's `items` a default would break it. *)
Theorem C18_signature_shapes :
  forallb (fun sig => shape_rows sig && nodupb (sig_names sig)) all_signatures = true.
Proof. exact all_signatures_shape. Qed.
Print Assumptions C18_signature_shapes.

(* non-vacuity: String(minLength=3) over V = option nat prints exactly minLength *)
Example C18_example :
  let get := fun n : str => if str_eqb n (s_ "minLength") then Some 3 else None in
  let ps := map (conv (option nat) None (fun _ => Some 0)) Gen_signatures.sig_String in
  map fst (snd (repr_args (option nat) (fun a b => match a, b with
                                                   | None, None => true
                                                   | Some x, Some y => Nat.eqb x y
                                                   | _, _ => false end) (fun _ => []) ps get)) = [s_ "minLength"].
Proof. vm_compute. reflexivity. Qed.
