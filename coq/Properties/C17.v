(* C17 — equal elements are interchangeable.  Statements only (proofs: Proofs/EqualityProof.v,
   Proofs/JsonEqProof.v).  Equality.v models Element.__eq__ / _Property.__eq__: same concrete
   class, keyword values compared through replace_bool (booleans never equal 0/1), dict-valued
   keywords order-insensitively, classes without their name. *)
From Coq Require Import String Floats.SpecFloat.
From Statham.Model Require Import Str Json Elem PyNum Validate Equality Sub.
From Statham.Proofs Require Import JsonEqProof EqualityProof.
Local Open Scope string_scope.
Local Open Scope list_scope.

(* Reflexive: every well-formed element tree equals itself (hence an independently built
   copy — the same tree — is equal). *)
Theorem C17_reflexive : forall a, ewf a -> elem_eq a a = true.
Proof. exact elem_eq_refl. Qed.
Print Assumptions C17_reflexive.

(* Symmetric, for all pairs of well-formed trees, any depth. *)
Theorem C17_symmetric : forall a b, ewf a -> ewf b -> elem_eq a b = elem_eq b a.
Proof. exact elem_eq_sym. Qed.
Print Assumptions C17_symmetric.

(* The literal equality underneath (keyword values): reflexive and symmetric on JSON values
   with finite floats and unique dict keys, in both readings (Python ==, bool-strict). *)
Theorem C17_literals_symmetric : forall alias a b, jwf a -> jwf b -> jeq alias a b = jeq alias b a.
Proof. exact jeq_sym. Qed.
Print Assumptions C17_literals_symmetric.
Theorem C17_literals_reflexive : forall alias a, jwf a -> jeq alias a a = true.
Proof. exact jeq_refl. Qed.
Print Assumptions C17_literals_reflexive.

(* Interchangeability is FALSE as stated, on the faithful model and on the code: equality
   identifies the int 2 with the float 2.0, but multipleOf takes a different arithmetic path
   for float divisors (binary64 quotient) than for int divisors (exact remainder).
   Witness replayed against the implementation on every run (finding C17-K17). *)
Definition k_mult (m : json) : kwds elem :=
  mkK None None None None (AddBool true) None None false None None None None None (Some m)
      None None None None None None None (AddBool true) None None None None None.
Theorem C17_interchangeable_refuted :
  exists O a b v, elem_eq a b = true /\ accepts O a v <> accepts O b v.
Proof.
  exists (mkO (fun _ _ => false) (fun _ => None)),
         (EK CElement (k_mult (JInt 2))),
         (EK CElement (k_mult (JFlt (S754_finite false 4503599627370496 (-51))))),
         (JInt 9007199254740993).
  split; vm_compute; [reflexivity|discriminate].
Qed.
Print Assumptions C17_interchangeable_refuted.

(* non-vacuity of the well-formedness premise *)
Example C17_wf_example :
  ewf (EK CElement (k_mult (JInt 2))) /\
  ewf (EComp MAny [EK CString k0; ENot ENothing (Some (JObj [(s_ "a", JInt 1)]))] None).
Proof.
  split; repeat (constructor; simpl; auto); repeat split; simpl; auto; try constructor; simpl; auto.
Qed.
