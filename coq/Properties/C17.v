(* C17 — equal elements are interchangeable.  Statements only (proofs: Proofs/EqualityProof.v,
   Proofs/JsonEqProof.v).  Equality.v models Element.__eq__ / _Property.__eq__: same concrete
   class, keyword values compared through replace_bool (booleans never equal 0/1), dict-valued
   keywords order-insensitively, classes without their name. *)
From Coq Require Import String Floats.SpecFloat.
From Statham.Model Require Import Str Json Elem PyNum Validate Equality Sub.
From Statham.Model Require Import Spec6 SerJson Plain SerFrag EqFrag ClsFrag Resolve RunSer DefsFrag.
From Statham.Proofs Require Import JsonEqProof EqualityProof JsonCong C01Vm C01Parse C03Meaning C17Cong C03Classes C17Classes SerJsonProof C03DefsDoc.
Local Open Scope string_scope.
Local Open Scope list_scope.

(* Reflexive: every well-formed element tree equals itself (hence an independently built
   copy — the same tree — is equal). *)
Theorem C17_reflexive : forall a, ewf a -> elem_eq a a = true.
Proof. exact elem_eq_refl. Qed.
Print Assumptions C17_reflexive.

(* Symmetric, for all pairs of well-formed trees, any depth. *)
Theorem C17_symmetric : forall a b, ewf a -> ewf b -> elem_eq a b = elem_eq b a.
Proof. exact elem_eq_sym. Qed.
Print Assumptions C17_symmetric.

(* The literal equality underneath (keyword values): reflexive and symmetric on JSON values
   with finite floats and unique dict keys, in both readings (Python ==, bool-strict). *)
Theorem C17_literals_symmetric : forall alias a b, jwf a -> jwf b -> jeq alias a b = jeq alias b a.
Proof. exact jeq_sym. Qed.
Print Assumptions C17_literals_symmetric.
Theorem C17_literals_reflexive : forall alias a, jwf a -> jeq alias a a = true.
Proof. exact jeq_refl. Qed.
Print Assumptions C17_literals_reflexive.

(* Interchangeability is FALSE as stated, on the faithful model and on the code: equality
   identifies the int 2 with the float 2.0, but multipleOf takes a different arithmetic path
   for float divisors (binary64 quotient) than for int divisors (exact remainder).
   Witness replayed against the implementation on every run (finding C17-K17). *)
Definition k_mult (m : json) : kwds elem :=
  mkK None None None None (AddBool true) None None false None None None None None (Some m)
      None None None None None None None (AddBool true) None None None None None.
Theorem C17_interchangeable_refuted :
  exists O a b v, elem_eq a b = true /\ accepts O a v <> accepts O b v.
Proof.
  exists (mkO (fun _ _ => false) (fun _ => None)),
         (EK CElement (k_mult (JInt 2))),
         (EK CElement (k_mult (JFlt (S754_finite false 4503599627370496 (-51))))),
         (JInt 9007199254740993).
  split; vm_compute; [reflexivity|discriminate].
Qed.
Print Assumptions C17_interchangeable_refuted.

(* non-vacuity of the well-formedness premise *)
Example C17_wf_example :
  ewf (EK CElement (k_mult (JInt 2))) /\
  ewf (EComp MAny [EK CString k0; ENot ENothing (Some (JObj [(s_ "a", JInt 1)]))] None).
Proof.
  split; repeat (constructor; simpl; auto); repeat split; simpl; auto; try constructor; simpl; auto.
Qed.

(* ---- interchangeability, where it holds ---- *)
(* The literal equality is a congruence for what validators do with literals: comparing any value
   with two equal literals gives the same answer (numbers by exact value - int vs float included -,
   arrays item-wise, dicts order-insensitively). *)
Theorem C17_literal_congruence : forall v, jwf v -> forall c1 c2, jwf c1 -> jwf c2 ->
  js_eq c1 c2 = true -> js_eq v c1 = js_eq v c2.
Proof. exact js_eq_cong. Qed.
Print Assumptions C17_literal_congruence.

(* Equal reference-free elements are interchangeable: their serialized documents have the same
   Draft-6 meaning on every value, and (C03_meaning) the elements accept the same values whenever
   neither call crashes - dict-valued keywords in any order, thresholds given as int or as the equal
   float, literals that are equal but not identical.  `good` = reference-free and DSL-constructible
   (C03's fragment), well-formed literals, and no float multipleOf parameter: exactly what finding
   K17 (C17_interchangeable_refuted) shows to be necessary.  Object classes (where equality is used
   by de-duplication and _from_definitions) are outside this theorem. *)
Theorem C17_equal_documents_same_meaning : forall O w, w <> WAlways ->
  forall a, good a -> forall b, good b -> elem_eq a b = true ->
  forall v, jwf v -> v6 O w (ser_top true true [] a) v = v6 O w (ser_top true true [] b) v.
Proof. intros O w Hw a Ga b Gb He v Hv. exact (ser_cong O w Hw a Ga b Gb He v Hv). Qed.
Print Assumptions C17_equal_documents_same_meaning.

Theorem C17_equal_same_verdict : forall O a b, good a -> good b -> elem_eq a b = true ->
  forall v, jwf v -> ncrash (build O a (Some v)) -> ncrash (build O b (Some v)) ->
  accepts O a v = accepts O b v.
Proof. intros O a b Ga Gb He v Hv N1 N2. exact (equal_same_verdict O WNever ltac:(discriminate) a b Ga Gb He v Hv N1 N2). Qed.
Print Assumptions C17_equal_same_verdict.

Theorem C17_premise_checker : forall fuel e, goodb fuel e = true -> good e.
Proof. exact goodb_sound. Qed.
Print Assumptions C17_premise_checker.

(* ---- trees WITH object classes ----------------------------------------------------------------------
   Equal trees (== ignores class names) of the fragment goodc - the fragment of C03_inplace_meaning,
   well-formed literals, no float multipleOf - have in-place documents with the same Draft-6 meaning
   (object clause with the required-with-default waiver included), hence accept the same values. *)
Theorem C17_equal_inplace_documents_same_meaning : forall O a b, goodc a -> goodc b -> elem_eq a b = true ->
  forall v, jwf v -> v6 O WCode (ser_inl a) v = v6 O WCode (ser_inl b) v.
Proof. intros O a b Ga Gb He. exact (ser_inl_cong O a Ga b Gb He). Qed.
Print Assumptions C17_equal_inplace_documents_same_meaning.

Theorem C17_equal_same_verdict_classes : forall O a b, goodc a -> goodc b -> elem_eq a b = true ->
  forall v, jwf v -> ncrash (build O a (Some v)) -> ncrash (build O b (Some v)) ->
  accepts O a v = accepts O b v.
Proof. intros O a b Ga Gb He v Hv N1 N2. exact (equal_same_verdict_classes O a b Ga Gb He v Hv N1 N2). Qed.
Print Assumptions C17_equal_same_verdict_classes.

Theorem C17_classes_premise_checker : forall fuel e, goodcb fuel e = true -> goodc e.
Proof. exact goodcb_sound. Qed.
Print Assumptions C17_classes_premise_checker.

(* non-vacuity: two equal trees whose classes carry DIFFERENT names (== ignores the name), both within goodc, and the
   in-place documents / the validator agree on an accepted and on a rejected value *)
Definition c17_cls (n : string) : elem :=
  EObj (s_ n) [s_ "Object"]
       (mkK None None None None (AddBool true) None None false None None None None None None None None None None (Some [s_ "a"])
            (Some [(s_ "a", mkProp (EK CString k0) true (s_ "a"));
                   (s_ "n", mkProp (EK CInteger k0) false (s_ "n"))])
            None (AddBool false) None None None None None).
Definition c17_tree (n : string) : elem :=
  EK CArray (mkK None None None (Some (ItOne (c17_cls n))) (AddBool true) None None false None None None None None None None None None None None None None (AddBool true) None None None None None).
Example C17_classes_inhabited :
  elem_eq (c17_tree "Foo") (c17_tree "Bar") = true /\ goodc (c17_tree "Foo") /\ goodc (c17_tree "Bar") /\
  accepts no_oracle (c17_tree "Foo") (JArr [JObj [(s_ "a", JStr (s_ "x")); (s_ "n", JInt 1)]]) = true /\
  accepts no_oracle (c17_tree "Bar") (JArr [JObj [(s_ "a", JStr (s_ "x")); (s_ "n", JInt 1)]]) = true /\
  accepts no_oracle (c17_tree "Foo") (JArr [JObj [(s_ "n", JInt 1)]]) = false /\
  accepts no_oracle (c17_tree "Bar") (JArr [JObj [(s_ "n", JInt 1)]]) = false.
Proof.
  split; [vm_compute; reflexivity|].
  split; [apply (goodcb_sound 20); vm_compute; reflexivity|].
  split; [apply (goodcb_sound 20); vm_compute; reflexivity|].
  repeat split; vm_compute; reflexivity.
Qed.

(* ---- "replacing an element by a reference to an equal definition never changes meaning" ---------------
   serialize_json with caller-supplied definitions does exactly that (_from_definitions): every sub-element
   == to a definition becomes a reference to it.  The resolved document still accepts exactly what the tree
   accepts (the statement is C03_meaning_definitions; it is a consequence of the congruence above). *)
Theorem C17_reference_to_equal_definition : forall O cd classes fuel e,
  cd_okb cd classes fuel e = true -> e <> ENothing ->
  exists n0, forall n, n0 <= n ->
    exists R, resolve_doc n (ser_doc cd e classes) = Some R /\
              forall v, jwf v -> om (build O e (Some v)) (v6 O WCode R v).
Proof. exact doc_meaning_defs. Qed.
Print Assumptions C17_reference_to_equal_definition.
