(* C10 — only validation and schema-parse errors escape; no crash on any JSON input.
   Statements only (Proofs/NoCrashProof.v) about Validate.build, whose outcome type has an
   explicit Crash constructor fed by the model of where Python arithmetic raises (PyNum.v:
   float(int) OverflowError, the multipleOf kernel as it is after fix 2eb3576).
   Termination: build is a structural Fixpoint — every call terminates by construction. *)
From Coq Require Import String.
From Statham.Model Require Import Str Json Elem PyNum Validate Sub.
From Statham.Proofs Require Import NoCrashProof.
Local Open Scope string_scope.
Local Open Scope list_scope.

(* For ANY element tree, ANY oracle behaviour (regex, format checkers as predicates) and ANY
   value: the call returns a result or the validation error — never another exception —
   provided the two arithmetic primitives succeed on the numbers in play: `A` is any set of
   admissible numbers such that float(int) succeeds on its integers, every number of the
   value and of the tree's defaults is in A (okV), and every multipleOf parameter of the tree
   is one on which the kernel succeeds against all of A (okE). *)
Theorem C10_call_total : forall O (A : num -> Prop),
  (forall z, A (NZ z) -> exists f, py_float_of_int z = PVal f) ->
  forall e, okE A e -> forall ov, okOV A ov -> nc (build O e ov).
Proof. exact build_no_crash. Qed.
Print Assumptions C10_call_total.

(* An instance with no arithmetic premise left: values and defaults whose numbers are integers
   that float() accepts, multipleOf parameters that are non-zero integers. *)
Definition int_ok (n : num) : Prop :=
  exists z, n = NZ z /\ exists f, py_float_of_int z = PVal f.
Lemma int_kernel_total : forall v m, m <> 0%Z -> exists b, multiple_of_check (NZ v) (NZ m) = PVal b.
Proof.
  intros v m Hm. unfold multiple_of_check. destruct (Z.eqb_spec m 0); [contradiction|]. eauto.
Qed.
Theorem C10_integers_total : forall O e ov,
  okE int_ok e -> okOV int_ok ov -> nc (build O e ov).
Proof.
  intros O e ov He Hov. apply (build_no_crash O int_ok); auto. intros z (z' & E & f & Hf). injection E as <-. eauto.
Qed.
Print Assumptions C10_integers_total.

(* the premise is necessary (finding K8): an integer beyond the float range reaching a number
   schema does crash, in the model as in the code *)
Theorem C10_number_overflow_refuted :
  exists O e v, build O e (Some v) = Crash OverflowError.
Proof.
  exists (mkO (fun _ _ => false) (fun _ => None)), (EK CNumber k0), (JInt (10 ^ 400)).
  vm_compute. reflexivity.
Qed.

(* non-vacuity: a tree with a multipleOf and a nested default satisfies the premises *)
Example C10_premises_satisfiable :
  okE int_ok (EK CElement (mkK (Some (JArr [JInt 3])) None None (Some (ItOne (EK CInteger
      (mkK None None None None (AddBool true) None None false None None None None None (Some (JInt 2))
           None None None None None None None (AddBool true) None None None None None))))
      (AddBool true) None None false None None None None None None None None None None None None None (AddBool true) None None None None None))
  /\ okOV int_ok (Some (JObj [(s_ "a", JInt 7)])).
Proof.
  split.
  - constructor.
    + simpl. split; [|exact I]. split; [|exact I]. exists 3%Z. split; [reflexivity|]. eexists. vm_compute. reflexivity.
    + simpl. constructor; [|constructor]. constructor; [|constructor].
      simpl. split; [exact I|]. intros vn (z & -> & _). eexists. reflexivity.
  - simpl. split; [|exact I]. exists 7%Z. split; [reflexivity|]. eexists. vm_compute. reflexivity.
Qed.
