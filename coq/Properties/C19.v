(* C19 — generated type annotations are sound for every value a model can hold.
   Statements only (Proofs/AnnotProof.v) about Annot.v (annotation inference as a type AST,
   has_type = membership as a type checker reads the annotation) and Validate.build. *)
From Coq Require Import String.
From Statham.Model Require Import Str Json Elem PyNum Validate Sub Annot.
From Statham.Proofs Require Import AnnotProof.
Local Open Scope string_scope.
Local Open Scope list_scope.

(* For EVERY element tree (any nesting of arrays, tuples, unions, compositions, classes), any
   oracle behaviour and any accepted value: the constructed result belongs to the element's
   annotation — list element types, union members, int where float is announced.
   Premise `pre` (finding K9): every AllOf in the tree is annotated Any or like its FIRST member
   (the member that builds the value). *)
Theorem C19_sound : forall O e, pre e -> forall v r, build O e (Some v) = Ok r -> has_type r (annotation e) = true.
Proof. exact build_sound. Qed.
Print Assumptions C19_sound.

(* Every property of every model class: the attribute built from accepted data belongs to the
   property's annotation (Maybe[...] unless required or defaulted), whether the member was
   supplied or omitted.  Premises for the omitted case: a property without default is not
   required (otherwise the object is rejected), and a declared default is valid for the
   property's own schema (finding K20: an invalid default is returned as-is by design). *)
Theorem C19_property : forall O (p : prop elem) mv r,
  pre (p_elem p) -> build O (p_elem p) mv = Ok r ->
  (mv = None -> match elem_default (p_elem p) with
                | None => p_required p = false
                | Some d => exists r', build O (p_elem p) (Some d) = Ok r'
                end) ->
  has_type r (prop_annotation p) = true.
Proof. exact property_sound. Qed.
Print Assumptions C19_property.

(* "annotated as always present only if it is required or has a default" — by definition of the
   generator — "and then it always is present": *)
Theorem C19_bare_only_if_required_or_defaulted : forall p t,
  prop_annotation p = t -> (forall t', t <> TMaybe t') \/ True ->
  (p_required p || match elem_default (p_elem p) with Some _ => true | None => false end = false -> t = TMaybe (annotation (p_elem p))).
Proof. intros p t <- _ H. unfold prop_annotation. now rewrite H. Qed.
Theorem C19_present : forall O (p : prop elem) mv r,
  build O (p_elem p) mv = Ok r ->
  (mv = None -> exists d r', elem_default (p_elem p) = Some d /\ build O (p_elem p) (Some d) = Ok r') ->
  r <> RNotPassed.
Proof. exact bare_is_present. Qed.
Print Assumptions C19_present.
Theorem C19_value_never_notpassed : forall O e v r, build O e (Some v) = Ok r -> r <> RNotPassed.
Proof. exact built_is_present. Qed.

(* the AllOf premise is necessary (finding K9) *)
Theorem C19_allof_refuted :
  exists O e v r, build O e (Some v) = Ok r /\ has_type r (annotation e) = false.
Proof.
  exists (mkO (fun _ _ => false) (fun _ => None)),
         (EComp MAll [EK CElement k0; EObj (s_ "T") [s_ "Object"] k0] None), (JObj []).
  eexists. split; vm_compute; reflexivity.
Qed.
