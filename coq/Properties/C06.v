(* C06 — serialize-then-parse is the identity on statham's normal form.
   PARTIAL.  The two directions are modelled (Parser.v, SerJson.v) and tied to the code by
   correspondence; the ingredients below are proved.  The round-trip statement itself is decided on
   each run by the real pipeline (materialize -> parse -> serialize, three times) because
   (i) json_ref_dict.materialize is third-party and (ii) class-name de-duplication makes it false
   in general (finding C06-K22: names assigned in traversal order can swap on every trip). *)
From Coq Require Import String.
From Statham.Model Require Import Str Json Elem PyNum Validate Equality Names Tables Parser SerJson.
From Statham.Generated Require Gen_signatures Gen_unicode Gen_reserved Gen_constants Gen_parser_tables.
From Statham.Model Require Import Spec6 Plain RunHelpers NfFrag.
From Statham.Proofs Require Import Agree_tables ParserDefaultProof SerJsonProof NamesProof JsonEqProof C01Plain C01Parse C03Meaning C06Meaning C06RoundBase C06Round C06Image.
From Statham.Proofs Require C01Examples.
Local Open Scope string_scope.
Local Open Scope list_scope.

(* parser side: no default is lost (any shape, any default value) *)
Theorem C06_parser_keeps_default : forall cfg kvs st e st' d,
  lookup (s_ "default") kvs = Some d ->
  parse_element cfg (JObj kvs) st = POk (e, st') ->
  e = ENothing \/ carried (strip_autotitle d) e.
Proof. exact parse_element_keeps_default. Qed.
Print Assumptions C06_parser_keeps_default.

(* serializer side: required names and property keys *)
Theorem C06_serializer_required : forall k n,
  In n (match merged_required true k with Some l => l | None => [] end) <->
  (In n (match k_required k with Some l => l | None => [] end) \/
   exists np, In np (match k_properties k with Some l => l | None => [] end) /\ p_required (snd np) = true /\ source_of np = n).
Proof. exact required_complete. Qed.
Theorem C06_serializer_property_keys : forall F l, keys (s_props true F l) = map source_of l.
Proof. exact properties_keyed_by_source. Qed.

(* both directions enumerate the same keyword set: Element.__init__'s signature *)
Theorem C06_same_keyword_set : strs_eqb (sig_names Gen_signatures.sig_Element) sig_element = true.
Proof. exact sig_element_agree. Qed.

(* the title instability behind finding K22: a suffixed class name formats back to the bare name *)
Theorem C06_suffix_not_stable_refuted :
  title_format (s_ "Item_1") = s_ "Item" /\ title_format (s_ "Item") = s_ "Item".
Proof. split; vm_compute; reflexivity. Qed.

(* the normal form keeps the meaning: for every schema of the class-free fragment with non-empty
   property names, the element the parser returns lies in the fragment of C03_meaning, and the
   document serialized from it is accepted by exactly the values the source schema accepts
   (Spec6.v6 on both documents), for every value on which the element's own call does not crash.
   No keyword value is lost, altered or invented in a way that changes what is accepted. *)
Theorem C06_normal_form_keeps_meaning : forall cfg O S0 st e st',
  comp_complete cfg -> plain cfg false S0 -> named S0 ->
  parse_element cfg S0 st = POk (e, st') ->
  dsl e /\
  forall v, jwf v -> ncrash (build O e (Some v)) ->
    v6 O WNever (ser_top true true [] e) v = v6 O WNever S0 v.
Proof. exact normal_form_keeps_meaning. Qed.
Print Assumptions C06_normal_form_keeps_meaning.

(* keyword level: the record the parser rebuilds from the keyword list the serializer emitted for
   an element (given its sub-elements) carries the same value for every keyword: const, enum,
   items, additionalItems, min/maxItems, uniqueItems, contains, the six numeric keywords, format,
   pattern, min/maxLength, properties, patternProperties, additionalProperties, min/maxProperties,
   propertyNames, dependencies (same_but lists them; default and description: the C07_serialized theorems) *)
Theorem C06_keywords_round_trip : forall c k, local_dsl (EK c k) ->
  same_but k (kw_record (ser_kwds true true sub k ++ json_type c)
                        (k_properties k) (k_items k) (k_patternProperties k) (k_propertyNames k)
                        (k_contains k) (k_dependencies k) (k_additionalProperties k) (k_additionalItems k)).
Proof. exact bridge_same. Qed.
Print Assumptions C06_keywords_round_trip.

(* finding K24: the round trip is NOT idempotent on every parsed schema.  An allOf member whose only
   keyword is an empty `required` list is an element different from Element() (kept by the parser)
   that the serializer writes as {} (it deletes an empty required list); the next parse drops it. *)
Definition k24_cfg : pcfg :=
  mkCfg (tbl_unicode Gen_unicode.alnum_ranges []) Gen_reserved.reserved
        Gen_constants.unsupported_keywords Gen_parser_tables.comp_order_now.
Definition k24_schema : json :=
  JObj [(s_ "allOf", JArr [JObj [(s_ "required", JArr [])]; JObj [(s_ "type", JStr (s_ "string"))]])].
Definition trip (S : json) : option json :=
  match parse_element k24_cfg S [] with
  | POk (e, _) => Some (ser_top true true [] e)
  | PErr _ => None
  end.
Theorem C06_idempotence_refuted :
  exists J1 J2, trip k24_schema = Some J1 /\ trip J1 = Some J2 /\ J1 <> J2 /\
                J1 = JObj [(s_ "allOf", JArr [JObj []; JObj [(s_ "type", JStr (s_ "string"))]])] /\
                J2 = JObj [(s_ "type", JStr (s_ "string"))].
Proof.
  eexists. eexists. split; [vm_compute; reflexivity|]. split; [vm_compute; reflexivity|].
  split; [discriminate|]. split; reflexivity.
Qed.
Print Assumptions C06_idempotence_refuted.

(* ---- the syntactic round trip on the class-free normal form -------------------------------------
   nf (C06RoundBase.v) describes what the parser builds from class-free schemas: literals free of
   _x_autotitle, only keywords of the class's constructor, properties keyed by the attribute name of
   their JSON name with the required flag read off the required list, no empty required list or
   properties map (finding K24 otherwise), dependencies listed names first, compositions with at
   least two members and no Element() member in an allOf.  For every such element, in every parse
   state, parsing the document the serializer writes returns the element itself and leaves the
   state alone; so a further round trip reproduces the document exactly. *)
Theorem C06_round_trip_normal_form : forall cfg e st, cfg_okb cfg = true -> nf cfg e ->
  parse_element cfg (ser_top true true [] e) st = POk (e, st).
Proof. intros cfg e st Hc Hn. exact (ser_parse_id cfg Hc e Hn st). Qed.
Print Assumptions C06_round_trip_normal_form.

Theorem C06_round_trip_document : forall cfg e st e' st', cfg_okb cfg = true -> nf cfg e ->
  parse_element cfg (ser_top true true [] e) st = POk (e', st') ->
  e' = e /\ st' = st /\ ser_top true true [] e' = ser_top true true [] e.
Proof. intros cfg e st e' st' Hc Hn H. exact (round_trip_document cfg e st e' st' Hc Hn H). Qed.
Print Assumptions C06_round_trip_document.

(* the premises are decided by computation: the executable checker of the normal form is sound, and
   the configuration read from /repo (refused keywords, composition keyword order) satisfies cfg_okb *)
Theorem C06_normal_form_checker : forall cfg fuel e, nfb cfg fuel e = true -> nf cfg e.
Proof. exact nfb_sound. Qed.
Print Assumptions C06_normal_form_checker.

Theorem C06_real_config_round : forall u r,
  cfg_okb (mkCfg u r Gen_constants.unsupported_keywords Gen_parser_tables.comp_order_now) = true.
Proof. intros u r. vm_compute. reflexivity. Qed.

(* ---- end to end on the class-free fragment -----------------------------------------------------
   For every schema of the class-free fragment of C01 (plain) without an empty property name (named:
   finding C12-K4 otherwise) and tidy (no empty required list, no empty properties object: finding K24
   otherwise; additionalItems / additionalProperties a boolean or a schema without composition
   keywords), in every parse state: the element the parser returns lies in the normal form, so
   parsing its serialization returns the same element and the second round trip writes the document
   of the first.  No keyword value is lost, altered or invented by any further round trip. *)
Theorem C06_parser_image_normal : forall cfg S0 st e st', cfg_okb cfg = true ->
  plain cfg false S0 -> named S0 -> tidy S0 -> parse_element cfg S0 st = POk (e, st') -> nf cfg e.
Proof. exact image_in_normal_form. Qed.
Print Assumptions C06_parser_image_normal.

Theorem C06_idempotent_classfree : forall cfg S0 st e st', cfg_okb cfg = true ->
  plain cfg false S0 -> named S0 -> tidy S0 -> parse_element cfg S0 st = POk (e, st') ->
  forall st2, exists e2 st3,
    parse_element cfg (ser_top true true [] e) st2 = POk (e2, st3) /\ e2 = e /\ st3 = st2 /\
    ser_top true true [] e2 = ser_top true true [] e.
Proof.
  intros cfg S0 st e st' Hc Hp Hn Ht H st2. exists e, st2.
  split; [exact (second_trip_identity cfg S0 st e st' Hc Hp Hn Ht H st2)|auto].
Qed.
Print Assumptions C06_idempotent_classfree.

Theorem C06_schema_checker : forall fuel S0, named_tidyb fuel S0 = true -> named S0 /\ tidy S0.
Proof. exact named_tidyb_sound. Qed.

Example C06_fragment_inhabited :
  plainb C01Examples.ex_cfg false 50 C01Examples.ex_schema && named_tidyb 50 C01Examples.ex_schema = true.
Proof. vm_compute. reflexivity. Qed.

(* non-vacuity: the element parsed from the example schema of C01Examples.v (every keyword family,
   compositions, tuple items, dependencies of both kinds) lies in the normal form *)
Example C06_normal_form_inhabited :
  match parse_element C01Examples.ex_cfg C01Examples.ex_schema [] with
  | POk (e, _) => nfb C01Examples.ex_cfg 50 e = true
  | PErr _ => False
  end.
Proof. vm_compute. reflexivity. Qed.
