(* C09 — code generation and serialization are deterministic across processes.
   Statements only (Proofs/DeterminismProof.v).  The hash function and the process environment
   are runtime; the model covers EVERY order a set could be enumerated in, which is stronger
   than any sample of seeds, but that sets are the only source of nondeterminism rests on the
   translator's scan of the package (Gen_setiter) — partial by nature. *)
From Coq Require Import String Permutation.
From Statham.Model Require Import Str Json Elem Names Tables Parser Canon.
From Statham.Generated Require Gen_setiter Gen_parser_tables.
From Statham.Proofs Require Import DeterminismProof.
Local Open Scope string_scope.
Local Open Scope list_scope.

(* every place in the package where a set's iteration order could be observed is one of the
   audited order-insensitive ones (regenerated from /repo on every run) *)
Theorem C09_set_iteration_audited : forallb site_audited Gen_setiter.setiter_sites = true.
Proof. exact setiter_audited. Qed.
Print Assumptions C09_set_iteration_audited.

(* the composition keywords are visited in an order that does not depend on how sets iterate:
   for ALL behaviours pi1, pi2 of set iteration the parser (hence class names, hence both
   serializations) computes the same thing *)
Theorem C09_order_free : forall pi1 pi2, order_used pi1 = order_used pi2.
Proof. exact order_free. Qed.
Print Assumptions C09_order_free.
Theorem C09_parse_order_free : forall pi1 pi2 U reserved uns S,
  parse (mkCfg U reserved uns (order_used pi1)) S = parse (mkCfg U reserved uns (order_used pi2)) S.
Proof. exact parse_order_free. Qed.
Print Assumptions C09_parse_order_free.

(* names collected in a set and passed through sorted(): the emitted list is the same for every
   enumeration order of the set (import line of the generated module) *)
Theorem C09_sorted_is_order_free : forall l1 l2, Permutation l1 l2 -> isort l1 = isort l2.
Proof. exact sorted_output_order_free. Qed.
Print Assumptions C09_sorted_is_order_free.

(* the premise is necessary: if the composition keywords were iterated as a set (the code
   before fix 95e6237), two enumeration orders give different class names for this document *)
Theorem C09_set_iteration_refuted :
  match parse_element (cfg_order [s_ "anyOf"; s_ "oneOf"; s_ "allOf"]) witness_doc [],
        parse_element (cfg_order [s_ "allOf"; s_ "oneOf"; s_ "anyOf"]) witness_doc [] with
  | POk (e1, _), POk (e2, _) => json_eqb (canon_elem e1) (canon_elem e2) = false
  | _, _ => False
  end.
Proof. exact set_order_matters. Qed.
