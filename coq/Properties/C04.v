(* C04 — an accepted value comes back complete and unaltered inside the model.
   Statements only (Proofs/FaithfulProof.v, DefaultsProof.v, C04Retrieve.v).  C04_complete is the
   recursive statement: every member of the input at every depth is held by the result (any
   element tree, composition branch, nesting), under the premise that no object of the value uses
   the Python name of a renamed property as a member name (finding K13 otherwise) and that the
   property maps are well-formed.  The per-element lemmas below say under which names. *)
From Coq Require Import String Floats.SpecFloat.
From Statham.Model Require Import Str Json Elem PyNum Validate.
From Statham.Model Require Import Plain Retr.
From Statham.Proofs Require Import FaithfulProof DefaultsProof JsonEqProof C04Retrieve C04Only.
Local Open Scope string_scope.

(* scalars are returned unaltered by every class except Number *)
Theorem C04_scalar_unaltered : forall O c k v r, scalar v = true -> c <> CNumber ->
  build O (EK c k) (Some v) = Ok r -> r = rv_of_json v.
Proof. exact scalar_unaltered. Qed.
Print Assumptions C04_scalar_unaltered.

(* a number schema returns float(int) for an int and the float itself for a float *)
Theorem C04_number : forall O k v r, build O (EK CNumber k) (Some v) = Ok r ->
  match v with
  | JInt z => exists f, py_float_of_int z = PVal f /\ r = RFlt f
  | JFlt f => r = RFlt f
  | _ => False
  end.
Proof. exact number_result. Qed.
Print Assumptions C04_number.

(* arrays keep their length; without an items keyword every item is rebuilt by Element() *)
Theorem C04_array_length : forall O c k l r, c <> CNumber ->
  build O (EK c k) (Some (JArr l)) = Ok r -> exists rs, r = RList rs /\ length rs = length l.
Proof. exact array_keeps_length. Qed.
Print Assumptions C04_array_length.
Theorem C04_array_no_items : forall O c k l r, c <> CNumber -> k_items k = None ->
  build O (EK c k) (Some (JArr l)) = Ok r -> r = RList (map build_any l).
Proof. exact array_no_items. Qed.

(* objects: a declared member is stored under the Python name, an undeclared unmatched one
   under its JSON name *)
Theorem C04_declared_member : forall O B k key mv ps name p,
  k_properties k = Some ps -> NoDup (map (fun np => p_source (snd np)) ps) -> In (name, p) ps -> p_source p = key ->
  map_matching_o (fun e' => B e' mv) (fun pat => re_search O pat key) (k_patternProperties k) = [] ->
  member O B k key mv = (name, B (p_elem p) mv).
Proof. exact member_declared. Qed.
Theorem C04_additional_member : forall O B k key v,
  find_by_source_o (fun e' => B e' (Some v)) key (k_properties k) = None ->
  map_matching_o (fun e' => B e' (Some v)) (fun pat => re_search O pat key) (k_patternProperties k) = [] ->
  member O B k key (Some v) =
  (key, match k_additionalProperties k with
        | AddBool true => Ok (build_any v)
        | AddBool false => Rej
        | AddElem e => B e (Some v)
        end).
Proof. exact member_additional. Qed.

(* "the equal float" is FALSE beyond 2^53 (finding K8): 2^53+1 comes back as 2^53 *)
Theorem C04_equal_float_refuted :
  exists O k z f, build O (EK CNumber k) (Some (JInt z)) = Ok (RFlt f) /\ num_eqb (NZ z) (NF f) = false.
Proof.
  exists (mkO (fun _ _ => false) (fun _ => None)), k0, 9007199254740993%Z, (S754_finite false 4503599627370496 1).
  split; vm_compute; reflexivity.
Qed.
(* ... and two input members can land on one result key (finding K13) *)
Theorem C04_member_collision_refuted :
  exists O e v kvs, build O e (Some v) = Ok (RAnon kvs) /\ length kvs = 1%nat /\ exists m, v = JObj m /\ length m = 2%nat.
Proof.
  exists (mkO (fun _ _ => false) (fun _ => None)),
         (EK CElement (mkK None None None None (AddBool true) None None false None None None None None None None None None None None
                           (Some [(s_ "class_", mkProp EElement false (s_ "class"))]) None (AddBool true) None None None None None)),
         (JObj [(s_ "class", JInt 1); (s_ "class_", JInt 2)]).
  eexists. split; [vm_compute; reflexivity|]. split; [reflexivity|]. eexists. split; reflexivity.
Qed.

(* ---- the recursive statement ---- *)
(* holds r v: r is v with scalars unaltered (or float(int) under a number schema), arrays item
   by item in order, and every member of every object of v held under some key of the result. *)
Theorem C04_complete : forall O e v r, jwf v -> safe e v ->
  build O e (Some v) = Ok r -> holds r v.
Proof. intros O e v r Hw Hs H. exact (retrieve O e v r Hw Hs H). Qed.
Print Assumptions C04_complete.

Theorem C04_premise_checker : forall fuel e v, safeb fuel e v = true -> safe e v.
Proof. exact safeb_sound. Qed.
Print Assumptions C04_premise_checker.

(* ---- "the only members that were not in the input are declared properties" -------------------------------
   At every element or model class called on an object (premise: the local half of `safe` - well-formed property
   map, no member named like the Python name of a renamed property): each key of the model built is either the
   image of an input member (Retr: its Python name when declared, its JSON name otherwise) or the name of a
   declared property.  Through compositions the object is built by one of the members (C04_complete's induction),
   to which the statement applies in turn. *)
Theorem C04_no_invented_members : forall O e m r, local_safe e (JObj m) -> build O e (Some (JObj m)) = Ok r ->
  match e with
  | EK _ k | EObj _ _ k =>
    exists kvs', (r = RAnon kvs' \/ exists n, r = RInst n kvs') /\
      forall name, In name (keys kvs') ->
        (exists key x, In (key, x) m /\ name = name_of k key) \/ In name (keys (props_of e))
  | _ => True
  end.
Proof. exact no_invented_members. Qed.
Print Assumptions C04_no_invented_members.

Theorem C04_declared_name : forall k n p,
  NoDup (map (fun np : str * prop elem => p_source (snd np)) (match k_properties k with Some l => l | None => [] end)) ->
  In (n, p) (match k_properties k with Some l => l | None => [] end) -> name_of k (p_source p) = n.
Proof. exact name_of_declared. Qed.
