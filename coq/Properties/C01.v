(* C01 — verdicts match Draft 6 (placeholder set, extended below as proofs land). *)
From Statham.Model Require Import Str Json Elem PyNum Validate Tables.
From Statham.Proofs Require Import Agree_tables.

Theorem C01_thresholds_from_code : thr_eqb Statham.Generated.Gen_validators.thresholds thresholds = true.
Proof. exact thresholds_agree. Qed.
Print Assumptions C01_thresholds_from_code.
