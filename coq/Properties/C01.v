(* C01 — verdicts match Draft 6.
   Central theorem (class-free fragment): for every schema S of the plain fragment (C01Plain.plain:
   unique keys, schema-valued properties / patternProperties, distinct attribute names, non-empty
   anyOf / oneOf, literals free of "_x_autotitle", no node of type "object"), every parser
   configuration that parses all three list-valued composition keywords, every regex / format
   oracle, every parse state and every well-formed value: the element returned by
   parse_element accepts the value exactly when Spec6.v6 (the keyword-by-keyword Draft-6 reading of
   the RAW schema) holds, and raises the validation error exactly when it does not — unless the
   call crashes (C10's subject).  All keywords of the property are covered: type (incl. lists),
   enum, const, the numeric / length / count thresholds, multipleOf, pattern, format, items
   (single and tuple), additionalItems, contains, uniqueItems, properties, patternProperties,
   additionalProperties, required, propertyNames, dependencies (both forms), anyOf / oneOf /
   allOf / not and their restructuring by _parse_composition.
   Not covered by the theorem (covered by the correspondence and oracle runs): schemas with
   type "object" (named classes, deduplication through the parse state, the `required` waiver). *)
From Statham.Model Require Import Str Json Elem PyNum Validate Tables Parser Spec6 Plain Plain2.
From Statham.Proofs Require Import Agree_tables JsonEqProof C01Vm C01Plain C01Parse C01Thread C01Plain2 ParseReplay C01Thread2.

Theorem C01_thresholds_from_code : thr_eqb Statham.Generated.Gen_validators.thresholds thresholds = true.
Proof. exact thresholds_agree. Qed.
Print Assumptions C01_thresholds_from_code.

Theorem C01_validity_plain : forall cfg O w S0 st e st',
  w <> WAlways -> comp_complete cfg -> plain cfg false S0 ->
  parse_element cfg S0 st = POk (e, st') ->
  forall v, jwf v -> om (build O e (Some v)) (v6 O w S0 v).
Proof. exact validity_plain. Qed.
Print Assumptions C01_validity_plain.

Theorem C01_accepts_iff_valid : forall cfg O S0 st e st',
  comp_complete cfg -> plain cfg false S0 -> parse_element cfg S0 st = POk (e, st') ->
  forall v, jwf v -> ncrash (build O e (Some v)) ->
  accepts O e v = valid6 O S0 v /\ accepts O e v = valid6_strict O S0 v /\
  (build O e (Some v) = Rej <-> valid6 O S0 v = false).
Proof. exact accepts_iff_valid. Qed.
Print Assumptions C01_accepts_iff_valid.

(* the configuration regenerated from the source parses all three keywords *)
Theorem C01_real_config : forall u r un,
  comp_complete (mkCfg u r un Statham.Generated.Gen_parser_tables.comp_order_now).
Proof. exact real_comp_complete. Qed.
Print Assumptions C01_real_config.

(* the fragment is decidable by an executable checker (run by the harness on the schemas it tests) *)
Theorem C01_plain_checker : forall cfg objs fuel S0, plainb cfg objs fuel S0 = true -> plain cfg objs S0.
Proof. exact plainb_sound. Qed.
Print Assumptions C01_plain_checker.

(* ---- with object classes ---- *)
(* Schemas may contain nodes {"type": "object"} (named classes).  Premises: the fragment with
   objs = true (every required name of a class has a declared property whose schema has no
   composition keyword), and `walk`: along the parse no class name repeats, so the
   de-duplication of _ParseState returns each class itself (an earlier `==`-equal class is not a
   verdict-preserving substitute in general: finding C17-K17).  The reference semantics is
   valid6 = v6 with the documented waiver: a required property of a typed object may be omitted
   when its schema declares a default. *)
Theorem C01_validity_classes : forall cfg O S0 u u' st e st',
  comp_exact cfg -> plain cfg true S0 -> walk cfg u S0 u' -> Inv st u ->
  parse_element cfg S0 st = POk (e, st') ->
  forall v, jwf v -> om (build O e (Some v)) (valid6 O S0 v).
Proof. exact validity_classes. Qed.
Print Assumptions C01_validity_classes.

Theorem C01_validity_classes_top : forall cfg O S0 u' e st',
  comp_exact cfg -> plain cfg true S0 -> walk cfg [] S0 u' ->
  parse_element cfg S0 [] = POk (e, st') ->
  forall v, jwf v -> om (build O e (Some v)) (valid6 O S0 v).
Proof. exact validity_classes_top. Qed.
Print Assumptions C01_validity_classes_top.

Theorem C01_real_config_exact : forall u r un,
  comp_exact (mkCfg u r un Statham.Generated.Gen_parser_tables.comp_order_now).
Proof. exact real_comp_exact. Qed.
Print Assumptions C01_real_config_exact.

Theorem C01_fragment_checker : forall cfg objs fuel S0, in_fragment cfg objs fuel S0 = true ->
  plain cfg objs S0 /\ exists u', walk cfg [] S0 u'.
Proof. exact in_fragment_sound. Qed.
Print Assumptions C01_fragment_checker.

(* ---- schema objects met again ----------------------------------------------------------------------
   After $ref resolution a definition used in several places is the same JSON object in several
   positions.  walk2 (C01Plain2.v) lets the parser meet a schema object again - without walking it a
   second time, and with its class name already taken: by ParseReplay.replay the parser then returns
   the very element it built the first time and leaves the state alone, so that element still decides
   the schema.  Premise on the run: the classes of the final parse state are equal to themselves (true
   of every well-formed class; decided on the model's final state on every run). *)
Theorem C01_validity_classes_revisits : forall cfg O S0 u' e st',
  comp_exact cfg -> plain cfg true S0 -> walk2 cfg ([], []) S0 u' ->
  parse_element cfg S0 [] = POk (e, st') -> refl_state st' ->
  forall v, jwf v -> om (build O e (Some v)) (valid6 O S0 v).
Proof. exact validity_classes_revisits. Qed.
Print Assumptions C01_validity_classes_revisits.

Theorem C01_fragment2_checker : forall cfg fuel S0, in_fragment2 cfg fuel S0 = true ->
  plain cfg true S0 /\ exists u', walk2 cfg ([], []) S0 u'.
Proof. exact in_fragment2_sound. Qed.
Print Assumptions C01_fragment2_checker.

(* the parser is stable under growth of its state: the mechanism behind the theorem above *)
Theorem C01_parser_replay : forall cfg S st e st', parse_element cfg S st = POk (e, st') ->
  ext st st' /\ forall st2, ext st' st2 -> refl_state st2 -> parse_element cfg S st2 = POk (e, st2).
Proof. exact replay. Qed.

(* non-vacuity: one object schema used in two places (and once more inside a composition) *)
From Coq Require Import String List.
Import ListNotations.
From Statham.Model Require RunHelpers.
From Statham.Generated Require Gen_unicode Gen_reserved Gen_constants Gen_parser_tables.
Local Open Scope string_scope.
Local Open Scope list_scope.
Definition ex2_no_oracle : oracles := mkO (fun _ _ => false) (fun _ => None).
Definition ex2_shared : json :=
  JObj [(s_ "type", JStr (s_ "object")); (s_ "title", JStr (s_ "point"));
        (s_ "properties", JObj [(s_ "x", JObj [(s_ "type", JStr (s_ "integer"))])]);
        (s_ "required", JArr [JStr (s_ "x")])].
Definition ex2_schema : json :=
  JObj [(s_ "type", JStr (s_ "object")); (s_ "title", JStr (s_ "segment"));
        (s_ "properties", JObj [(s_ "a", ex2_shared); (s_ "b", ex2_shared);
                                (s_ "c", JObj [(s_ "anyOf", JArr [ex2_shared; JObj [(s_ "type", JStr (s_ "null"))]])])])].
Example C01_revisits_inhabited :
  let cfg := mkCfg (RunHelpers.tbl_unicode Statham.Generated.Gen_unicode.alnum_ranges []) Statham.Generated.Gen_reserved.reserved
                   Statham.Generated.Gen_constants.unsupported_keywords Statham.Generated.Gen_parser_tables.comp_order_now in
  in_fragment2 cfg 30 ex2_schema = true /\ in_fragment cfg true 30 ex2_schema = false /\
  match parse_element cfg ex2_schema [] with
  | POk (e, st') => refl_stateb st' = true /\
                    accepts ex2_no_oracle e (JObj [(s_ "a", JObj [(s_ "x", JInt 1)]); (s_ "c", JNull)]) = true /\
                    accepts ex2_no_oracle e (JObj [(s_ "b", JObj [])]) = false
  | PErr _ => False
  end.
Proof. vm_compute. repeat split; reflexivity. Qed.
