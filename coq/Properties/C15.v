(* C15 — a subclass model means its parent's schema plus its own additions.
   Statements only (Proofs/MetaProof.v).  Meta.meta_new models ObjectMeta.__new__. *)
From Statham.Model Require Import Str Json Elem Meta Store Tables.
From Statham.Generated Require Gen_writes Gen_signatures.
From Statham.Proofs Require Import MetaProof Agree_tables Agree_writes.

(* Flattening: for any parent (or none), any passed keywords and any body, the class declared
   WITHOUT a parent from the subclass's effective keywords and properties is the subclass —
   so it validates and serializes exactly like that single flat class. *)
Theorem C15_subclass_is_flat_class : forall parent passed ap own,
  let C := meta_new parent passed ap own in
  NoDup (keys (match k_properties C with Some l => l | None => [] end)) ->
  meta_new None C true (match k_properties C with Some l => l | None => [] end) = C.
Proof. exact meta_flatten. Qed.
Print Assumptions C15_subclass_is_flat_class.

(* Merge rule, keyword by keyword: the child's value if passed, else the parent's;
   additionalProperties falls back to the parent's and then to True. *)
Theorem C15_keyword_source : forall parent passed ap own,
  let C := meta_new parent passed ap own in
  let from {A} (f : kwds elem -> option A) :=
      match f passed with Some x => Some x | None => match parent with Some p => f p | None => None end end in
  k_default C = from k_default /\ k_const C = from k_const /\ k_enum C = from k_enum /\
  k_required C = from k_required /\ k_minProperties C = from k_minProperties /\
  k_maxProperties C = from k_maxProperties /\ k_patternProperties C = from k_patternProperties /\
  k_propertyNames C = from k_propertyNames /\ k_dependencies C = from k_dependencies /\
  k_description C = from k_description /\
  k_additionalProperties C = (if ap then k_additionalProperties passed
                              else match parent with Some p => k_additionalProperties p | None => AddBool true end).
Proof. exact meta_keyword_source. Qed.
Print Assumptions C15_keyword_source.

(* Properties: the body's declaration wins, every other parent property is inherited. *)
Theorem C15_properties : forall parent passed ap own name,
  let C := meta_new parent passed ap own in
  let pp := match parent with Some p => match k_properties p with Some l => l | None => [] end | None => [] end in
  lookup name (match k_properties C with Some l => l | None => [] end) =
  match lookup name (rev own) with Some p => Some p | None => lookup name pp end.
Proof. exact meta_properties. Qed.
Print Assumptions C15_properties.

(* Isolation: the child's inherited properties are clones (fresh cells): any write to a child's
   cell leaves every other cell — in particular the parent's — as it was; and the code has no
   store outside the audited set (no attribute shared through the inheritance chain is written). *)
Theorem C15_isolation_frame : forall s i n p j, i <> j -> nth_error (step s (OBind i n p)) j = nth_error s j.
Proof. exact step_frame. Qed.
Print Assumptions C15_isolation_frame.
Theorem C15_no_shared_writes : forallb write_audited Gen_writes.writes = true.
Proof. exact writes_audited. Qed.

(* the keyword-only parameters of ObjectMeta.__new__ are the ones the model merges *)
Theorem C15_signature : strs_eqb (sig_names Gen_signatures.sig_ObjectMeta) sig_object = true.
Proof. exact sig_object_agree. Qed.
