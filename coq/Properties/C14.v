(* C14 — concurrent validation against shared models equals sequential validation.
   Statements only (Proofs/StoreProof.v, Agree_writes.v). *)
From Statham.Model Require Import Str Store Tables.
From Statham.Generated Require Gen_writes.
From Statham.Proofs Require Import StoreProof Agree_writes.

(* The shared state of concurrent calls is the store of property binding cells; every
   micro-step a thread performs on it is a bind of a declared property to its own key and
   owner (all other per-call state — Properties/Items helpers, validators, evolved property
   copies, results — is freshly created by the call that uses it).  For EVERY schedule, i.e.
   every merge of the threads' micro-step sequences: the store after the schedule, and after
   every prefix of it, is the initial store.  Hence each thread reads, at every point of every
   interleaving, exactly the state it would read running alone, and the tree is unchanged
   afterwards. *)
Theorem C14_any_schedule : forall (h : homes) s t1 t2 sched,
  WB h s -> Forall (call_bind h) t1 -> Forall (call_bind h) t2 -> merge t1 t2 sched ->
  run s sched = s /\ (forall k, run s (firstn k sched) = s).
Proof. exact interleaving_id. Qed.
Print Assumptions C14_any_schedule.

(* any number of threads: a schedule is any list of such micro-steps, however interleaved *)
Theorem C14_any_number_of_threads : forall (h : homes) sched s,
  WB h s -> Forall (call_bind h) sched -> forall k, run s (firstn k sched) = s.
Proof. intros h sched s. exact (run_prefix_id h sched s). Qed.
Print Assumptions C14_any_number_of_threads.

(* the premise on the code: no store outside the audited set, in particular no per-call state
   kept on a shared element or class (regenerated from /repo on every run) *)
Theorem C14_no_shared_scratch_state : forallb write_audited Gen_writes.writes = true.
Proof. exact writes_audited. Qed.
Print Assumptions C14_no_shared_scratch_state.

(* non-vacuity, and necessity of the premise: two threads appending to a shared list
   (what Required.from_element did before fix 65b319e) is NOT schedule independent *)
Example C14_merge_example : merge [1; 2] [3] [1; 3; 2].
Proof. repeat constructor. Qed.
