(* C02 — generated Python models accept exactly what the source schema accepts.
   PARTIAL.  The module text is produced by five mechanisms, each modelled and proved on its own;
   their composition into "exec(module) yields classes equal to the parsed ones" passes through
   json_ref_dict.materialize, Python's own repr of literals and Python's lexer/exec, which are
   not modelled: it is decided on every run by executing the generated module in a fresh
   namespace and comparing its classes with the directly parsed ones.
     declaration order and cycles ......... C11 (orderer loop: permutation + topological / refusal)
     one class statement = ObjectMeta.__new__  C15 (Meta.meta_new: flattening, keyword sources)
     class arguments and property lines ..... C18 (custom_repr_args round trip, minimality)
     annotations and typing imports ......... C19 (soundness) + the import-trigger theorem below
     class / attribute names ................ C12 (shape theorems; findings K1-K4 for what is false) *)
From Coq Require Import String Permutation.
From Statham.Model Require Import Str Json Elem PyNum Validate Orderer Tables Repr Meta Annot Names.
From Statham.Generated Require Gen_orderer_paths Gen_signatures.
From Statham.Proofs Require Import StrFacts OrdererLoop Agree_orderer ReprProof MetaProof AnnotProof ImportsProof NamesProof ParseReplay.
From Statham.Model Require Import Parser Plain2 Equality ClsFrag.
From Statham.Proofs Require Import JsonEqProof C01Parse C17Classes.
Local Open Scope string_scope.
Local Open Scope list_scope.

(* (1) classes are declared after every class they depend on, each exactly once; cyclic
       dependencies are refused instead of emitting a partial or wrong module *)
Theorem C02_declared_before_use : forall d : deps_t,
  NoDup (keys d) -> closed d -> has_cycle d = false ->
  exists l, order_names d = OOk l /\ Permutation l (keys d) /\
            forall k ds x, In (k, ds) d -> In x ds -> before x k l.
Proof. exact order_names_acyclic. Qed.
Print Assumptions C02_declared_before_use.

(* (2) a class statement with keyword arguments and a body builds the class whose keywords are the
       passed ones else the parent's, and whose properties are the parent's overridden by the body *)
Theorem C02_class_statement : forall parent passed ap own,
  let C := meta_new parent passed ap own in
  NoDup (keys (match k_properties C with Some l => l | None => [] end)) ->
  meta_new None C true (match k_properties C with Some l => l | None => [] end) = C.
Proof. exact meta_flatten. Qed.

(* (3) the constructor expressions printed for class arguments and property lines rebuild
       ==-equal attributes (every element class and the property wrapper, any attribute values) *)
Theorem C02_expressions_rebuild :
  forall (V : Type) (veq : V -> V -> bool) (unpack : V -> list V) (pack : list V -> V) (np : V) (inj : json -> V),
  (forall x, veq x x = true) -> (forall x, veq x (pack (unpack x)) = true) ->
  forall (get : str -> V) sig, In sig all_signatures ->
  let ps := map (conv V np inj) sig in
  exists attrs, bind_sig V pack ps (fst (repr_args V veq unpack ps get)) (snd (repr_args V veq unpack ps get)) = Some attrs /\
                Forall2 (attr_ok V veq get) ps attrs.
Proof. exact repr_roundtrip_generated. Qed.

(* (4) typing imports: whenever an annotation mentions Any / List / Union / Maybe, the name occurs
       as a substring of the annotation text, so the substring triggers of _get_standard_imports
       and _get_statham_imports import it *)
Theorem C02_typing_imports_cover : forall name t, (name <= 3)%nat ->
  uses name t = true -> has_sub (trigger name) (ty_text t) = true.
Proof. exact trigger_covers. Qed.
Print Assumptions C02_typing_imports_cover.

(* (5) class names are empty or an upper-case ASCII letter followed by ASCII letters/digits *)
Theorem C02_class_names : forall name, titled (title_format name).
Proof. exact title_format_titled. Qed.

(* every element kind the module can mention is reachable by the orderer's paths (so it is
   imported and its classes are declared) — finite check on the tables read from /repo *)
Theorem C02_positions_reached :
  forallb (fun pp => mem_str (snd pp) Gen_orderer_paths.paths) element_positions = true.
Proof. exact orderer_positions_covered. Qed.

(* (6) one class per distinct object schema: the parse state only grows, and parsing the SAME schema
       again - a definition referenced a second time, the root's definitions parsed after the root -
       in any later state returns the very same element and adds nothing: the de-duplication finds,
       for every class the schema builds, the class it produced the first time.  Premise: the classes
       of the later state are equal to themselves (true of every well-formed class, C17_reflexive;
       decided on the model's final state on every run). *)
Theorem C02_reparse_same_class : forall cfg S st e st', parse_element cfg S st = POk (e, st') ->
  ext st st' /\ forall st2, ext st' st2 -> refl_state st2 -> parse_element cfg S st2 = POk (e, st2).
Proof. exact replay. Qed.
Print Assumptions C02_reparse_same_class.
Theorem C02_refl_state_checker : forall st, refl_stateb st = true -> refl_state st.
Proof. exact refl_stateb_sound. Qed.

(* (7) "each generated class is equal to, AND VALIDATES IDENTICALLY TO, the model obtained by parsing the schema directly":
   the run establishes the equality (== both ways, on the executed module); that equal classes validate identically
   is then a theorem - C17's congruence for trees with object classes (class names and bases are not compared by ==,
   and do not matter) - on the fragment goodc (ClsFrag.goodcb: no float multipleOf, finding K17), up to crashes. *)
Theorem C02_equal_classes_validate_identically : forall O generated parsed,
  goodc generated -> goodc parsed -> elem_eq generated parsed = true ->
  forall v, jwf v -> ncrash (build O generated (Some v)) -> ncrash (build O parsed (Some v)) ->
  accepts O generated v = accepts O parsed v.
Proof. intros O g p Gg Gp He v Hv N1 N2. exact (equal_same_verdict_classes O g p Gg Gp He v Hv N1 N2). Qed.
Print Assumptions C02_equal_classes_validate_identically.
