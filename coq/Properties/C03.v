(* C03 — JSON Schema serialization preserves the meaning of any element tree.
   Statements only (Proofs/SerJsonProof.v) about SerJson.v, the model of
   statham/serializers/json.py as it is after fixes f0c8af1 and aba574c.
   "The document accepts exactly what the tree accepts" is proved (C03_meaning) for reference-free
   trees: no object class inside (classes become $ref / definitions: orderer and _from_definitions
   are outside the theorem), the keywords of each typed element within its constructor signature,
   distinct non-empty JSON names, no property both required and defaulted, additional* not
   Nothing(), non-empty compositions, literals free of "_x_autotitle".  For all other trees it is
   decided on every run by recomputing each
   generated document with SerJson.ser_doc in Coq (must equal serialize_json's output) and by
   evaluating Spec6.v (the Draft-6 reference semantics) on the resolved document against the
   element's verdicts. *)
From Coq Require Import String.
From Statham.Model Require Import Str Json Elem PyNum Validate Equality SerJson Spec6 Tables.
From Statham.Generated Require Gen_signatures Gen_type_mapping.
From Statham.Model Require Import Plain SerFrag Resolve RunSer ClsFrag DefsFrag.
From Statham.Proofs Require Import Agree_tables SerJsonProof JsonEqProof C01Vm C03Meaning C03Resolve C03Classes C03Doc C03Defs C03DefsDoc.
Local Open Scope string_scope.
Local Open Scope list_scope.

(* the emitted "required": exactly the explicit required names plus the JSON names of the
   required properties (explicit list kept — fix f0c8af1) *)
Theorem C03_required_complete : forall k n,
  In n (match merged_required true k with Some l => l | None => [] end) <->
  (In n (match k_required k with Some l => l | None => [] end) \/
   exists np, In np (match k_properties k with Some l => l | None => [] end) /\ p_required (snd np) = true /\ source_of np = n).
Proof. exact required_complete. Qed.
Print Assumptions C03_required_complete.

(* the emitted "properties" is keyed by JSON names (fix aba574c) *)
Theorem C03_properties_keyed_by_source : forall F l, keys (s_props true F l) = map source_of l.
Proof. exact properties_keyed_by_source. Qed.
Print Assumptions C03_properties_keyed_by_source.

(* the code before the fixes did NOT preserve meaning (witnesses evaluated on the model with the
   old behaviour switched on; the same inputs are in the harness corpus) *)
Theorem C03_old_required_overwritten_refuted :
  let e := EK CElement (kprops (Some [s_ "x"]) [(s_ "y", mkProp (EK CInteger k0) false (s_ "y"))] (AddBool true)) in
  let v := JObj [] in
  accepts no_oracle e v = false /\ v6 no_oracle WNever (ser_top true false [] e) v = true /\
  v6 no_oracle WNever (ser_top true true [] e) v = false.
Proof. exact old_required_overwritten_refuted. Qed.
Theorem C03_old_python_names_refuted :
  let e := EK CElement (kprops None [(s_ "class_", mkProp (EK CString k0) false (s_ "class"))] (AddBool false)) in
  let v := JObj [(s_ "class", JStr (s_ "c"))] in
  accepts no_oracle e v = true /\ v6 no_oracle WNever (ser_top false true [] e) v = false /\
  v6 no_oracle WNever (ser_top true true [] e) v = true.
Proof. exact old_python_names_refuted. Qed.

(* the serializer enumerates the keywords of Element.__init__ and maps classes to JSON types as
   the model does (tables re-read from /repo on every run) *)
Theorem C03_keyword_enumeration : strs_eqb (sig_names Gen_signatures.sig_Element) sig_element = true.
Proof. exact sig_element_agree. Qed.
Theorem C03_type_mapping : pairs_set_eqb Gen_type_mapping.json_type_mapping json_type_mapping = true.
Proof. exact json_type_mapping_agree. Qed.

(* the meaning theorem: the emitted document (read by Spec6.v6, the Draft-6 semantics of the raw
   schema) accepts exactly the values the element tree accepts, for every value and oracle *)
Theorem C03_meaning : forall O w e, w <> WAlways -> dsl e ->
  forall v, jwf v -> om (build O e (Some v)) (v6 O w (ser_top true true [] e) v).
Proof. intros O w e Hw Hd. exact (ser_meaning O w Hw e Hd). Qed.
Print Assumptions C03_meaning.

Theorem C03_fragment_checker : forall fuel e, dslb fuel e = true -> dsl e.
Proof. exact dslb_sound. Qed.
Print Assumptions C03_fragment_checker.

(* ---- trees WITH object classes ------------------------------------------------------------------
   The document serialize_json writes (SerJson/RunSer.ser_doc: classes as $ref, their documents under
   "definitions"), once its references are resolved (Resolve.resolve_doc: every {"$ref":
   "#/definitions/N"} at a schema position replaced by definition N, recursively), is the document
   with the classes written in place, and that document accepts (Spec6.v6, required-with-default
   waived on typed objects as the code does: WCode) exactly what the tree accepts — for every tree
   of the fragment cdsl (elements as in C03_meaning; classes with clean const/enum, distinct
   non-empty JSON names, no explicitly required name that is the JSON name of a defaulted property),
   every collection of classes whose definitions hold, under its name, the document of every class
   node below the primary element (so no two different classes share a name: finding K25 otherwise),
   every oracle and every value. *)
Theorem C03_resolution : forall e body dfs, ser_top true true [] e = JObj body -> defs_ok_below dfs e ->
  exists n0, forall n, n0 <= n -> resolve_doc n (doc_of body dfs) = Some (ser_inl e).
Proof. exact resolve_doc_ser. Qed.
Print Assumptions C03_resolution.

Theorem C03_inplace_meaning : forall O e, cdsl e ->
  forall v, jwf v -> om (build O e (Some v)) (v6 O WCode (ser_inl e) v).
Proof. intros O e Hd. exact (ser_inl_meaning O e Hd). Qed.
Print Assumptions C03_inplace_meaning.

Theorem C03_meaning_classes : forall O e classes fuel,
  cdslb fuel e = true -> e <> ENothing -> defs_okb (class_defs classes) fuel e = true ->
  exists n0, forall n, n0 <= n ->
    exists R, resolve_doc n (ser_doc [] e classes) = Some R /\
              forall v, jwf v -> om (build O e (Some v)) (v6 O WCode R v).
Proof. exact doc_meaning_classes. Qed.
Print Assumptions C03_meaning_classes.

Theorem C03_classes_checker : forall fuel e, cdslb fuel e = true -> cdsl e.
Proof. exact cdslb_sound. Qed.
Theorem C03_definitions_checker : forall dfs fuel e, defs_okb dfs fuel e = true -> defs_ok_below dfs e.
Proof. exact defs_okb_sound. Qed.

(* non-vacuity: a tree with two classes (one nested in the other and shared), required and
   defaulted properties, additionalProperties a class: the premises hold, the document resolves,
   and the verdicts agree on concrete values *)
Definition exc_foo : elem :=
  EObj (s_ "Foo") [s_ "Object"]
       (mkK None None None None (AddBool true) None None false None None None None None None None None None None None
            (Some [(s_ "a", mkProp (EK CString k0) true (s_ "a"));
                   (s_ "n", mkProp (EK CInteger (mkK (Some (JInt 1)) None None None (AddBool true) None None false None None None None None None None None None None None None None (AddBool true) None None None None None)) true (s_ "n"))])
            None (AddBool false) None None None None None).
Definition exc_bar : elem :=
  EObj (s_ "Bar") [s_ "Object"]
       (mkK None None None None (AddBool true) None None false None None None None None None None None None None (Some [s_ "f"])
            (Some [(s_ "f", mkProp exc_foo false (s_ "f"))]) None (AddElem exc_foo) None None None None None).
Definition exc_root : elem :=
  EK CArray (mkK None None None (Some (ItMany [exc_bar; exc_foo])) (AddBool false) None None false None None None None None None None None None None None None None (AddBool true) None None None None None).
Example C03_classes_inhabited :
  cdslb 20 exc_root && defs_okb (class_defs [exc_bar; exc_foo]) 20 exc_root = true /\
  match resolve_doc 20 (ser_doc [] exc_root [exc_bar; exc_foo]) with
  | Some R =>
    v6 no_oracle WCode R (JArr [JObj [(s_ "f", JObj [(s_ "a", JStr (s_ "x"))])]; JObj [(s_ "a", JStr (s_ "y")); (s_ "n", JInt 2)]]) = true /\
    v6 no_oracle WCode R (JArr [JObj []; JObj [(s_ "a", JStr (s_ "y"))]]) = false /\
    accepts no_oracle exc_root (JArr [JObj [(s_ "f", JObj [(s_ "a", JStr (s_ "x"))])]; JObj [(s_ "a", JStr (s_ "y")); (s_ "n", JInt 2)]]) = true /\
    accepts no_oracle exc_root (JArr [JObj []; JObj [(s_ "a", JStr (s_ "y"))]]) = false
  | None => False
  end.
Proof. vm_compute. repeat split; reflexivity. Qed.

(* ---- CALLER-SUPPLIED definitions ----------------------------------------------------------------
   serialize_json(elements..., definitions={key: element}) replaces every sub-element that is == to a
   definition by {"$ref": "#/definitions/key"} (_from_definitions: the first equal definition) and adds
   the definitions' own documents.  The emitted document, once resolved, still accepts exactly what the
   primary tree accepts: the replaced sub-element and the definition it now points to are equal, equal
   trees have in-place documents of the same meaning (C17_equal_inplace_documents_same_meaning), and
   v6 is a congruence in the sub-schema positions (the two-serializer form of C17Classes.ek_cong).
   Premise (DefsFrag.cd_okb, executable, counted per run as code 12): the primary and every definition
   in the fragment of C17's class congruence (so no float multipleOf: finding K17), every class met
   below a node and every definition present under its name / key in the emitted "definitions".  (The jump
   from a replaced sub-element to its definition leaves the tree: the induction is on depth, and equal
   elements have equal depth - EqDepth.dle_eq.) *)
Theorem C03_meaning_definitions : forall O cd classes fuel e,
  cd_okb cd classes fuel e = true -> e <> ENothing ->
  exists n0, forall n, n0 <= n ->
    exists R, resolve_doc n (ser_doc cd e classes) = Some R /\
              forall v, jwf v -> om (build O e (Some v)) (v6 O WCode R v).
Proof. exact doc_meaning_defs. Qed.
Print Assumptions C03_meaning_definitions.

(* non-vacuity: the array of exc_root with two caller definitions - a string schema that occurs inside
   class Foo, and the integer schema with minimum written with another spelling of the same default-free
   element; the premise holds, the emitted document really contains references to the definitions, it
   resolves, and the verdicts agree *)
Definition exd_defs : list (str * elem) :=
  [(s_ "str", EK CString k0);
   (s_ "cnt", EK CInteger (mkK (Some (JInt 1)) None None None (AddBool true) None None false None None None None None None None None None None None None None (AddBool true) None None None None None))].
Example C03_definitions_inhabited :
  cd_okb exd_defs [exc_bar; exc_foo] 20 exc_root = true /\
  lookup (s_ "str") (defs_doc exd_defs [exc_bar; exc_foo]) = Some (JObj [(s_ "type", JStr (s_ "string"))]) /\
  match resolve_doc 20 (ser_doc exd_defs exc_root [exc_bar; exc_foo]) with
  | Some R =>
    v6 no_oracle WCode R (JArr [JObj [(s_ "f", JObj [(s_ "a", JStr (s_ "x"))])]; JObj [(s_ "a", JStr (s_ "y")); (s_ "n", JInt 2)]]) = true /\
    v6 no_oracle WCode R (JArr [JObj []; JObj [(s_ "a", JInt 3)]]) = false
  | None => False
  end /\
  match lookup (s_ "definitions") (match ser_doc exd_defs exc_root [exc_bar; exc_foo] with JObj l => l | _ => [] end) with
  | Some (JObj dfs) => match lookup (s_ "Foo") dfs with
                       | Some (JObj foo) => match lookup (s_ "properties") foo with
                                            | Some (JObj ps) => lookup (s_ "a") ps = Some (ref_to (s_ "str")) /\ lookup (s_ "n") ps = Some (ref_to (s_ "cnt"))
                                            | _ => False end
                       | _ => False end
  | _ => False
  end.
Proof. vm_compute. repeat split; reflexivity. Qed.
