(* C07 — defaults and object descriptions in a schema survive parsing and serialization.
   Statements only (Proofs/ParserDefaultProof.v) about Parser.v (statham/schema/parser.py as it
   is after fixes 804a592 and 773e603; the repaired branches are part of the model). *)
From Coq Require Import String.
From Statham.Model Require Import Str Json Elem PyNum Validate Equality Names Tables Parser.
From Statham.Generated Require Gen_signatures Gen_parser_tables.
From Statham.Model Require Import SerJson.
From Statham.Proofs Require Import Agree_tables ParserDefaultProof C07Ser.
Local Open Scope string_scope.
Local Open Scope list_scope.

(* For EVERY schema object that declares a default — typed, untyped, type lists of any length,
   any combination of anyOf/oneOf/allOf/not with siblings, object classes, any parse state, any
   default value (false, 0, "", [], {}, null included): the element returned for THAT schema
   carries the default with auto-title annotations removed; when the parser returns an already
   known equal class, up to the literal equality class equality uses.  The only exception is a
   schema that collapses to Nothing() (e.g. {"allOf":[false]}), whose element the model cannot
   give a default (the implementation sets the attribute on the Nothing instance). *)
Theorem C07_parsed_default : forall cfg kvs st e st' d,
  lookup (s_ "default") kvs = Some d ->
  parse_element cfg (JObj kvs) st = POk (e, st') ->
  e = ENothing \/ carried (strip_autotitle d) e.
Proof. exact parse_element_keeps_default. Qed.
Print Assumptions C07_parsed_default.

(* the premise on the code used inside the proof: every element class accepts `default`
   (so the keyword filter keeps it), re-checked on the signatures read from /repo *)
Theorem C07_default_in_every_signature :
  forallb (fun sig => mem_str (s_ "default") (sig_names sig))
    [Gen_signatures.sig_Element; Gen_signatures.sig_String; Gen_signatures.sig_Integer; Gen_signatures.sig_Number;
     Gen_signatures.sig_Boolean; Gen_signatures.sig_Null; Gen_signatures.sig_Array; Gen_signatures.sig_ObjectMeta;
     Gen_signatures.sig_Not; Gen_signatures.sig_AnyOf; Gen_signatures.sig_OneOf; Gen_signatures.sig_AllOf] = true.
Proof. vm_compute. reflexivity. Qed.
Theorem C07_literal_keys_cleaned : set_eq_strs Gen_parser_tables.literal_keys literal_keys = true.
Proof. exact literal_keys_agree. Qed.

(* non-vacuity, on the shapes that used to lose the default *)
Example C07_falsy_default_on_composition :
  exists e st, parse_element (mkCfg (mkU (fun _ => true) (fun _ => [])) [] [] [s_ "anyOf"; s_ "oneOf"; s_ "allOf"])
    (JObj [(s_ "anyOf", JArr [JObj [(s_ "type", JStr (s_ "string"))]; JObj [(s_ "type", JStr (s_ "null"))]]); (s_ "default", JBool false)]) [] = POk (e, st)
    /\ elem_default e = Some (JBool false).
Proof. eexists. eexists. split; vm_compute; reflexivity. Qed.
Example C07_one_element_type_list :
  exists e st, parse_element (mkCfg (mkU (fun _ => true) (fun _ => [])) [] [] [])
    (JObj [(s_ "type", JArr [JStr (s_ "string")]); (s_ "default", JStr (s_ "x"))]) [] = POk (e, st)
    /\ elem_default e = Some (JStr (s_ "x")).
Proof. eexists. eexists. split; vm_compute; reflexivity. Qed.

(* ---- the JSON serializer ---- *)
(* every element other than Nothing() is written as an object whose "default" is exactly the
   element's default (absent when it has none) and whose "description" is its description, for any
   caller definitions: neither is dropped, altered, invented or moved to another schema object
   (sub-elements are written inside their own objects by the same function) *)
Theorem C07_serialized_default : forall defs e, e <> ENothing ->
  match ser_top true true defs e with
  | JObj kvs => lookup (s_ "default") kvs = elem_default e
  | _ => False
  end.
Proof. exact ser_keeps_default. Qed.
Print Assumptions C07_serialized_default.

Theorem C07_serialized_description : forall defs e,
  match ser_top true true defs e with
  | JObj kvs => lookup (s_ "description") kvs = option_map JStr (elem_description e)
  | _ => e = ENothing
  end.
Proof. exact ser_keeps_description. Qed.
Print Assumptions C07_serialized_description.
