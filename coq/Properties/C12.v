(* C12 — every JSON name maps to a usable, unambiguous Python name.  Statements only
   (Proofs/NamesProof.v); the Unicode and reserved-name tables are regenerated from the running
   interpreter / from /repo on every run. *)
From Coq Require Import String Lia ZifyBool ZifyN.
From Statham.Model Require Import Str Names RunHelpers Tables Titles.
From Statham.Generated Require Gen_unicode Gen_reserved.
From Statham.Proofs Require Import StrFacts NamesProof TitlesProof.
Arguments in_ranges : simpl never.
Local Open Scope string_scope.
Local Open Scope list_scope.

(* the interpreter's str.isalnum as dumped into range tables; unicodedata.name as an oracle
   constrained only by its alphabet (every name is over [A-Z0-9 -]: swept over all 1 114 112
   code points by the translator; the exceptions list below must be empty) *)
Definition U_now (name_lower : N -> str) : unicode := mkU (fun c => in_ranges c Gen_unicode.alnum_ranges) name_lower.
Definition names_alphabet_ok (name_lower : N -> str) : Prop := forall c, forallb label_char (name_lower c) = true.

Theorem C12_unicode_names_alphabet : Gen_unicode.names_outside_upper_digit_space_hyphen = 0%N.
Proof. vm_compute. reflexivity. Qed.

(* --- facts about the tables, by computation --- *)
Lemma ascii_digits_lower_alnum :
  forallb (fun x => in_ranges x Gen_unicode.alnum_ranges) (map N.of_nat (seq 48 10 ++ seq 97 26)) = true.
Proof. vm_compute. reflexivity. Qed.
Lemma ascii_alnum_exact :
  forallb (fun c => Bool.eqb (in_ranges c Gen_unicode.alnum_ranges) (is_ascii_alnum c)) (map N.of_nat (seq 0 128)) = true.
Proof. vm_compute. reflexivity. Qed.
Lemma reserved_closed_now :
  forallb (fun r => negb (mem_str (r ++ [c_us]) Gen_reserved.reserved)) Gen_reserved.reserved = true.
Proof. vm_compute. reflexivity. Qed.
Lemma blank_free_now : mem_str (s_ "blank") Gen_reserved.reserved = false.
Proof. vm_compute. reflexivity. Qed.
Theorem C12_keywords_are_reserved : forallb (fun k => mem_str k Gen_reserved.reserved) Gen_reserved.kwlist = true.
Proof. vm_compute. reflexivity. Qed.

Lemma in_small_range (x : N) lo n : (N.of_nat lo <= x)%N -> (x < N.of_nat (lo + n))%N -> In x (map N.of_nat (seq lo n)).
Proof.
  intros H1 H2. apply in_map_iff. exists (N.to_nat x). split; [apply N2Nat.id|]. apply in_seq. lia.
Qed.

Lemma lower_digit_alnum x : is_lower x || is_digit x = true -> in_ranges x Gen_unicode.alnum_ranges = true.
Proof.
  intros H. pose proof ascii_digits_lower_alnum as T. rewrite forallb_forall in T. apply T.
  rewrite map_app. apply in_or_app. unfold is_lower, is_digit in H.
  destruct ((48 <=? x)%N && (x <=? 57)%N) eqn:E.
  - left. apply (in_small_range x 48 10); lia.
  - right. apply (in_small_range x 97 26); lia.
Qed.

(* 1. For EVERY property name (any code points): the attribute name is non-empty, starts with
      an ASCII letter or underscore, consists only of characters the interpreter classifies as
      alphanumeric plus underscore, and is not a reserved attribute / keyword. *)
Theorem C12_attr_shape : forall name_lower name, names_alphabet_ok name_lower ->
  let a := attr_name (U_now name_lower) Gen_reserved.reserved name in
  head_ok a = true /\
  forallb (fun x => in_ranges x Gen_unicode.alnum_ranges || N.eqb x c_us) a = true /\
  mem_str a Gen_reserved.reserved = false.
Proof.
  intros nl name Hn a. split; [apply attr_name_head|]. split.
  - set (good := fun x => in_ranges x Gen_unicode.alnum_ranges || N.eqb x c_us).
    assert (G1 : forall x, is_lower x || is_digit x = true -> good x = true)
      by (intros x Hx; unfold good; now rewrite (lower_digit_alnum x Hx)).
    assert (G2 : good c_us = true) by (unfold good; rewrite N.eqb_refl; apply orb_true_r).
    assert (G3 : forallb good (s_ "blank") = true) by (vm_compute; reflexivity).
    assert (G4 : forall c, In c name -> kept_char (U_now nl) c = true -> pre good c = true).
    { intros c _ Hk. unfold kept_char, pre, good, U_now in *. cbn [u_alnum] in *.
      destruct (in_ranges c Gen_unicode.alnum_ranges); cbn [orb] in *; auto.
      destruct (N.eqb c c_us); cbn [orb] in *; auto.
      destruct (N.eqb c c_sp), (N.eqb c c_hy); cbn [orb] in *; auto. }
    exact (attr_name_good (U_now nl) Gen_reserved.reserved good Hn G1 G2 G3 name G4).
  - apply attr_name_not_reserved; [exact reserved_closed_now|exact blank_free_now].
Qed.
Print Assumptions C12_attr_shape.

(* 2. For names made of ASCII characters the result is a plain ASCII identifier
      [A-Za-z_][A-Za-z0-9_]*  (hence accepted by str.isidentifier and usable as an attribute). *)
Theorem C12_attr_ascii_identifier : forall name_lower name, names_alphabet_ok name_lower ->
  forallb (fun c => (c <? 128)%N) name = true ->
  let a := attr_name (U_now name_lower) Gen_reserved.reserved name in
  head_ok a = true /\ forallb (fun x => is_ascii_alnum x || N.eqb x c_us) a = true /\ mem_str a Gen_reserved.reserved = false.
Proof.
  intros nl name Hn Hascii a. split; [apply attr_name_head|]. split.
  - set (good := fun x => is_ascii_alnum x || N.eqb x c_us).
    assert (G1 : forall x, is_lower x || is_digit x = true -> good x = true)
      by (intros x Hx; unfold good, is_ascii_alnum, is_ascii_alpha, is_lower, is_digit in *; lia).
    assert (G2 : good c_us = true) by reflexivity.
    assert (G3 : forallb good (s_ "blank") = true) by (vm_compute; reflexivity).
    assert (G4 : forall c, In c name -> kept_char (U_now nl) c = true -> pre good c = true).
    { intros c Hin Hk. rewrite forallb_forall in Hascii. specialize (Hascii c Hin).
      pose proof ascii_alnum_exact as T. rewrite forallb_forall in T.
      assert (Hc : In c (map N.of_nat (seq 0 128))) by (apply (in_small_range c 0 128); lia).
      specialize (T c Hc). apply Bool.eqb_prop in T.
      unfold kept_char, pre, good, U_now in *. cbn [u_alnum] in *. rewrite T in Hk.
      destruct (is_ascii_alnum c); cbn [orb] in *; auto.
      destruct (N.eqb c c_us); cbn [orb] in *; auto.
      destruct (N.eqb c c_sp), (N.eqb c c_hy); cbn [orb] in *; auto. }
    exact (attr_name_good (U_now nl) Gen_reserved.reserved good Hn G1 G2 G3 name G4).
  - apply attr_name_not_reserved; [exact reserved_closed_now|exact blank_free_now].
Qed.
Print Assumptions C12_attr_ascii_identifier.

(* 3. Class names: empty, or an upper-case ASCII letter followed by ASCII letters and digits. *)
Theorem C12_title_shape : forall name, titled (title_format name).
Proof. exact title_format_titled. Qed.
Print Assumptions C12_title_shape.

(* 4. The unambiguity half is FALSE (finding K1), and so is identifier validity outside ASCII
      (finding K2): witnesses on the generated tables, replayed on the implementation. *)
Theorem C12_attr_injective_refuted : forall nl,
  attr_name (U_now nl) Gen_reserved.reserved (s_ "a b") = attr_name (U_now nl) Gen_reserved.reserved (s_ "a_b") /\
  attr_name (U_now nl) Gen_reserved.reserved (s_ "a-b") = attr_name (U_now nl) Gen_reserved.reserved (s_ "a_b").
Proof. intros nl. split; vm_compute; reflexivity. Qed.
Theorem C12_attr_identifier_refuted : forall nl,
  attr_name (U_now nl) Gen_reserved.reserved [97; 178]%N = [97; 178]%N /\
  in_ranges 178 Gen_unicode.ident_continue_ranges = false.
Proof. intros nl. split; vm_compute; reflexivity. Qed.
Theorem C12_title_empty_refuted : title_format (s_ "1abc") = [] /\ title_format (s_ "none") = s_ "None".
Proof. split; vm_compute; reflexivity. Qed.

(* 5. Untitled object schemas: the automatic title (statham/titles.py, handed to json_ref_dict.materialize)
      of a schema position.  It is the nearest pointer segment that is not looked through ("items", an array
      index, a composition keyword) - or the file stem when there is none - followed by "Item" / the index for
      every looked-through segment, outermost first; nothing above that segment matters; and whatever it is,
      _title_format turns it into a class name of the shape of (3). *)
Theorem C12_autotitle_shape : forall isdigit stem thru, forallb (transparent isdigit) thru = true ->
  (forall t back, transparent isdigit t = false ->
     title_rev isdigit stem (thru ++ t :: back) = t ++ suffixes isdigit thru) /\
  title_rev isdigit stem thru = stem ++ suffixes isdigit thru.
Proof. exact title_rev_shape. Qed.
Print Assumptions C12_autotitle_shape.
Theorem C12_autotitle_local : forall isdigit stem stem' thru t back back',
  forallb (transparent isdigit) thru = true -> transparent isdigit t = false ->
  title_rev isdigit stem (thru ++ t :: back) = title_rev isdigit stem' (thru ++ t :: back').
Proof. exact title_rev_local. Qed.
Theorem C12_autotitle_nonempty : forall isdigit stem rsegs, stem <> [] -> Forall (fun t => t <> []) rsegs ->
  title_rev isdigit stem rsegs <> [].
Proof. exact title_rev_nonempty. Qed.
Theorem C12_autotitle_class_name : forall isdigit name segs,
  titled (title_format (title_from_reference isdigit name segs)).
Proof. intros. apply title_format_titled. Qed.
Print Assumptions C12_autotitle_class_name.
Example C12_autotitle_example :
  let dg t := mem_str t [s_ "0"; s_ "12"] in
  title_from_reference dg (s_ "schema.v2.json") (map s_ ["definitions"; "thing"; "properties"; "list"; "items"; "anyOf"; "0"])
    = s_ "listItem0" /\
  title_from_reference dg (s_ "schema.v2.json") (map s_ ["allOf"; "12"; "items"]) = s_ "schema12Item" /\
  title_format (s_ "listItem0") = s_ "ListItem0".
Proof. repeat split; vm_compute; reflexivity. Qed.
