(* RunAnnot.v — annotation text of the model vs the implementation, and the soundness statement
   evaluated on the model's own constructed values. *)
From Statham.Model Require Import Str Json Elem PyNum Validate Annot RunHelpers RunElem.

(* element, implementation's .annotation text *)
Definition run_annot_case (c : elem * str) : list nat :=
  if str_eqb (ty_text (annotation (fst c))) (snd c) then [] else [1%nat].

(* property (element, required), implementation's Property.annotation text *)
Definition run_prop_annot_case (c : elem * bool * str) : list nat :=
  match c with (e, req, text) =>
    if str_eqb (ty_text (prop_annotation (mkProp e req []))) text then [] else [1%nat]
  end.

(* 5 = an accepted value whose constructed result is not of the annotated type *)
Definition run_sound_case (c : ecase) : list nat :=
  let O := tbl_oracles (ec_re c) (ec_fm c) in
  nodup Nat.eq_dec (flat_map (fun ve =>
    match fst ve with
    | Some v => match build O (ec_elem c) (Some v) with
                | Ok r => if has_type r (annotation (ec_elem c)) then [] else [5%nat]
                | _ => []
                end
    | None => []
    end) (ec_vals c)).
