(* EqFrag.v — executable premise of C17's congruence theorem: the tree is reference-free and
   DSL-constructible (SerFrag.dslb), its literals are well-formed JSON (finite floats, unique keys),
   its dict-valued keywords have unique keys, and no multipleOf parameter is a float (finding K17). *)
From Coq Require Import Floats.SpecFloat.
From Statham.Model Require Import Str Json Elem Plain Sub SerFrag.

Fixpoint jwfb (j : json) : bool :=
  match j with
  | JFlt f => match f with S754_zero _ | S754_finite _ _ _ => true | _ => false end
  | JArr l => forallb jwfb l
  | JObj kvs =>
    nodupb (keys kvs) &&
    (fix go (l : list (str * json)) : bool := match l with [] => true | (_, v) :: r => jwfb v && go r end) kvs
  | _ => true
  end.

Definition owfb (o : option json) : bool := match o with Some j => jwfb j | None => true end.
Definition lwfb (o : option (list json)) : bool := match o with Some l => forallb jwfb l | None => true end.

Definition kwfb (k : kwds elem) : bool :=
  owfb (k_default k) && owfb (k_const k) && lwfb (k_enum k) && owfb (k_minItems k) && owfb (k_maxItems k) &&
  owfb (k_minimum k) && owfb (k_maximum k) && owfb (k_exclusiveMinimum k) && owfb (k_exclusiveMaximum k) &&
  owfb (k_multipleOf k) && owfb (k_minLength k) && owfb (k_maxLength k) && owfb (k_minProperties k) &&
  owfb (k_maxProperties k) && okeysb (k_properties k) && okeysb (k_patternProperties k) && okeysb (k_dependencies k).

Definition local_wfb (e : elem) : bool :=
  match e with
  | EK _ k | EObj _ _ k => kwfb k
  | ENot _ d | EComp _ _ d => owfb d
  | ENothing => true
  end.

Definition mok_localb (e : elem) : bool :=
  match e with
  | EK _ k | EObj _ _ k => match k_multipleOf k with Some (JFlt _) => false | _ => true end
  | _ => true
  end.

Fixpoint goodb (fuel : nat) (e : elem) : bool :=
  match fuel with
  | O => false
  | S n => local_dslb e && local_wfb e && mok_localb e && forallb (goodb n) (children e)
  end.
