(* Tables.v — audited copies of code-derived tables the model needs structurally.
   Each has an agreement obligation against coq/Generated in Proofs/Agree_*.v. *)
From Coq Require Import String.
From Statham.Model Require Import Str.
Local Open Scope string_scope.
Local Open Scope list_scope.

(* orderer.get_children `paths` *)
Definition orderer_paths : list str :=
  [s_ "items"; s_ "additionalItems"; s_ "contains"; s_ "properties.*.element";
   s_ "additionalProperties"; s_ "patternProperties.*"; s_ "propertyNames";
   s_ "dependencies.*"; s_ "elements"; s_ "element"].

(* the orderer path that reaches each position an Element can occupy:
   (constructor parameter, path).  The parameter list is checked against
   Gen_signatures (every parameter whose annotation mentions Element/_Property). *)
Definition element_positions : list (str * str) :=
  [(s_ "items", s_ "items");
   (s_ "additionalItems", s_ "additionalItems");
   (s_ "contains", s_ "contains");
   (s_ "properties", s_ "properties.*.element");
   (s_ "patternProperties", s_ "patternProperties.*");
   (s_ "additionalProperties", s_ "additionalProperties");
   (s_ "propertyNames", s_ "propertyNames");
   (s_ "dependencies", s_ "dependencies.*");
   (s_ "elements", s_ "elements");     (* CompositionElement( *elements ) *)
   (s_ "element", s_ "element")].      (* Not(element), _Property(element) *)

(* ---- constructor signatures (keyword parameters each element class accepts) ---- *)
From Statham.Model Require Import Json Elem.

Definition sig_element : list str :=
  map s_ ["default"; "const"; "enum"; "items"; "additionalItems"; "minItems"; "maxItems";
          "uniqueItems"; "contains"; "minimum"; "maximum"; "exclusiveMinimum";
          "exclusiveMaximum"; "multipleOf"; "format"; "pattern"; "minLength"; "maxLength";
          "required"; "properties"; "patternProperties"; "additionalProperties";
          "minProperties"; "maxProperties"; "propertyNames"; "dependencies"; "description"].
Definition sig_string : list str :=
  map s_ ["default"; "const"; "enum"; "format"; "pattern"; "minLength"; "maxLength"; "description"].
Definition sig_numeric : list str :=
  map s_ ["default"; "const"; "enum"; "minimum"; "maximum"; "exclusiveMinimum";
          "exclusiveMaximum"; "multipleOf"; "description"].
Definition sig_literal : list str := map s_ ["default"; "const"; "enum"; "description"].
Definition sig_array : list str :=
  map s_ ["items"; "default"; "const"; "enum"; "additionalItems"; "minItems"; "maxItems";
          "uniqueItems"; "contains"; "description"].
(* ObjectMeta.__new__ keyword-only parameters *)
Definition sig_object : list str :=
  map s_ ["default"; "const"; "enum"; "required"; "minProperties"; "maxProperties";
          "patternProperties"; "additionalProperties"; "propertyNames"; "dependencies";
          "description"].

Definition signature_of (c : ecls) : list str :=
  match c with
  | CElement => sig_element
  | CString => sig_string
  | CInteger | CNumber => sig_numeric
  | CBoolean | CNull => sig_literal
  | CArray => sig_array
  end.

(* parser._TYPE_MAPPING (object and array are dispatched before the lookup) *)
Definition type_mapping : list (str * ecls) :=
  [(s_ "array", CArray); (s_ "boolean", CBoolean); (s_ "integer", CInteger);
   (s_ "null", CNull); (s_ "number", CNumber); (s_ "string", CString)].

Definition composition_keywords : list str := map s_ ["anyOf"; "oneOf"; "allOf"; "not"].
Definition unsupported_keywords : list str :=
  map s_ ["$defs"; "if"; "then"; "else"; "unevaluatedItems"; "unevaluatedProperties"].
(* the keys parse_element cleans with _parse_literal *)
Definition literal_keys : list str := map s_ ["default"; "const"; "enum"].
