(* Tables.v — audited copies of code-derived tables the model needs structurally.
   Each has an agreement obligation against coq/Generated in Proofs/Agree_*.v. *)
From Coq Require Import String.
From Statham.Model Require Import Str.
Local Open Scope string_scope.
Local Open Scope list_scope.

(* orderer.get_children `paths` *)
Definition orderer_paths : list str :=
  [s_ "items"; s_ "additionalItems"; s_ "contains"; s_ "properties.*.element";
   s_ "additionalProperties"; s_ "patternProperties.*"; s_ "propertyNames";
   s_ "dependencies.*"; s_ "elements"; s_ "element"].

(* the orderer path that reaches each position an Element can occupy:
   (constructor parameter, path).  The parameter list is checked against
   Gen_signatures (every parameter whose annotation mentions Element/_Property). *)
Definition element_positions : list (str * str) :=
  [(s_ "items", s_ "items");
   (s_ "additionalItems", s_ "additionalItems");
   (s_ "contains", s_ "contains");
   (s_ "properties", s_ "properties.*.element");
   (s_ "patternProperties", s_ "patternProperties.*");
   (s_ "additionalProperties", s_ "additionalProperties");
   (s_ "propertyNames", s_ "propertyNames");
   (s_ "dependencies", s_ "dependencies.*");
   (s_ "elements", s_ "elements");     (* CompositionElement( *elements ) *)
   (s_ "element", s_ "element")].      (* Not(element), _Property(element) *)
