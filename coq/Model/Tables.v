(* Tables.v — audited copies of code-derived tables the model needs structurally.
   Each has an agreement obligation against coq/Generated in Proofs/Agree_*.v. *)
From Coq Require Import String.
From Statham.Model Require Import Str Json Elem.
Local Open Scope string_scope.
Local Open Scope list_scope.

(* orderer.get_children `paths` *)
Definition orderer_paths : list str :=
  [s_ "items"; s_ "additionalItems"; s_ "contains"; s_ "properties.*.element";
   s_ "additionalProperties"; s_ "patternProperties.*"; s_ "propertyNames";
   s_ "dependencies.*"; s_ "elements"; s_ "element"].

(* the orderer path that reaches each position an Element can occupy:
   (constructor parameter, path).  The parameter list is checked against
   Gen_signatures (every parameter whose annotation mentions Element/_Property). *)
Definition element_positions : list (str * str) :=
  [(s_ "items", s_ "items");
   (s_ "additionalItems", s_ "additionalItems");
   (s_ "contains", s_ "contains");
   (s_ "properties", s_ "properties.*.element");
   (s_ "patternProperties", s_ "patternProperties.*");
   (s_ "additionalProperties", s_ "additionalProperties");
   (s_ "propertyNames", s_ "propertyNames");
   (s_ "dependencies", s_ "dependencies.*");
   (s_ "elements", s_ "elements");     (* CompositionElement( *elements ) *)
   (s_ "element", s_ "element")].      (* Not(element), _Property(element) *)

(* ---- constructor signatures ---- *)
Inductive pkind := PosOrKw | VarPos | KwOnly | VarKw.
Inductive sigdefault := SDRequired | SDNotPassed | SDJson (j : json).
(* (parameter name, kind, default, annotation mentions Element/_Property) *)
Definition sigrow := (str * pkind * sigdefault * bool)%type.
Definition sig_names (l : list sigrow) : list str := map (fun r => fst (fst (fst r))) l.

Definition sig_element : list str :=
  map s_ ["default"; "const"; "enum"; "items"; "additionalItems"; "minItems"; "maxItems";
          "uniqueItems"; "contains"; "minimum"; "maximum"; "exclusiveMinimum";
          "exclusiveMaximum"; "multipleOf"; "format"; "pattern"; "minLength"; "maxLength";
          "required"; "properties"; "patternProperties"; "additionalProperties";
          "minProperties"; "maxProperties"; "propertyNames"; "dependencies"; "description"].
Definition sig_string : list str :=
  map s_ ["default"; "const"; "enum"; "format"; "pattern"; "minLength"; "maxLength"; "description"].
Definition sig_numeric : list str :=
  map s_ ["default"; "const"; "enum"; "minimum"; "maximum"; "exclusiveMinimum";
          "exclusiveMaximum"; "multipleOf"; "description"].
Definition sig_literal : list str := map s_ ["default"; "const"; "enum"; "description"].
Definition sig_array : list str :=
  map s_ ["items"; "default"; "const"; "enum"; "additionalItems"; "minItems"; "maxItems";
          "uniqueItems"; "contains"; "description"].
(* ObjectMeta.__new__ keyword-only parameters *)
Definition sig_object : list str :=
  map s_ ["default"; "const"; "enum"; "required"; "minProperties"; "maxProperties";
          "patternProperties"; "additionalProperties"; "propertyNames"; "dependencies";
          "description"].

Definition signature_of (c : ecls) : list str :=
  match c with
  | CElement => sig_element
  | CString => sig_string
  | CInteger | CNumber => sig_numeric
  | CBoolean | CNull => sig_literal
  | CArray => sig_array
  end.

(* parser._TYPE_MAPPING (object and array are dispatched before the lookup) *)
Definition type_mapping : list (str * ecls) :=
  [(s_ "array", CArray); (s_ "boolean", CBoolean); (s_ "integer", CInteger);
   (s_ "null", CNull); (s_ "number", CNumber); (s_ "string", CString)].

Definition composition_keywords : list str := map s_ ["anyOf"; "oneOf"; "allOf"; "not"].
Definition unsupported_keywords : list str :=
  map s_ ["$defs"; "if"; "then"; "else"; "unevaluatedItems"; "unevaluatedProperties"].
(* the keys parse_element cleans with _parse_literal *)
Definition literal_keys : list str := map s_ ["default"; "const"; "enum"].

(* ---- validators ---- *)
From Statham.Model Require Import PyNum.

(* (keyword, subject is len(value), comparison that raises ValidationError) *)
Definition thresholds : list (str * bool * cmpop) :=
  [(s_ "exclusiveMaximum", false, OpGe); (s_ "exclusiveMinimum", false, OpLe);
   (s_ "maxItems", true, OpGt); (s_ "maxLength", true, OpGt); (s_ "maxProperties", true, OpGt);
   (s_ "maximum", false, OpGt); (s_ "minItems", true, OpLt); (s_ "minLength", true, OpLt);
   (s_ "minProperties", true, OpLt); (s_ "minimum", false, OpLt)].

(* (validator class, type guard, keywords) *)
Definition validator_table : list (str * list str * list str) :=
  [(s_ "AdditionalItems", [s_ "list"], [s_ "items"; s_ "additionalItems"]);
   (s_ "AdditionalProperties", [s_ "dict"], [s_ "__properties__"]);
   (s_ "Const", [], [s_ "const"]);
   (s_ "Contains", [s_ "list"], [s_ "contains"]);
   (s_ "Dependencies", [s_ "dict"], [s_ "dependencies"]);
   (s_ "Enum", [], [s_ "enum"]);
   (s_ "ExclusiveMaximum", [s_ "int"; s_ "float"], [s_ "exclusiveMaximum"]);
   (s_ "ExclusiveMinimum", [s_ "int"; s_ "float"], [s_ "exclusiveMinimum"]);
   (s_ "Format", [s_ "str"], [s_ "format"]);
   (s_ "InstanceOf", [], []);
   (s_ "MaxItems", [s_ "list"], [s_ "maxItems"]);
   (s_ "MaxLength", [s_ "str"], [s_ "maxLength"]);
   (s_ "MaxProperties", [s_ "dict"], [s_ "maxProperties"]);
   (s_ "Maximum", [s_ "int"; s_ "float"], [s_ "maximum"]);
   (s_ "MinItems", [s_ "list"], [s_ "minItems"]);
   (s_ "MinLength", [s_ "str"], [s_ "minLength"]);
   (s_ "MinProperties", [s_ "dict"], [s_ "minProperties"]);
   (s_ "Minimum", [s_ "int"; s_ "float"], [s_ "minimum"]);
   (s_ "MultipleOf", [s_ "int"; s_ "float"], [s_ "multipleOf"]);
   (s_ "NoMatch", [], []);
   (s_ "Pattern", [s_ "str"], [s_ "pattern"]);
   (s_ "PropertyNames", [s_ "dict"], [s_ "propertyNames"]);
   (s_ "Required", [s_ "dict"], [s_ "required"]);
   (s_ "UniqueItems", [s_ "list"], [s_ "uniqueItems"])].

Definition skipped_validators : list str := [s_ "InstanceOf"; s_ "NoMatch"].
Definition object_validators : list str :=
  map s_ ["type_validator"; "Required"; "AdditionalProperties"; "MinProperties"; "MaxProperties";
          "PropertyNames"; "Const"; "Enum"; "Dependencies"].

(* ---- parser tables ---- *)
Definition subparser_keys : list str :=
  map s_ ["properties"; "items"; "patternProperties"; "propertyNames"; "contains"; "dependencies"].
Definition cls_args_keys : list str :=
  map s_ ["patternProperties"; "minProperties"; "maxProperties"; "propertyNames"; "dependencies";
          "const"; "enum"; "default"; "description"].
Definition type_mapping_names : list (str * str) :=
  [(s_ "array", s_ "Array"); (s_ "boolean", s_ "Boolean"); (s_ "integer", s_ "Integer");
   (s_ "null", s_ "Null"); (s_ "number", s_ "Number"); (s_ "string", s_ "String")].
Definition json_type_mapping : list (str * str) :=
  [(s_ "Array", s_ "array"); (s_ "Boolean", s_ "boolean"); (s_ "Integer", s_ "integer");
   (s_ "Null", s_ "null"); (s_ "ObjectMeta", s_ "object"); (s_ "Number", s_ "number");
   (s_ "String", s_ "string")].

(* ---- audited write set of statham/schema (outside the parser): (module, function, write, class).
   Bind      : the three stores of _Property.bind — the only writes on a validation call path
               (Properties.__init__ -> prop.bind; identities on well-bound properties, Store.v);
   Config    : the reconfiguration API (properties setter, _PropertyDict, class construction);
   Registry  : format_checker.register;
   Result    : attribute assignment on a returned _AnonymousObject (a result, not a schema);
   Local     : in-place operators on immutable strings / freshly created helper objects. *)
Inductive wclass := WBindC | WConfig | WRegistry | WResult | WLocal.
Definition audited_writes : list (str * str * str * wclass) :=
  [(s_ "property", s_ "_Property.bind", s_ "store self.name", WBindC);
   (s_ "property", s_ "_Property.bind", s_ "store self.parent", WBindC);
   (s_ "property", s_ "_Property.bind", s_ "store self.source", WBindC);
   (s_ "elements.base", s_ "Element.properties", s_ "store self._properties", WConfig);
   (s_ "elements.base", s_ "Element.properties", s_ "store self._properties.parent", WConfig);
   (s_ "property", s_ "_PropertyDict.__setitem__", s_ "call super().__setitem__", WConfig);
   (s_ "property", s_ "_PropertyDict.parent", s_ "store self._parent", WConfig);
   (s_ "elements.meta", s_ "ObjectClassDict.__setitem__", s_ "call self.properties.__setitem__", WConfig);
   (s_ "elements.meta", s_ "ObjectClassDict.__setitem__", s_ "call super().__setitem__", WConfig);
   (s_ "elements.object", s_ "Object.__init_subclass__", s_ "store cls.description", WConfig);
   (s_ "validation.format", s_ "_FormatString.register._register_callable", s_ "store self._callable_register[]", WRegistry);
   (s_ "elements.base", s_ "_AnonymousObject.__setattr__", s_ "call self.__setitem__", WResult);
   (s_ "elements.meta", s_ "ObjectMeta.python", s_ "augassign class_def", WLocal);
   (s_ "property", s_ "_Property.__repr__", s_ "call repr_args.kwargs.pop", WLocal)].

(* ---- audited places where the iteration order of a set can be observed (whole statham package):
   (module, function, expression, class).
   SSorted     : the collected names are passed through sorted() before they reach the output;
   SMembership : the result is again a set (only membership matters);
   SMessage    : the order decides which of several failing validators reports first — the text of an
                 error message, never an accepted value, a generated name or a generated file. *)
Inductive sclass := SSorted | SMembership | SMessage.
Definition audited_setiter : list (str * str * str * sclass) :=
  [(s_ "serializers.python", s_ "_get_element_imports",
    s_ "comprehension set.union(*(_get_single_element_imports(element) for element in elements))", SSorted);
   (s_ "schema.validation.__init__", s_ "_all_subclasses", s_ "comprehension _all_subclasses(c)", SMembership);
   (s_ "schema.validation.__init__", s_ "get_validators", s_ "for _all_subclasses(Validator)", SMessage)].
