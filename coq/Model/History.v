(* History.v — histories of reconfigurations and validation calls over a live element.
   State = the configuration (keyword attributes, properties) + the store of property
   binding cells (Store.v).  A configuration operation replaces the configuration and may
   re-bind cells (assigning `properties` binds the new property objects); a call performs
   the binds of the declared properties and evaluates from the current state. *)
From Statham.Model Require Import Str Store.

Section Hist.
  Variables (S V R C : Type).
  Variable apply_cfg : S -> C -> S.                  (* attribute assignment / property add-replace-remove *)
  Variable rebind : S -> C -> store -> store.        (* the binds the reconfiguration API performs *)
  Variable call_binds : S -> list wop.               (* the binds one call performs *)
  Variable eval : S -> store -> V -> R.              (* the evaluator: reads configuration and store only *)

  Inductive hop := HCfg (c : C) | HCall (v : V).

  (* the live element *)
  Fixpoint hrun (s : S) (st : store) (ops : list hop) : list R * (S * store) :=
    match ops with
    | [] => ([], (s, st))
    | HCfg c :: r => hrun (apply_cfg s c) (rebind s c st) r
    | HCall v :: r =>
      let st' := run st (call_binds s) in
      let '(outs, fin) := hrun s st' r in
      (eval s st' v :: outs, fin)
    end.

  (* the reference: forget every call; a fresh element is configured by the same operations *)
  Fixpoint cfg_only (s : S) (st : store) (ops : list hop) : S * store :=
    match ops with
    | [] => (s, st)
    | HCfg c :: r => cfg_only (apply_cfg s c) (rebind s c st) r
    | HCall _ :: r => cfg_only s st r
    end.
  Fixpoint href (s : S) (st : store) (ops : list hop) : list R :=
    match ops with
    | [] => []
    | HCfg c :: r => href (apply_cfg s c) (rebind s c st) r
    | HCall v :: r => eval s st v :: href s st r
    end.
End Hist.
