(* Plain.v — executable checker for the class-free fragment on which C01's validity theorem is
   stated (Proofs/C01Plain.v proves the checker sound for the Prop-level definition). *)
From Coq Require String. Import String.StringSyntax.
From Statham.Model Require Import Str Json Elem Names Tables Parser.
Local Open Scope string_scope.

(* no "_x_autotitle" key anywhere in a literal *)
Fixpoint clean (j : json) : bool :=
  match j with
  | JArr l => forallb clean l
  | JObj kvs =>
    (fix go (l : list (str * json)) : bool :=
       match l with
       | [] => true
       | (k, v) :: r => negb (str_eqb k (s_ "_x_autotitle")) && clean v && go r
       end) kvs
  | _ => true
  end.


Definition opt_list (o : option json) : list json := match o with Some j => [j] | None => [] end.
Definition arr_list (o : option json) : list json := match o with Some (JArr l) => l | _ => [] end.
Definition obj_vals (o : option json) : list json := match o with Some (JObj p) => map snd p | _ => [] end.

Definition subschemas (kvs : list (str * json)) : list json :=
  let get (s : String.string) := lookup (s_ s) kvs in
  (match get "items" with Some (JArr l) => l | Some s => [s] | None => [] end)
  ++ opt_list (get "additionalItems") ++ opt_list (get "contains") ++ opt_list (get "propertyNames")
  ++ opt_list (get "additionalProperties") ++ opt_list (get "not")
  ++ obj_vals (get "properties") ++ obj_vals (get "patternProperties")
  ++ filter is_schema (obj_vals (get "dependencies"))
  ++ arr_list (get "allOf") ++ arr_list (get "anyOf") ++ arr_list (get "oneOf").

Fixpoint nodupb (l : list str) : bool :=
  match l with [] => true | x :: r => negb (mem_str x r) && nodupb r end.

Definition nocompb (S0 : json) : bool :=
  match S0 with
  | JObj kvs => negb (existsb (fun kv => mem_str (fst kv) composition_keywords) kvs)
  | _ => true
  end.
Definition req_names (kvs : list (str * json)) : list str :=
  match lookup (s_ "required") kvs with Some j => jstr_list j | None => [] end.
Definition is_object_node (kvs : list (str * json)) : bool :=
  match lookup (s_ "type") kvs with Some (JStr t) => str_eqb t (s_ "object") | _ => false end.
Definition has_comp (kvs : list (str * json)) : bool :=
  existsb (fun kv => mem_str (fst kv) composition_keywords) kvs.

(* sub-schemas in the order parse_element visits them before the node itself *)
Definition pre_list (kvs : list (str * json)) : list json :=
  let get (s : String.string) := lookup (s_ s) kvs in
  obj_vals (get "properties")
  ++ (match get "items" with Some (JArr l) => l | Some s => [s] | None => [] end)
  ++ obj_vals (get "patternProperties") ++ opt_list (get "propertyNames") ++ opt_list (get "contains")
  ++ filter is_schema (obj_vals (get "dependencies"))
  ++ opt_list (get "additionalProperties") ++ opt_list (get "additionalItems").

Section Checker.
  Variable cfg : pcfg.
  Variable objs : bool.       (* are nodes of type "object" (named classes) allowed? *)

  (* every required name of an object node has a declared property whose schema has no
     composition keyword (so that "has a default" is read off the schema's own keys) *)
  Definition obj_node_okb (kvs : list (str * json)) : bool :=
    forallb (fun r => match lookup (s_ "properties") kvs with
                      | Some (JObj pkvs) => match lookup r pkvs with Some Sp => nocompb Sp | None => false end
                      | _ => false end) (req_names kvs).
  Definition type_condb (kvs : list (str * json)) : bool :=
    match lookup (s_ "type") kvs with
    | Some (JStr t) => if str_eqb t (s_ "object") then objs && obj_node_okb kvs else true
    | Some (JArr ts) => forallb (fun t => match t with JStr x => negb (str_eqb x (s_ "object")) | _ => true end) ts
    | _ => true
    end.
  Definition lit_cleanb (kvs : list (str * json)) (s : String.string) : bool :=
    match lookup (s_ s) kvs with Some j => clean j | None => true end.
  Definition dict_okb (needs : bool) (o : option json) : bool :=
    match o with
    | Some (JObj p) => nodupb (keys p) && (if needs then forallb (fun kv => is_schema (snd kv)) p else true)
    | _ => true
    end.
  Definition nonempty_listb (o : option json) : bool :=
    match o with Some (JArr []) => false | _ => true end.

  Definition node_okb (kvs : list (str * json)) : bool :=
    let get (s : String.string) := lookup (s_ s) kvs in
    nodupb (keys kvs) && type_condb kvs && lit_cleanb kvs "const" && lit_cleanb kvs "enum" &&
    dict_okb true (get "properties") &&
    (match get "properties" with Some (JObj p) => nodupb (map (attr cfg) (keys p)) | _ => true end) &&
    dict_okb true (get "patternProperties") && dict_okb false (get "dependencies") &&
    nonempty_listb (get "anyOf") && nonempty_listb (get "oneOf").

  Fixpoint plainb (fuel : nat) (S0 : json) : bool :=
    match fuel with
    | O => false
    | S n =>
      match S0 with
      | JBool _ => true
      | JObj kvs => node_okb kvs && forallb (plainb n) (subschemas kvs)
      | _ => false
      end
    end.

  (* the class names met by the parser, threaded in parse order: None on a repeated name *)
  Definition own_stepb (kvs : list (str * json)) (u : list str) : option (list str) :=
    if is_object_node kvs then
      match obj_title kvs with
      | Some (JStr (c :: t)) =>
        let name := title_format (c :: t) in
        if mem_str name u then None else Some (name :: u)
      | _ => Some u
      end
    else Some u.
  Definition comp_lists (kvs : list (str * json)) : list json :=
    flat_map (fun key => arr_list (lookup key kvs)) (c_comp_order cfg).

  Fixpoint walkb (fuel : nat) (u : list str) (S0 : json) : option (list str) :=
    match fuel with
    | O => None
    | S n =>
      let walksb := fix go (u0 : list str) (l : list json) : option (list str) :=
          match l with
          | [] => Some u0
          | x :: r => match walkb n u0 x with Some u1 => go u1 r | None => None end
          end in
      match S0 with
      | JObj kvs =>
        match walksb u (pre_list kvs) with
        | None => None
        | Some u1 =>
          match own_stepb kvs u1 with
          | None => None
          | Some u2 =>
            if has_comp kvs then
              match walksb u2 (comp_lists kvs) with
              | None => None
              | Some u3 => walksb u3 (opt_list (lookup (s_ "not") kvs))
              end
            else Some u2
          end
        end
      | _ => Some u
      end
    end.

  (* the whole premise of the validity theorem, decided *)
  Definition in_fragment (fuel : nat) (S0 : json) : bool :=
    plainb fuel S0 && match walkb fuel [] S0 with Some _ => true | None => false end.
End Checker.
