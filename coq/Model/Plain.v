(* Plain.v — executable checker for the class-free fragment on which C01's validity theorem is
   stated (Proofs/C01Plain.v proves the checker sound for the Prop-level definition). *)
From Coq Require String. Import String.StringSyntax.
From Statham.Model Require Import Str Json Elem Names Tables Parser.
Local Open Scope string_scope.

(* no "_x_autotitle" key anywhere in a literal *)
Fixpoint clean (j : json) : bool :=
  match j with
  | JArr l => forallb clean l
  | JObj kvs =>
    (fix go (l : list (str * json)) : bool :=
       match l with
       | [] => true
       | (k, v) :: r => negb (str_eqb k (s_ "_x_autotitle")) && clean v && go r
       end) kvs
  | _ => true
  end.


Definition opt_list (o : option json) : list json := match o with Some j => [j] | None => [] end.
Definition arr_list (o : option json) : list json := match o with Some (JArr l) => l | _ => [] end.
Definition obj_vals (o : option json) : list json := match o with Some (JObj p) => map snd p | _ => [] end.

Definition subschemas (kvs : list (str * json)) : list json :=
  let get (s : String.string) := lookup (s_ s) kvs in
  (match get "items" with Some (JArr l) => l | Some s => [s] | None => [] end)
  ++ opt_list (get "additionalItems") ++ opt_list (get "contains") ++ opt_list (get "propertyNames")
  ++ opt_list (get "additionalProperties") ++ opt_list (get "not")
  ++ obj_vals (get "properties") ++ obj_vals (get "patternProperties")
  ++ filter is_schema (obj_vals (get "dependencies"))
  ++ arr_list (get "allOf") ++ arr_list (get "anyOf") ++ arr_list (get "oneOf").

Fixpoint nodupb (l : list str) : bool :=
  match l with [] => true | x :: r => negb (mem_str x r) && nodupb r end.

Section Checker.
  Variable cfg : pcfg.

  Definition type_not_objectb (kvs : list (str * json)) : bool :=
    match lookup (s_ "type") kvs with
    | Some (JStr t) => negb (str_eqb t (s_ "object"))
    | Some (JArr ts) => forallb (fun t => match t with JStr x => negb (str_eqb x (s_ "object")) | _ => true end) ts
    | _ => true
    end.
  Definition lit_cleanb (kvs : list (str * json)) (s : String.string) : bool :=
    match lookup (s_ s) kvs with Some j => clean j | None => true end.
  Definition dict_okb (needs : bool) (o : option json) : bool :=
    match o with
    | Some (JObj p) => nodupb (keys p) && (if needs then forallb (fun kv => is_schema (snd kv)) p else true)
    | _ => true
    end.
  Definition nonempty_listb (o : option json) : bool :=
    match o with Some (JArr []) => false | _ => true end.

  Definition node_okb (kvs : list (str * json)) : bool :=
    let get (s : String.string) := lookup (s_ s) kvs in
    nodupb (keys kvs) && type_not_objectb kvs && lit_cleanb kvs "const" && lit_cleanb kvs "enum" &&
    dict_okb true (get "properties") &&
    (match get "properties" with Some (JObj p) => nodupb (map (attr cfg) (keys p)) | _ => true end) &&
    dict_okb true (get "patternProperties") && dict_okb false (get "dependencies") &&
    nonempty_listb (get "anyOf") && nonempty_listb (get "oneOf").

  Fixpoint plainb (fuel : nat) (S0 : json) : bool :=
    match fuel with
    | O => false
    | S n =>
      match S0 with
      | JBool _ => true
      | JObj kvs => node_okb kvs && forallb (plainb n) (subschemas kvs)
      | _ => false
      end
    end.

End Checker.
