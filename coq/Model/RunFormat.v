(* RunFormat.v — executable comparison of registry histories with the implementation. *)
From Statham.Model Require Import Str Json Elem PyNum Validate Format RunHelpers.

Inductive rop :=
| RReg (n : str) (accepted : list str)            (* register a checker given as the table of strings it accepts *)
| RChk (string_class : bool) (n : str) (v : json) (* String(format=n)(v) / Element(format=n)(v) *)
       (impl_ok impl_warned : bool).              (* what the implementation did *)

Definition chk_of (acc : list str) : checker := fun s => mem_str s acc.

(* indices of the operations on which model and implementation differ *)
Fixpoint run_hist (r : freg) (i : nat) (ops : list rop) : list nat :=
  match ops with
  | [] => []
  | RReg n acc :: rest => run_hist (fst (fstep r (Register n (chk_of acc)))) (S i) rest
  | RChk sc n v iok iwarn :: rest =>
    let O := oracles_of r (fun _ _ => false) in
    let ok := is_ok (build O (EK (if sc then CString else CElement) (kfmt n)) (Some v)) in
    let '(acc, warned) := fcheck r n v in
    let warned := if sc then (match v with JStr _ => warned | _ => false end) else warned in
    (* String(): a non-string is rejected by type before the format validator runs *)
    let expect_ok := if sc then (match v with JStr _ => acc | _ => false end) else acc in
    (if Bool.eqb ok iok && Bool.eqb expect_ok iok && Bool.eqb warned iwarn then [] else [i])
    ++ run_hist r (S i) rest
  end.

Definition run_format_case (c : list (str * list str) * list rop) : list nat :=
  run_hist (map (fun p => (fst p, chk_of (snd p))) (fst c)) O (snd c).
