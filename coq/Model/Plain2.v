(* Plain2.v — the walk of Plain.v with revisits: the class names met by the parser in parse order,
   AND the schema objects already parsed.  A schema object met again (the same JSON: a definition
   referenced twice after $ref resolution) is not walked a second time and may reuse its class
   name: the parser returns the very class it built the first time (ParseReplay.v). *)
From Coq Require String. Import String.StringSyntax.
From Coq Require Import List.
From Statham.Model Require Import Str Json Elem Equality Names Tables Parser Plain.
Local Open Scope string_scope.

Definition thread := (list str * list json)%type.

Section Checker2.
  Variable cfg : pcfg.

  Definition own_stepb2 (kvs : list (str * json)) (u : thread) : option thread :=
    match own_stepb kvs (fst u) with Some n => Some (n, snd u) | None => None end.
  Definition record (kvs : list (str * json)) (u : thread) : thread := (fst u, JObj kvs :: snd u).

  Fixpoint walkb2 (fuel : nat) (u : thread) (S0 : json) : option thread :=
    match fuel with
    | O => None
    | S n =>
      let walksb := fix go (u0 : thread) (l : list json) : option thread :=
          match l with
          | [] => Some u0
          | x :: r => match walkb2 n u0 x with Some u1 => go u1 r | None => None end
          end in
      match S0 with
      | JObj kvs =>
        if existsb (json_eqb (JObj kvs)) (snd u) then Some u else
        match walksb u (pre_list kvs) with
        | None => None
        | Some u1 =>
          match own_stepb2 kvs u1 with
          | None => None
          | Some u2 =>
            if has_comp kvs then
              match walksb u2 (comp_lists cfg kvs) with
              | None => None
              | Some u3 =>
                match walksb u3 (opt_list (lookup (s_ "not") kvs)) with
                | Some u4 => Some (record kvs u4)
                | None => None
                end
              end
            else Some (record kvs u2)
          end
        end
      | _ => Some u
      end
    end.

  Definition in_fragment2 (fuel : nat) (S0 : json) : bool :=
    plainb cfg true fuel S0 && match walkb2 fuel ([], []) S0 with Some _ => true | None => false end.
End Checker2.

(* every class of a parse state equals itself (the premise of ParseReplay.replay, decided) *)
Definition refl_stateb (st : pstate) : bool :=
  forallb (fun nl : str * list elem => forallb (fun x => elem_eq x x) (snd nl)) st.
