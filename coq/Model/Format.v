(* Format.v — the process-wide format registry (statham/schema/validation/format.py) as a
   state machine, and what a format keyword does inside an element call. *)
From Statham.Model Require Import Str Json Elem PyNum Validate.

Definition checker := str -> bool.
Definition freg := list (str * checker).          (* _callable_register, insertion ordered *)

Inductive fop :=
| Register (n : str) (f : checker)                (* @format_checker.register(n) *)
| Check (n : str) (v : json).                     (* Format(n)(v) inside an element call *)

(* (accepted, warned) of one check: the validator is type-guarded to str *)
Definition fcheck (r : freg) (n : str) (v : json) : bool * bool :=
  match v with
  | JStr s => match lookup n r with
              | Some f => (f s, false)
              | None => (true, true)               (* unregistered: warn and accept *)
              end
  | _ => (true, false)
  end.

Definition fstep (r : freg) (o : fop) : freg * option (bool * bool) :=
  match o with
  | Register n f => (dict_set n f r, None)
  | Check n v => (r, Some (fcheck r n v))
  end.

Fixpoint frun (r : freg) (ops : list fop) : freg * list (option (bool * bool)) :=
  match ops with
  | [] => (r, [])
  | o :: rest =>
    let '(r1, out) := fstep r o in
    let '(r2, outs) := frun r1 rest in
    (r2, out :: outs)
  end.

(* specification: the checker most recently registered under n, if any *)
Fixpoint last_registered (r0 : freg) (ops : list fop) (n : str) : option checker :=
  match ops with
  | [] => lookup n r0
  | Register m f :: rest => last_registered (dict_set m f r0) rest n
  | Check _ _ :: rest => last_registered r0 rest n
  end.
Fixpoint last_registered_rev (hist : list fop) (n : str) : option checker :=   (* newest first *)
  match hist with
  | [] => None
  | Register m f :: older => if str_eqb n m then Some f else last_registered_rev older n
  | Check _ _ :: older => last_registered_rev older n
  end.

Definition oracles_of (r : freg) (re : str -> str -> bool) : oracles := mkO re (fun n => lookup n r).

(* an element whose only keyword is format *)
Definition kfmt (n : str) : kwds elem :=
  mkK None None None None (AddBool true) None None false None None None None None None
      (Some n) None None None None None None (AddBool true) None None None None None.
