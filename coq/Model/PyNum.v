(* PyNum.v — the Python int/float arithmetic the validators use, including where it raises.
   Floats are IEEE-754 binary64 via Floats.SpecFloat (no float axioms, computes by vm_compute). *)
From Coq Require Import Floats.SpecFloat.
From Statham.Model Require Import Str Json Elem.

Inductive pyres (A : Type) := PVal (a : A) | PExn (x : exn).
Arguments PVal {A}. Arguments PExn {A}.

(* float(int): round to nearest even; OverflowError when the result is not finite *)
Definition py_float_of_int (z : Z) : pyres spec_float :=
  match binary_normalize prec emax z 0 false with
  | S754_infinity _ | S754_nan => PExn OverflowError
  | f => PVal f
  end.

Definition float_of_num (n : num) : pyres spec_float :=
  match n with
  | NZ z => py_float_of_int z
  | NF f => PVal f
  end.

(* int(float): truncation; OverflowError on inf, ValueError on nan (mapped to OtherExn) *)
Definition py_int_of_float (f : spec_float) : pyres Z :=
  match f with
  | S754_zero _ => PVal 0%Z
  | S754_finite sg m e =>
    let mz := Zpos m in
    let mag := if (0 <=? e)%Z then (mz * 2 ^ e)%Z else Z.quot mz (2 ^ (- e)) in
    PVal (if sg then (- mag)%Z else mag)
  | S754_infinity _ => PExn OverflowError
  | S754_nan => PExn OtherExn
  end.

(* value / multiple_of with multiple_of a float: true division in binary64 *)
Definition py_truediv_float (value : num) (divisor : spec_float) : pyres spec_float :=
  match float_of_num value with
  | PExn x => PExn x
  | PVal fv =>
    match divisor with
    | S754_zero _ => PExn ZeroDivisionError
    | _ => PVal (SFdiv prec emax fv divisor)
    end
  end.

(* exact decision used when the float computation overflows (fix 2eb3576):
   bool(Fraction(value) % Fraction(multiple_of)) *)
Definition exact_multiple (value multiple : num) : pyres bool :=
  match dy_of_num value, dy_of_num multiple with
  | Some a, Some b =>
    if Z.eqb (dm b) 0 then PExn ZeroDivisionError
    else
      let e := Z.min (de a) (de b) in
      PVal (Z.eqb (Z.rem (dm a * 2 ^ (de a - e)) (dm b * 2 ^ (de b - e))) 0)
  | _, _ => PExn OtherExn
  end.

(* MultipleOf._validate: true = passes, false = ValidationError *)
Definition multiple_of_check (value multiple : num) : pyres bool :=
  match multiple with
  | NF fm =>
    (* quotient = value / multiple_of; int(quotient) != quotient -> invalid;
       OverflowError anywhere -> exact *)
    match py_truediv_float value fm with
    | PExn OverflowError => exact_multiple value multiple
    | PExn x => PExn x
    | PVal q =>
      match py_int_of_float q with
      | PExn OverflowError => exact_multiple value multiple
      | PExn x => PExn x
      | PVal iq => PVal (num_eqb (NZ iq) (NF q))
      end
    end
  | NZ m =>
    if Z.eqb m 0 then PExn ZeroDivisionError
    else
      match value with
      | NZ v => PVal (Z.eqb (Z.modulo v m) 0)
      | NF fv =>
        (* float % int: int converted to float first (OverflowError -> exact); the remainder
           is exact (fmod), so it is zero iff the float is an exact multiple of float(m) *)
        match py_float_of_int m with
        | PExn OverflowError => exact_multiple value multiple
        | PExn x => PExn x
        | PVal fm =>
          match dy_of_float fv, dy_of_float fm with
          | Some a, Some b =>
            if Z.eqb (dm b) 0 then PExn ZeroDivisionError
            else
              let e := Z.min (de a) (de b) in
              PVal (Z.eqb (Z.rem (dm a * 2 ^ (de a - e)) (dm b * 2 ^ (de b - e))) 0)
          | _, _ => PExn OtherExn
          end
        end
      end
  end.

(* threshold comparisons: `value <op> param` raising ValidationError when true *)
Inductive cmpop := OpLt | OpLe | OpGt | OpGe.
Definition cmp_holds (op : cmpop) (a b : num) : bool :=
  match num_cmp a b with
  | Some c =>
    match op, c with
    | OpLt, Lt => true
    | OpLe, (Lt | Eq) => true
    | OpGt, Gt => true
    | OpGe, (Gt | Eq) => true
    | _, _ => false
    end
  | None => false
  end.
