(* RunElem.v — Validate.build on element trees given directly (DSL trees emitted by the harness). *)
From Statham.Model Require Import Str Json Elem Validate RunHelpers Retr.

Record ecase := mkECase {
  ec_re : list (str * list str);             (* pattern -> strings it matches (from `re`) *)
  ec_fm : list (str * list str);             (* registered format -> strings it accepts *)
  ec_elem : elem;
  ec_vals : list (option json * json)        (* value (None = NotPassed), implementation's canonical outcome *)
}.

Definition tag_of (j : json) : str := match j with JArr (JStr t :: _) => t | _ => [] end.

(* 2 = verdict class differs, 3 = both accept but the constructed results differ *)
Definition run_elem_case (c : ecase) : list nat :=
  let O := tbl_oracles (ec_re c) (ec_fm c) in
  nodup Nat.eq_dec (flat_map (fun ve =>
    let mine := canon_outcome (build O (ec_elem c) (fst ve)) in
    if str_eqb (tag_of mine) (tag_of (snd ve))
    then (if json_eqb mine (snd ve) then [] else [3%nat])
    else [2%nat]) (ec_vals c)).

(* C04: the codes of run_elem_case, plus 9 when every value of the case satisfies the premise of
   C04_complete (Retr.safeb, sound by C04_premise_checker): there the model result holds every
   member of the input by theorem *)
Definition run_elem_case_c04 (c : ecase) : list nat :=
  run_elem_case c ++
  (if forallb (fun ve => match fst ve with Some v => safeb 200 (ec_elem c) v | None => true end) (ec_vals c)
   then [9%nat] else []).

Definition show_elem_case (c : ecase) :=
  let O := tbl_oracles (ec_re c) (ec_fm c) in
  map (fun ve => canon_outcome (build O (ec_elem c) (fst ve))) (ec_vals c).
