(* Elem.v — element trees, results, outcomes.  Executable definitions only. *)
From Coq Require Import Floats.SpecFloat.
From Coq Require String. Import String.StringSyntax.
From Statham.Model Require Import Str Json.
Local Open Scope string_scope.
Local Open Scope list_scope.

Inductive ecls := CElement | CString | CInteger | CNumber | CBoolean | CNull | CArray.
Inductive mode := MAny | MOne | MAll.

Inductive addl (E : Type) := AddBool (b : bool) | AddElem (e : E).
Inductive items_t (E : Type) := ItOne (e : E) | ItMany (l : list E).
Inductive dep_t (E : Type) := DepNames (l : list str) | DepElem (e : E).
Arguments AddBool {E}. Arguments AddElem {E}.
Arguments ItOne {E}. Arguments ItMany {E}.
Arguments DepNames {E}. Arguments DepElem {E}.

(* a bound _Property: dict key = attribute name, p_source = JSON name *)
Record prop (E : Type) := mkProp { p_elem : E; p_required : bool; p_source : str }.
Arguments mkProp {E}. Arguments p_elem {E}. Arguments p_required {E}. Arguments p_source {E}.

(* All 27 keywords of Element.__init__.  None / AddBool true / false are the
   constructor defaults; an attribute a typed class never sets reads as the same
   default through getattr(..., default) everywhere the code looks at it. *)
Record kwds (E : Type) := mkK {
  k_default : option json;
  k_const : option json;
  k_enum : option (list json);
  k_items : option (items_t E);
  k_additionalItems : addl E;
  k_minItems : option json;
  k_maxItems : option json;
  k_uniqueItems : bool;
  k_contains : option E;
  k_minimum : option json;
  k_maximum : option json;
  k_exclusiveMinimum : option json;
  k_exclusiveMaximum : option json;
  k_multipleOf : option json;
  k_format : option str;
  k_pattern : option str;
  k_minLength : option json;
  k_maxLength : option json;
  k_required : option (list str);
  k_properties : option (list (str * prop E));
  k_patternProperties : option (list (str * E));
  k_additionalProperties : addl E;
  k_minProperties : option json;
  k_maxProperties : option json;
  k_propertyNames : option E;
  k_dependencies : option (list (str * dep_t E));
  k_description : option str
}.
Arguments mkK {E}.
Arguments k_default {E}. Arguments k_const {E}. Arguments k_enum {E}. Arguments k_items {E}.
Arguments k_additionalItems {E}. Arguments k_minItems {E}. Arguments k_maxItems {E}.
Arguments k_uniqueItems {E}. Arguments k_contains {E}. Arguments k_minimum {E}.
Arguments k_maximum {E}. Arguments k_exclusiveMinimum {E}. Arguments k_exclusiveMaximum {E}.
Arguments k_multipleOf {E}. Arguments k_format {E}. Arguments k_pattern {E}.
Arguments k_minLength {E}. Arguments k_maxLength {E}. Arguments k_required {E}.
Arguments k_properties {E}. Arguments k_patternProperties {E}. Arguments k_additionalProperties {E}.
Arguments k_minProperties {E}. Arguments k_maxProperties {E}. Arguments k_propertyNames {E}.
Arguments k_dependencies {E}. Arguments k_description {E}.

Definition k0 {E : Type} : kwds E :=
  mkK None None None None (AddBool true) None None false None None None None None None
      None None None None None None None (AddBool true) None None None None None.

Inductive elem :=
| EK (c : ecls) (k : kwds elem)                      (* Element / String / ... / Array instance *)
| ENothing                                           (* Nothing() *)
| ENot (e : elem) (d : option json)                  (* Not(e, default=d) *)
| EComp (m : mode) (es : list elem) (d : option json)(* AnyOf/OneOf/AllOf( *es, default=d) *)
| EObj (name : str) (bases : list str) (k : kwds elem). (* an Object subclass (ObjectMeta instance) *)

Definition EElement : elem := EK CElement k0.

(* what a call returns *)
Inductive rv :=
| RNotPassed
| RNull
| RBool (b : bool)
| RInt (z : Z)
| RFlt (f : spec_float)
| RStr (s : str)
| RList (l : list rv)
| RDict (kvs : list (str * rv))        (* plain dict (raw passthrough) *)
| RAnon (kvs : list (str * rv))        (* _AnonymousObject *)
| RInst (cls : str) (kvs : list (str * rv)).   (* model instance: class name, _dict *)

Inductive exn := OverflowError | ZeroDivisionError | ReError | KeyError | PyTypeError | OtherExn.

Inductive outcome :=
| Ok (r : rv)
| Rej                 (* ValidationError *)
| Crash (x : exn).    (* any other exception escaping *)

Definition is_ok (o : outcome) : bool := match o with Ok _ => true | _ => false end.

Fixpoint rv_of_json (j : json) : rv :=
  match j with
  | JNull => RNull
  | JBool b => RBool b
  | JInt z => RInt z
  | JFlt f => RFlt f
  | JStr s => RStr s
  | JArr l => RList (map rv_of_json l)
  | JObj kvs => RDict (map (fun kv => (fst kv, rv_of_json (snd kv))) kvs)
  end.

(* Element()(value): accepts everything; dicts become _AnonymousObject *)
Fixpoint build_any (j : json) : rv :=
  match j with
  | JNull => RNull
  | JBool b => RBool b
  | JInt z => RInt z
  | JFlt f => RFlt f
  | JStr s => RStr s
  | JArr l => RList (map build_any l)
  | JObj kvs => RAnon (dict_of_pairs (map (fun kv => (fst kv, build_any (snd kv))) kvs))
  end.

(* canonical tagged-JSON rendering of results, for comparison with the implementation *)
Fixpoint canon_rv (r : rv) : json :=
  let kvs_c := fix go (l : list (str * rv)) : list (str * json) :=
      match l with [] => [] | (k, v) :: t => (k, canon_rv v) :: go t end in
  match r with
  | RNotPassed => JArr [JStr (s_ "NotPassed")]
  | RNull => JNull
  | RBool b => JBool b
  | RInt z => JInt z
  | RFlt f => JFlt f
  | RStr x => JStr x
  | RList l => JArr (JStr (s_ "list") :: map canon_rv l)
  | RDict kvs => JArr [JStr (s_ "dict"); JObj (kvs_c kvs)]
  | RAnon kvs => JArr [JStr (s_ "anon"); JObj (kvs_c kvs)]
  | RInst c kvs => JArr [JStr (s_ "inst"); JStr c; JObj (kvs_c kvs)]
  end.

Definition canon_outcome (o : outcome) : json :=
  match o with
  | Ok r => JArr [JStr (s_ "ok"); canon_rv r]
  | Rej => JArr [JStr (s_ "rej")]
  | Crash _ => JArr [JStr (s_ "crash")]
  end.
