(* Unsupported.v — "a documented-unsupported keyword occurs at a position statham
   interprets as a schema": the positions are exactly the places parse_element
   recurses into (Parser.v), written independently of the parser monad. *)
From Coq Require String. Import String.StringSyntax.
From Statham.Model Require Import Str Json Elem Parser.
Local Open Scope string_scope.
Local Open Scope list_scope.

Section Positions.
  Variable F : json -> bool.     (* the recursive occurrence test (continuation) *)

  Fixpoint any_list (l : list json) : bool :=
    match l with
    | [] => false
    | x :: r => F x || any_list r
    end.
  (* values of a dict that are schemas (dict or bool) *)
  Fixpoint any_assoc (kvs : list (str * json)) : bool :=
    match kvs with
    | [] => false
    | (_, v) :: r => (if is_schema v then F v else false) || any_assoc r
    end.
  Definition u_assoc (j : json) : bool := match j with JObj kvs => any_assoc kvs | _ => false end.
  Definition u_items (j : json) : bool := match j with JArr l => any_list l | _ => F j end.
  Definition u_addl (j : json) : bool := match j with JBool _ => false | _ => F j end.
  Definition u_list (j : json) : bool := match j with JArr l => any_list l | _ => false end.
End Positions.

Section Uses.
  Variable uns : list str.

  Fixpoint uses_unsupported (S : json) {struct S} : bool :=
    match S with
    | JObj kvs =>
      existsb (fun kv => mem_str (fst kv) uns) kvs
      || with_key (u_assoc uses_unsupported) (s_ "properties") kvs false
      || with_key (u_items uses_unsupported) (s_ "items") kvs false
      || with_key (u_assoc uses_unsupported) (s_ "patternProperties") kvs false
      || with_key uses_unsupported (s_ "propertyNames") kvs false
      || with_key uses_unsupported (s_ "contains") kvs false
      || with_key (u_assoc uses_unsupported) (s_ "dependencies") kvs false
      || with_key (u_addl uses_unsupported) (s_ "additionalProperties") kvs false
      || with_key (u_addl uses_unsupported) (s_ "additionalItems") kvs false
      || with_key (u_list uses_unsupported) (s_ "anyOf") kvs false
      || with_key (u_list uses_unsupported) (s_ "oneOf") kvs false
      || with_key (u_list uses_unsupported) (s_ "allOf") kvs false
      || with_key uses_unsupported (s_ "not") kvs false
    | _ => false
    end.

  (* a whole document: the root and every schema-valued member of root "definitions" *)
  Definition doc_uses_unsupported (S : json) : bool :=
    uses_unsupported S ||
    match S with
    | JObj kvs => match lookup (s_ "definitions") kvs with
                  | Some (JObj d) => any_assoc uses_unsupported d
                  | _ => false
                  end
    | _ => false
    end.
End Uses.
