(* Store.v — the mutable cells a validation call can touch: the binding of every shared
   _Property object (name, source, parent), written by _Property.bind on every call
   (Properties.__init__ re-binds each declared property to its owner under its key). *)
From Statham.Model Require Import Str.

Record cell := mkCell { c_name : option str; c_source : option str; c_parent : option nat }.

Definition falsy_str (o : option str) : bool := match o with None | Some [] => true | _ => false end.

(* _Property.bind(name, parent):
     if parent: self.parent = parent
     if not name: return
     if not self.source: self.source = name
     self.name = name                                  *)
Definition bind (c : cell) (name : option str) (parent : option nat) : cell :=
  let c1 := match parent with Some p => mkCell (c_name c) (c_source c) (Some p) | None => c end in
  if falsy_str name then c1
  else mkCell name (if falsy_str (c_source c1) then name else c_source c1) (c_parent c1).

Definition store := list cell.

Inductive wop := OBind (i : nat) (name : option str) (parent : option nat).

Fixpoint set_nth (l : store) (i : nat) (c : cell) : store :=
  match l, i with
  | [], _ => []
  | _ :: r, O => c :: r
  | x :: r, S j => x :: set_nth r j c
  end.

Definition step (s : store) (o : wop) : store :=
  match o with
  | OBind i name parent =>
    match nth_error s i with
    | Some c => set_nth s i (bind c name parent)
    | None => s
    end
  end.

Definition run (s : store) (ops : list wop) : store := fold_left step ops s.

(* where each shared property lives: the key it is declared under and its owner *)
Definition homes := nat -> (str * nat).

(* well-bound: what every constructor establishes (_PropertyDict.__setitem__ / parent setter,
   ObjectMeta.__new__ through the properties setter) *)
Definition wb_cell (key : str) (owner : nat) (c : cell) : Prop :=
  c_parent c = Some owner /\
  match key with
  | [] => True                                  (* an empty key never names the property *)
  | _ => c_name c = Some key /\ falsy_str (c_source c) = false
  end.

Definition WB (h : homes) (s : store) : Prop :=
  forall i c, nth_error s i = Some c -> wb_cell (fst (h i)) (snd (h i)) c.

(* the binds a call performs: each declared property, to its own key and owner *)
Definition call_bind (h : homes) (o : wop) : Prop :=
  match o with OBind i name parent => name = Some (fst (h i)) /\ parent = Some (snd (h i)) end.
