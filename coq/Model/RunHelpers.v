(* RunHelpers.v — instantiating the oracles when the model is executed by the harness. *)
From Coq Require String. Import String.StringSyntax.
From Statham.Model Require Import Str Json Elem Validate Names Parser.
Local Open Scope string_scope.
Local Open Scope list_scope.

(* regex and format oracles as finite tables computed by the real `re` / registry *)
Definition tbl_oracles (re : list (str * list str)) (fm : list (str * list str)) : oracles :=
  mkO (fun p s => match lookup p re with Some l => mem_str s l | None => false end)
      (fun f => match lookup f fm with Some l => Some (fun s => mem_str s l) | None => None end).

Fixpoint in_ranges (c : N) (rs : list (N * N)) : bool :=
  match rs with
  | [] => false
  | (lo, hi) :: r => ((lo <=? c)%N && (c <=? hi)%N) || in_ranges c r
  end.

Definition tbl_unicode (alnum : list (N * N)) (names : list (N * str)) : unicode :=
  mkU (fun c => in_ranges c alnum)
      (fun c => match find (fun p => N.eqb (fst p) c) names with
                | Some p => snd p
                | None => s_ "unknown"
                end).
