(* Repr.v — statham/schema/helpers.py custom_repr_args, generically over a constructor
   signature, and the constructor-call binding that evaluating the repr performs. *)
From Coq Require String. Import String.StringSyntax.
From Statham.Model Require Import Str Json Elem Tables.
Local Open Scope string_scope.
Local Open Scope list_scope.

Section Generic.
  Variable V : Type.                     (* attribute values *)
  Variable veq : V -> V -> bool.         (* Python == *)
  Variable unpack : V -> list V.         (* `value or []` for the *args parameter *)
  Variable pack : list V -> V.           (* what __init__ stores for *args: list(elements) *)

  (* parameter: name, kind, default (None = no default: inspect._empty, never == a value) *)
  Definition param := (str * pkind * option V)%type.
  Definition pname (p : param) : str := fst (fst p).

  (* custom_repr_args: (positional arguments, keyword arguments) *)
  Fixpoint repr_args (sig : list param) (get : str -> V) : list V * list (str * V) :=
    match sig with
    | [] => ([], [])
    | (n, kind, d) :: rest =>
      let '(args, kwargs) := repr_args rest get in
      let v := get n in
      if match d with Some dv => veq v dv | None => false end then (args, kwargs)
      else match kind with
           | VarPos => (unpack v ++ args, kwargs)
           | KwOnly => (args, (n, v) :: kwargs)
           | _ => (v :: args, kwargs)
           end
    end.

  (* Python call binding for signatures of the shape  (pos..., *var?, kw-only...):
     the attribute each parameter ends up with, or None if a required one is missing *)
  Fixpoint bind_sig (sig : list param) (args : list V) (kwargs : list (str * V)) : option (list (str * V)) :=
    match sig with
    | [] => match args with [] => Some [] | _ => None end
    | (n, kind, d) :: rest =>
      match kind with
      | VarPos => option_map (cons (n, pack args)) (bind_sig rest [] kwargs)
      | KwOnly | VarKw =>
        match lookup n kwargs, d with
        | Some v, _ => option_map (cons (n, v)) (bind_sig rest args kwargs)
        | None, Some dv => option_map (cons (n, dv)) (bind_sig rest args kwargs)
        | None, None => None
        end
      | PosOrKw =>
        match args with
        | a :: args' => option_map (cons (n, a)) (bind_sig rest args' kwargs)
        | [] => match d with
                | Some dv => option_map (cons (n, dv)) (bind_sig rest [] kwargs)
                | None => None
                end
        end
      end
    end.

  (* shape every statham constructor has: required positionals, then at most one *args,
     then keyword-only parameters that all have defaults *)
  Fixpoint kwonly_tail (sig : list param) : bool :=
    match sig with
    | [] => true
    | (_, KwOnly, Some _) :: rest => kwonly_tail rest
    | _ => false
    end.
  Fixpoint shape_ok (sig : list param) : bool :=
    match sig with
    | (_, PosOrKw, None) :: rest => shape_ok rest
    | (_, VarPos, None) :: rest => kwonly_tail rest
    | _ => kwonly_tail sig
    end.
End Generic.

(* ---- the concrete shape of an element's repr: number of positional arguments and the
        keyword names that appear, in signature order ---- *)
Definition kw_is_default (k : kwds elem) (name : str) : bool :=
  let is (s : String.string) := str_eqb name (s_ s) in
  let none {A} (o : option A) := match o with None => true | Some _ => false end in
  if is "default" then none (k_default k) else if is "const" then none (k_const k)
  else if is "enum" then none (k_enum k) else if is "items" then none (k_items k)
  else if is "additionalItems" then match k_additionalItems k with AddBool true => true | _ => false end
  else if is "minItems" then none (k_minItems k) else if is "maxItems" then none (k_maxItems k)
  else if is "uniqueItems" then negb (k_uniqueItems k)
  else if is "contains" then none (k_contains k)
  else if is "minimum" then none (k_minimum k) else if is "maximum" then none (k_maximum k)
  else if is "exclusiveMinimum" then none (k_exclusiveMinimum k)
  else if is "exclusiveMaximum" then none (k_exclusiveMaximum k)
  else if is "multipleOf" then none (k_multipleOf k) else if is "format" then none (k_format k)
  else if is "pattern" then none (k_pattern k) else if is "minLength" then none (k_minLength k)
  else if is "maxLength" then none (k_maxLength k) else if is "required" then none (k_required k)
  else if is "properties" then none (k_properties k)
  else if is "patternProperties" then none (k_patternProperties k)
  else if is "additionalProperties" then match k_additionalProperties k with AddBool true => true | _ => false end
  else if is "minProperties" then none (k_minProperties k) else if is "maxProperties" then none (k_maxProperties k)
  else if is "propertyNames" then none (k_propertyNames k)
  else if is "dependencies" then none (k_dependencies k)
  else if is "description" then none (k_description k)
  else true.

(* (positional count, keyword names) of repr(e); classes print as their bare name *)
Definition repr_shape (sigs : ecls -> list sigrow) (e : elem) : nat * list str :=
  match e with
  | EK c k =>
    let rows := sigs c in
    (length (filter (fun r => match r with (_, PosOrKw, _, _) => true | _ => false end) rows),
     filter (fun n => negb (kw_is_default k n))
            (map (fun r => fst (fst (fst r)))
                 (filter (fun r => match r with (_, KwOnly, _, _) => true | _ => false end) rows)))
  | ENothing => (O, [])
  | ENot _ d => (1%nat, match d with Some _ => [s_ "default"] | None => [] end)
  | EComp _ es d => (length es, match d with Some _ => [s_ "default"] | None => [] end)
  | EObj _ _ _ => (O, [])
  end.
