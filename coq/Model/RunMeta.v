(* RunMeta.v — ObjectMeta.__new__ of the model vs the classes the implementation built. *)
From Statham.Model Require Import Str Json Elem Equality Canon Meta.
(* parent's actual keywords (None for a direct Object subclass), what the class statement passed,
   whether additionalProperties was passed, the body's properties, the class actually built *)
Definition run_meta_case (c : option (kwds elem) * kwds elem * bool * list (str * prop elem) * option str * kwds elem) : list nat :=
  match c with (parent, passed, ap, own, doc, actual) =>
    if json_eqb (canon_kwds canon_elem (with_doc doc (meta_new parent passed ap own))) (canon_kwds canon_elem actual) then [] else [1%nat]
  end.
