(* RunSer.v — serialize_json of the model vs the implementation, and the Draft-6 reading of the
   emitted document (Spec6.v) vs the element's own verdicts. *)
From Coq Require String. Import String.StringSyntax.
From Statham.Model Require Import Str Json Elem Validate Equality SerJson Spec6 RunHelpers SerFrag Resolve.
Local Open Scope string_scope.
Local Open Scope list_scope.

(* the document serialize_json assembles, given the object classes the orderer collected
   (distinct classes other than the primary, in collection order) and caller definitions *)
Definition ser_doc (defs : list (str * elem)) (primary : elem) (classes : list elem) : json :=
  let top := ser_top true true defs in
  let body := match top primary with JObj kvs => kvs | _ => [] end in
  let dfs := dict_of_pairs (map (fun c => (match c with EObj n _ _ => n | _ => [] end, top c)) classes
                            ++ map (fun kd => (fst kd, top (snd kd))) defs) in
  JObj (body ++ match dfs with [] => [] | _ => [(s_ "definitions", JObj dfs)] end).

(* case: caller definitions, primary, other classes, implementation's document *)
Definition run_ser_case (c : list (str * elem) * elem * list elem * json) : list nat :=
  match c with (defs, primary, classes, impl_doc) =>
    (if jeq false (ser_doc defs primary classes) impl_doc then [] else [1%nat]) ++
    (* 9: the tree lies in the fragment of C03_meaning (reference-free, DSL-constructible) *)
    (match defs, classes with
     | [], [] => if dslb 200 primary then [9%nat] else []
     | _, _ => []
     end)
  end.

(* case: regex / format tables, the RESOLVED document, (value, the element accepted it?) list.
   4 = the element's verdict lies outside what Draft 6 (with the documented deviations, either
   treatment of required-with-default) says about the document *)
Definition run_doc_case (c : list (str * list str) * list (str * list str) * json * list (json * bool)) : list nat :=
  match c with (re, fm, doc, vals) =>
    let O := tbl_oracles re fm in
    nodup Nat.eq_dec (flat_map (fun vb : json * bool =>
      let v := fst vb in
      let strict := v6 O WNever doc v in
      let always := v6 O WAlways doc v in
      if snd vb then (if strict || always then [] else [4%nat])
      else (if strict && always then [4%nat] else [])) vals)
  end.

(* the same on the RAW document: its references are resolved here (Resolve.resolve_doc) instead of by the
   harness; 11 = a reference dangles or the references are cyclic *)
Definition run_doc_case_raw (c : list (str * list str) * list (str * list str) * json * list (json * bool)) : list nat :=
  match c with (re, fm, doc, vals) =>
    match resolve_doc 200 doc with
    | Some R => run_doc_case (re, fm, R, vals)
    | None => [11%nat]
    end
  end.
