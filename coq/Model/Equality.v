(* Equality.v — Element.__eq__ / _Property.__eq__ (after replace_bool: literals compare with js_eq):
   same concrete class and Python-== public attributes; object classes compare
   without their name or bases; dict-valued attributes compare order-insensitively. *)
From Statham.Model Require Import Str Json Elem.

Definition ecls_eqb (a b : ecls) : bool :=
  match a, b with
  | CElement, CElement | CString, CString | CInteger, CInteger | CNumber, CNumber
  | CBoolean, CBoolean | CNull, CNull | CArray, CArray => true
  | _, _ => false
  end.
Definition mode_eqb (a b : mode) : bool :=
  match a, b with MAny, MAny | MOne, MOne | MAll, MAll => true | _, _ => false end.

Definition opt_eqb {A} (f : A -> A -> bool) (a b : option A) : bool :=
  match a, b with
  | None, None => true
  | Some x, Some y => f x y
  | _, _ => false
  end.
Fixpoint list_eqb {A} (f : A -> A -> bool) (a b : list A) : bool :=
  match a, b with
  | [], [] => true
  | x :: r, y :: s => f x y && list_eqb f r s
  | _, _ => false
  end.

Section KwEq.
  Variable F : elem -> elem -> bool.     (* the recursive equality (continuation) *)

  Fixpoint elems_eq (a b : list elem) {struct a} : bool :=
    match a, b with
    | [], [] => true
    | x :: r, y :: s => F x y && elems_eq r s
    | _, _ => false
    end.
  Definition oelem_eq (a b : option elem) : bool :=
    match a, b with
    | None, None => true
    | Some x, Some y => F x y
    | _, _ => false
    end.
  Definition addl_eq (a b : addl elem) : bool :=
    match a, b with
    | AddBool x, AddBool y => Bool.eqb x y
    | AddElem x, AddElem y => F x y
    | _, _ => false           (* True == Element() is False *)
    end.
  Definition items_eq (a b : option (items_t elem)) : bool :=
    match a, b with
    | None, None => true
    | Some (ItOne x), Some (ItOne y) => F x y
    | Some (ItMany x), Some (ItMany y) => elems_eq x y
    | _, _ => false
    end.
  (* dict == dict: same size and every key of a is in b with an equal value *)
  Fixpoint pats_sub (a : list (str * elem)) (b : list (str * elem)) {struct a} : bool :=
    match a with
    | [] => true
    | (k, x) :: r => match lookup k b with Some y => F x y && pats_sub r b | None => false end
    end.
  Definition pats_eq (a b : option (list (str * elem))) : bool :=
    match a, b with
    | None, None => true
    | Some x, Some y => Nat.eqb (length x) (length y) && pats_sub x y
    | _, _ => false
    end.
  Fixpoint props_sub (a : list (str * prop elem)) (b : list (str * prop elem)) {struct a} : bool :=
    match a with
    | [] => true
    | (k, p) :: r =>
      match lookup k b with
      | Some q => F (p_elem p) (p_elem q) && Bool.eqb (p_required p) (p_required q)
                  && str_eqb (p_source p) (p_source q) && props_sub r b
      | None => false
      end
    end.
  Definition props_eq (a b : option (list (str * prop elem))) : bool :=
    match a, b with
    | None, None => true
    | Some x, Some y => Nat.eqb (length x) (length y) && props_sub x y
    | _, _ => false
    end.
  Fixpoint deps_sub (a : list (str * dep_t elem)) (b : list (str * dep_t elem)) {struct a} : bool :=
    match a with
    | [] => true
    | (k, d) :: r =>
      match lookup k b with
      | Some d' =>
        match d, d' with
        | DepNames x, DepNames y => list_eqb str_eqb x y
        | DepElem x, DepElem y => F x y
        | _, _ => false
        end && deps_sub r b
      | None => false
      end
    end.
  Definition deps_eq (a b : option (list (str * dep_t elem))) : bool :=
    match a, b with
    | None, None => true
    | Some x, Some y => Nat.eqb (length x) (length y) && deps_sub x y
    | _, _ => false
    end.

  Definition kwds_eq (a b : kwds elem) : bool :=
    opt_eqb js_eq (k_default a) (k_default b) &&
    opt_eqb js_eq (k_const a) (k_const b) &&
    opt_eqb (list_eqb js_eq) (k_enum a) (k_enum b) &&
    items_eq (k_items a) (k_items b) &&
    addl_eq (k_additionalItems a) (k_additionalItems b) &&
    opt_eqb js_eq (k_minItems a) (k_minItems b) &&
    opt_eqb js_eq (k_maxItems a) (k_maxItems b) &&
    Bool.eqb (k_uniqueItems a) (k_uniqueItems b) &&
    oelem_eq (k_contains a) (k_contains b) &&
    opt_eqb js_eq (k_minimum a) (k_minimum b) &&
    opt_eqb js_eq (k_maximum a) (k_maximum b) &&
    opt_eqb js_eq (k_exclusiveMinimum a) (k_exclusiveMinimum b) &&
    opt_eqb js_eq (k_exclusiveMaximum a) (k_exclusiveMaximum b) &&
    opt_eqb js_eq (k_multipleOf a) (k_multipleOf b) &&
    opt_eqb str_eqb (k_format a) (k_format b) &&
    opt_eqb str_eqb (k_pattern a) (k_pattern b) &&
    opt_eqb js_eq (k_minLength a) (k_minLength b) &&
    opt_eqb js_eq (k_maxLength a) (k_maxLength b) &&
    opt_eqb (list_eqb str_eqb) (k_required a) (k_required b) &&
    props_eq (k_properties a) (k_properties b) &&
    pats_eq (k_patternProperties a) (k_patternProperties b) &&
    addl_eq (k_additionalProperties a) (k_additionalProperties b) &&
    opt_eqb js_eq (k_minProperties a) (k_minProperties b) &&
    opt_eqb js_eq (k_maxProperties a) (k_maxProperties b) &&
    oelem_eq (k_propertyNames a) (k_propertyNames b) &&
    deps_eq (k_dependencies a) (k_dependencies b) &&
    opt_eqb str_eqb (k_description a) (k_description b).
End KwEq.

Fixpoint elem_eq (a b : elem) {struct a} : bool :=
  match a, b with
  | EK c1 k1, EK c2 k2 => ecls_eqb c1 c2 && kwds_eq elem_eq k1 k2
  | ENothing, ENothing => true
  | ENot e1 d1, ENot e2 d2 => elem_eq e1 e2 && opt_eqb js_eq d1 d2
  | EComp m1 es1 d1, EComp m2 es2 d2 =>
    mode_eqb m1 m2 && elems_eq elem_eq es1 es2 && opt_eqb js_eq d1 d2
  | EObj _ _ k1, EObj _ _ k2 => kwds_eq elem_eq k1 k2
  | _, _ => false
  end.
