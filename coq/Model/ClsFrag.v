(* ClsFrag.v — executable premises of the meaning theorem for trees WITH object classes
   (Proofs/C03Classes.v, C03Resolve.v): the fragment cdslb and the check that every class node
   reachable in the tree has its own document under its name in the definitions (which also says
   that no two different classes share a name: finding C03-K25 otherwise). *)
From Coq Require String. Import String.StringSyntax.
From Coq Require Import List Bool.
From Statham.Model Require Import Str Json Elem Sub Validate Equality Tables Parser Plain SerJson SerFrag EqFrag.
Import ListNotations.
Local Open Scope string_scope.

Definition cleano' (o : option json) : bool := match o with Some j => clean j | None => true end.

Definition cls_okb (k : kwds elem) : bool :=
  cleano' (k_const k) && (match k_enum k with Some l => clean (JArr l) | None => true end) &&
  (match k_properties k with
   | Some l => nodupb (map (fun np : str * prop elem => p_source (snd np)) l) &&
               forallb (fun np : str * prop elem => match p_source (snd np) with [] => false | _ => true end) l
   | None => true end) &&
  okeysb (k_patternProperties k) && okeysb (k_dependencies k) &&
  (* an explicitly required name is not the JSON name of a defaulted property *)
  forallb (fun r => forallb (fun np : str * prop elem =>
                               negb (str_eqb (p_source (snd np)) r) || negb (elem_has_default (p_elem (snd np))))
                            (match k_properties k with Some l => l | None => [] end))
          (match k_required k with Some l => l | None => [] end).

Definition local_cb (e : elem) : bool :=
  match e with
  | EK _ _ => local_dslb e
  | EComp _ es _ => match es with [] => false | _ => true end
  | EObj _ _ k => cls_okb k
  | _ => true
  end.

Fixpoint cdslb (fuel : nat) (e : elem) : bool :=
  match fuel with
  | O => false
  | S n => local_cb e && forallb (cdslb n) (children e)
  end.

(* every node of the tree (None when the fuel does not reach the leaves) *)
Fixpoint nodes (fuel : nat) (e : elem) : option (list elem) :=
  match fuel with
  | O => None
  | S n =>
    match (fix go (l : list elem) : option (list elem) :=
             match l with
             | [] => Some []
             | x :: r => match nodes n x, go r with Some a, Some b => Some (a ++ b) | _, _ => None end
             end) (children e) with
    | Some l => Some (e :: l)
    | None => None
    end
  end.

Definition defs_okb (dfs : list (str * json)) (fuel : nat) (e : elem) : bool :=
  match nodes fuel e with
  | Some (_ :: l) =>          (* every node BELOW the primary: the primary itself is written at the top *)
    forallb (fun c => match c with
                      | EObj n _ _ => match lookup n dfs with
                                      | Some j => json_eqb j (ser_top true true [] c)
                                      | None => false end
                      | _ => true end) l
  | _ => false
  end.

(* the definitions serialize_json writes for the classes it collected (no caller definitions) *)
Definition class_defs (classes : list elem) : list (str * json) :=
  dict_of_pairs (map (fun c => (match c with EObj n _ _ => n | _ => [] end, ser_top true true [] c)) classes).

(* the premise of C17's congruence for trees with classes: the fragment of C03_inplace_meaning, literals
   well-formed, dict-valued keywords with unique keys, no float multipleOf (finding K17) *)
Fixpoint goodcb (fuel : nat) (e : elem) : bool :=
  match fuel with
  | O => false
  | S n => local_cb e && local_wfb e && mok_localb e && forallb (goodcb n) (children e)
  end.
