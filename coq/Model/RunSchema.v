(* RunSchema.v — one executable comparison per (schema, values) case: model parser and
   evaluator, reference semantics, and the implementation's recorded observations. *)
From Coq Require String. Import String.StringSyntax.
From Statham.Model Require Import Str Json Elem Validate Names Parser Canon Spec6 RunHelpers Unsupported Plain Plain2.
From Statham.Generated Require Gen_unicode Gen_reserved Gen_constants Gen_parser_tables.
Local Open Scope string_scope.
Local Open Scope list_scope.

Record scase := mkCase {
  sc_names : list (N * str);                 (* unicodedata.name(c).lower() for the characters in play *)
  sc_re : list (str * list str);             (* pattern -> strings it matches (from `re`) *)
  sc_fm : list (str * list str);             (* registered format -> strings it accepts *)
  sc_schema : json;
  sc_parse : json;                           (* implementation: ["ok", tree] | ["SchemaParseError"] | ["NotImplemented"] | ["crash"] *)
  sc_vals : list (option json * json)        (* value (None = NotPassed), implementation outcome *)
}.

Definition cfg_of (c : scase) : pcfg :=
  mkCfg (tbl_unicode Gen_unicode.alnum_ranges (sc_names c)) Gen_reserved.reserved
        Gen_constants.unsupported_keywords Gen_parser_tables.comp_order_now.

Definition canon_parse (r : pres (elem * pstate)) : json :=
  match r with
  | POk (e, _) => JArr [JStr (s_ "ok"); canon_elem e]
  | PErr PSchemaParse => JArr [JStr (s_ "SchemaParseError")]
  | PErr PNotImpl => JArr [JStr (s_ "NotImplemented")]
  | PErr PCrash => JArr [JStr (s_ "crash")]
  end.

Definition tag_of (j : json) : str :=
  match j with JArr (JStr t :: _) => t | _ => [] end.

Definition dedup_nat (l : list nat) : list nat := nodup Nat.eq_dec l.

(* codes: 1 parse differs; 2 verdict class differs (model vs implementation);
   3 constructed result differs; 4 implementation verdict outside the Draft-6 tolerance;
   5 model verdict differs from valid6 (the statement of C01 evaluated on this case) *)
Definition run_case (c : scase) : list nat :=
  let O := tbl_oracles (sc_re c) (sc_fm c) in
  let r := parse_element (cfg_of c) (sc_schema c) [] in
  let p := canon_parse r in
  (if json_eqb p (sc_parse c) then [] else [1]) ++
  match r with
  | POk (e, _) =>
    dedup_nat (flat_map (fun ve =>
      let '(ov, expected) := ve in
      let o := build O e ov in
      let mine := canon_outcome o in
      let tm := tag_of mine in let ti := tag_of expected in
      (if str_eqb tm ti then (if json_eqb mine expected then [] else [3]) else [2]) ++
      match ov with
      | Some v =>
        let strict := v6 O WNever (sc_schema c) v in
        let always := v6 O WAlways (sc_schema c) v in
        let code := v6 O WCode (sc_schema c) v in
        (if str_eqb ti (s_ "ok") then (if strict || always || code then [] else [4])
         else if str_eqb ti (s_ "rej") then (if strict && always && code then [4] else [])
         else []) ++
        (match o with
         | Ok _ => if code then [] else [5]
         | Rej => if code then [5] else []
         | Crash _ => []
         end)
      | None => []
      end) (sc_vals c))
  | PErr _ => []
  end.

(* C01: the codes of run_case, plus 9 when the schema lies in the class-free fragment on which
   C01_validity_plain is proved (Plain.plainb, sound by C01_plain_checker) and 10 when it lies in
   the fragment with classes of C01_validity_classes_top (Plain.in_fragment, C01_fragment_checker) *)
Definition run_case_c01 (c : scase) : list nat :=
  run_case c ++ (if plainb (cfg_of c) false 200 (sc_schema c) then [9] else [])
             ++ (if in_fragment (cfg_of c) true 200 (sc_schema c) then [10] else [])
             (* 11: the fragment with revisited schema objects (C01_validity_classes_revisits): walk2 and the
                reflexivity of the classes of the final parse state *)
             ++ (if in_fragment2 (cfg_of c) 200 (sc_schema c)
                 then match parse_element (cfg_of c) (sc_schema c) [] with
                      | POk (_, st') => if refl_stateb st' then [11] else []
                      | PErr _ => [11]
                      end
                 else []).

(* diagnostic view *)
Definition show_case (c : scase) :=
  let O := tbl_oracles (sc_re c) (sc_fm c) in
  let r := parse_element (cfg_of c) (sc_schema c) [] in
  (canon_parse r,
   match r with
   | POk (e, _) => map (fun ve => (canon_outcome (build O e (fst ve)),
                                   match fst ve with
                                   | Some v => Some (v6 O WNever (sc_schema c) v, v6 O WAlways (sc_schema c) v, v6 O WCode (sc_schema c) v)
                                   | None => None end)) (sc_vals c)
   | PErr _ => []
   end).

(* C20: 1 parse observation differs (model vs implementation); 6 the implementation returned
   an element although a refused keyword occurs at an interpreted position (Unsupported.v);
   8 the implementation raised the not-implemented error although none occurs;
   7 the model itself returned an element there (would contradict C20_never_silently_ignored). *)
Definition run_case20 (c : scase) : list nat :=
  let r := parse_element (cfg_of c) (sc_schema c) [] in
  let p := canon_parse r in
  let uses := uses_unsupported Gen_constants.unsupported_keywords (sc_schema c) in
  let ti := tag_of (sc_parse c) in
  (if json_eqb p (sc_parse c) then [] else [1]) ++
  (if uses && str_eqb ti (s_ "ok") then [6] else []) ++
  (if negb uses && str_eqb ti (s_ "NotImplemented") then [8] else []) ++
  (match r with POk _ => if uses then [7] else [] | _ => [] end).
