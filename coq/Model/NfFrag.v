(* NfFrag.v — executable checker of statham's class-free normal form: the elements on which the
   syntactic round trip parse(serialize e) = e is proved (Proofs/C06Round.v proves it sound). *)
From Coq Require String. Import String.StringSyntax.
From Coq Require Import List Bool PeanoNat.
From Statham.Model Require Import Str Json Elem Equality Tables Parser Plain Sub SerFrag.
Import ListNotations.
Local Open Scope string_scope.

(* names first, then schemas: the order in which _parse_dependencies rebuilds the dict *)
Fixpoint deps_sortedb (seen_elem : bool) (l : list (str * dep_t elem)) : bool :=
  match l with
  | [] => true
  | (_, DepNames _) :: r => negb seen_elem && deps_sortedb seen_elem r
  | (_, DepElem _) :: r => deps_sortedb true r
  end.

(* every keyword the JSON serializer can write *)
Definition kw_keywords : list str :=
  map s_ ["default"; "const"; "enum"; "items"; "additionalItems"; "minItems"; "maxItems"; "uniqueItems";
          "contains"; "minimum"; "maximum"; "exclusiveMinimum"; "exclusiveMaximum"; "multipleOf"; "format";
          "pattern"; "minLength"; "maxLength"; "required"; "properties"; "patternProperties";
          "additionalProperties"; "minProperties"; "maxProperties"; "propertyNames"; "dependencies";
          "description"].
Definition ser_keywords : list str := kw_keywords ++ map s_ ["type"; "allOf"; "anyOf"; "oneOf"; "not"].

(* configuration premise: none of them is refused, and the list-valued composition keywords are
   exactly the three of Draft 6 (both decided by computation on the generated tables) *)
Definition cfg_okb (cfg : pcfg) : bool :=
  forallb (fun key => negb (mem_str key (c_unsupported cfg))) ser_keywords &&
  forallb (fun k => mem_str k (c_comp_order cfg)) (map s_ ["allOf"; "anyOf"; "oneOf"]) &&
  forallb (fun k => mem_str k (map s_ ["allOf"; "anyOf"; "oneOf"])) (c_comp_order cfg).

Definition cleano (o : option json) : bool := match o with Some j => clean j | None => true end.

Section Checker.
  Variable cfg : pcfg.

  Definition props_nfb (E : list str) (o : option (list (str * prop elem))) : bool :=
    match o with
    | None => true
    | Some l =>
      (match l with [] => false | _ => true end) && nodupb (keys l) &&
      forallb (fun np : str * prop elem =>
                 (match p_source (snd np) with [] => false | _ => true end) &&
                 str_eqb (fst np) (attr cfg (p_source (snd np))) &&
                 Bool.eqb (p_required (snd np)) (mem_str (p_source (snd np)) E)) l
    end.

  Definition local_nfb (e : elem) : bool :=
    match e with
    | EK c k =>
      cleano (k_default k) && cleano (k_const k) &&
      (match k_enum k with Some l => clean (JArr l) | None => true end) &&
      sig_okb c k && (ecls_is c CElement || is_none (k_required k)) &&
      (negb (ecls_is c CArray) || negb (is_none (k_items k))) &&
      (match k_required k with Some [] => false | _ => true end) &&
      props_nfb (match k_required k with Some l => l | None => [] end) (k_properties k) &&
      okeysb (k_patternProperties k) && okeysb (k_dependencies k) &&
      (match k_dependencies k with Some l => deps_sortedb false l | None => true end) &&
      addl_plainb (k_additionalItems k) && addl_plainb (k_additionalProperties k)
    | ENothing => true
    | ENot _ d => cleano d
    | EComp m es d =>
      cleano d && (2 <=? length es) &&
      (match m with MAll => forallb (fun e' => negb (elem_eq EElement e')) es | _ => true end)
    | EObj _ _ _ => false
    end.

  Fixpoint nfb (fuel : nat) (e : elem) : bool :=
    match fuel with
    | O => false
    | S n => local_nfb e && forallb (nfb n) (children e)
    end.
End Checker.

(* ---- schema side: the class-free schemas whose parse lies in the normal form (Proofs/C06Image.v):
   no empty property name, no empty required list, no empty properties object, additionalItems /
   additionalProperties a boolean or a schema without composition keywords ---- *)
Definition is_nil {A} (l : list A) : bool := match l with [] => true | _ => false end.
Definition addl_okSb (o : option json) : bool :=
  match o with Some (JObj kvs') => negb (has_comp kvs') | _ => true end.
Definition tidy_nodeb (kvs : list (str * json)) : bool :=
  (match lookup (s_ "required") kvs with Some j => negb (is_nil (jstr_list j)) | None => true end) &&
  (match lookup (s_ "properties") kvs with
   | Some (JObj []) => false
   | Some (JObj p) => forallb (fun kv : str * json => negb (is_nil (fst kv))) p
   | _ => true end) &&
  addl_okSb (lookup (s_ "additionalProperties") kvs) && addl_okSb (lookup (s_ "additionalItems") kvs).
Fixpoint named_tidyb (fuel : nat) (S0 : json) : bool :=
  match fuel with
  | O => false
  | S n =>
    match S0 with
    | JBool _ => true
    | JObj kvs => tidy_nodeb kvs && forallb (named_tidyb n) (subschemas kvs)
    | _ => false
    end
  end.
