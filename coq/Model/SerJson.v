(* SerJson.v — statham/serializers/json.py: _serialize_element / _serialize_recursive /
   _from_definitions / serialize_json.  `fixed` selects the code as repaired (properties keyed by
   JSON name, explicit required merged) or as it was (keyed by Python name, required overwritten);
   the generated table Gen_serializer says which one the working tree has. *)
From Coq Require String. Import String.StringSyntax.
From Statham.Model Require Import Str Json Elem Equality Canon.
Local Open Scope string_scope.
Local Open Scope list_scope.

Definition ref_to (name : str) : json := JObj [(s_ "$ref", JStr (s_ "#/definitions/" ++ name))].

Definition json_type (c : ecls) : list (str * json) :=
  match c with
  | CElement => []
  | CString => [(s_ "type", JStr (s_ "string"))]
  | CInteger => [(s_ "type", JStr (s_ "integer"))]
  | CNumber => [(s_ "type", JStr (s_ "number"))]
  | CBoolean => [(s_ "type", JStr (s_ "boolean"))]
  | CNull => [(s_ "type", JStr (s_ "null"))]
  | CArray => [(s_ "type", JStr (s_ "array"))]
  end.

Section SerK.
  Variable keyed_by_source : bool.       (* properties emitted under the JSON name *)
  Variable merge_required : bool.        (* explicit required kept and merged *)
  Variable F : elem -> json.             (* a sub-element: $ref for classes / definitions, else inline *)

  Definition sj (name : String.string) (o : option json) : list (str * json) :=
    match o with Some j => [(s_ name, j)] | None => [] end.
  Definition ss (name : String.string) (o : option str) : list (str * json) :=
    match o with Some x => [(s_ name, JStr x)] | None => [] end.
  Definition se (name : String.string) (o : option elem) : list (str * json) :=
    match o with Some e => [(s_ name, F e)] | None => [] end.
  Definition s_addl (name : String.string) (a : addl elem) : list (str * json) :=
    match a with
    | AddBool true => []
    | AddBool false => [(s_ name, JBool false)]
    | AddElem e => [(s_ name, F e)]
    end.
  Fixpoint s_elems (l : list elem) : list json :=
    match l with [] => [] | e :: r => F e :: s_elems r end.
  Fixpoint s_props (l : list (str * prop elem)) : list (str * json) :=
    match l with
    | [] => []
    | (n, p) :: r => ((if keyed_by_source then (match p_source p with [] => n | s => s end) else n), F (p_elem p)) :: s_props r
    end.
  Fixpoint s_pats (l : list (str * elem)) : list (str * json) :=
    match l with [] => [] | (n, e) :: r => (n, F e) :: s_pats r end.
  Fixpoint s_deps (l : list (str * dep_t elem)) : list (str * json) :=
    match l with
    | [] => []
    | (n, DepNames ns) :: r => (n, JArr (map JStr ns)) :: s_deps r
    | (n, DepElem e) :: r => (n, F e) :: s_deps r
    end.

  (* [prop.source or name for name, prop in properties.items() if prop.required] *)
  Definition required_of_props (l : list (str * prop elem)) : list str :=
    map (fun np => match p_source (snd np) with [] => fst np | s => s end)
        (filter (fun np => p_required (snd np)) l).

  Definition merged_required (k : kwds elem) : option (list str) :=
    let props := match k_properties k with Some l => l | None => [] end in
    let explicit := match k_required k with Some l => l | None => [] end in
    let from_props := required_of_props props in
    let r :=
      match props with
      | [] => explicit                                     (* empty properties are dropped first *)
      | _ => if merge_required
             then explicit ++ filter (fun n => negb (mem_str n explicit)) from_props
             else from_props
      end in
    match r with [] => None | _ => Some r end.

  Definition ser_kwds (k : kwds elem) : list (str * json) :=
    sj "default" (k_default k) ++ sj "const" (k_const k) ++
    (match k_enum k with Some l => [(s_ "enum", JArr l)] | None => [] end) ++
    (match k_items k with
     | Some (ItOne e) => [(s_ "items", F e)]
     | Some (ItMany l) => [(s_ "items", JArr (s_elems l))]
     | None => [] end) ++
    s_addl "additionalItems" (k_additionalItems k) ++
    sj "minItems" (k_minItems k) ++ sj "maxItems" (k_maxItems k) ++
    (if k_uniqueItems k then [(s_ "uniqueItems", JBool true)] else []) ++
    se "contains" (k_contains k) ++
    sj "minimum" (k_minimum k) ++ sj "maximum" (k_maximum k) ++
    sj "exclusiveMinimum" (k_exclusiveMinimum k) ++ sj "exclusiveMaximum" (k_exclusiveMaximum k) ++
    sj "multipleOf" (k_multipleOf k) ++ ss "format" (k_format k) ++ ss "pattern" (k_pattern k) ++
    sj "minLength" (k_minLength k) ++ sj "maxLength" (k_maxLength k) ++
    (match merged_required k with Some l => [(s_ "required", JArr (map JStr l))] | None => [] end) ++
    (match k_properties k with Some (p0 :: rest) => [(s_ "properties", JObj (s_props (p0 :: rest)))] | _ => [] end) ++
    (match k_patternProperties k with Some l => [(s_ "patternProperties", JObj (s_pats l))] | None => [] end) ++
    s_addl "additionalProperties" (k_additionalProperties k) ++
    sj "minProperties" (k_minProperties k) ++ sj "maxProperties" (k_maxProperties k) ++
    se "propertyNames" (k_propertyNames k) ++
    (match k_dependencies k with Some l => [(s_ "dependencies", JObj (s_deps l))] | None => [] end) ++
    ss "description" (k_description k).
End SerK.

Definition mode_key (m : mode) : str :=
  s_ match m with MAny => "anyOf" | MOne => "oneOf" | MAll => "allOf" end.

Section Ser.
  Variable keyed_by_source : bool.
  Variable merge_required : bool.
  Variable defs : list (str * elem).      (* caller-supplied definitions *)

  (* _from_definitions: the first definition equal to the element *)
  Definition from_definitions (e : elem) (inline : json) : json :=
    match find (fun kd => elem_eq (snd kd) e) defs with
    | Some (key, _) => ref_to key
    | None => inline
    end.

  (* _serialize_element on an element that is NOT replaced by a reference (the top of a call) *)
  Fixpoint ser_top (e : elem) {struct e} : json :=
    let sub (x : elem) : json :=
      match x with
      | EObj n _ _ => ref_to n                         (* object_refs=True *)
      | _ => from_definitions x (ser_top x)
      end in
    match e with
    | ENothing => JBool false
    | EK c k => JObj (ser_kwds keyed_by_source merge_required sub k ++ json_type c)
    | ENot x d => JObj ((match d with Some j => [(s_ "default", j)] | None => [] end) ++ [(s_ "not", sub x)])
    | EComp m es d =>
      JObj ((match d with Some j => [(s_ "default", j)] | None => [] end) ++ [(mode_key m, JArr (s_elems sub es))])
    | EObj n _ k =>
      JObj (ser_kwds keyed_by_source merge_required sub k ++ [(s_ "type", JStr (s_ "object")); (s_ "title", JStr n)])
    end.
End Ser.
