(* Canon.v — canonical JSON rendering of element trees (Appendix B of DESIGN.md),
   mirrored by harness/canon.py on the implementation side. *)
From Coq Require String. Import String.StringSyntax.
From Statham.Model Require Import Str Json Elem.
Local Open Scope string_scope.
Local Open Scope list_scope.

Definition lit (j : json) : json := JArr [JStr (s_ "lit"); j].

Definition cls_name (c : ecls) : str :=
  s_ match c with
     | CElement => "Element" | CString => "String" | CInteger => "Integer" | CNumber => "Number"
     | CBoolean => "Boolean" | CNull => "Null" | CArray => "Array"
     end.
Definition mode_name (m : mode) : str :=
  s_ match m with MAny => "AnyOf" | MOne => "OneOf" | MAll => "AllOf" end.

Section CanonK.
  Variable F : elem -> json.

  Definition oj (name : String.string) (o : option json) : list (str * json) :=
    match o with Some j => [(s_ name, lit j)] | None => [] end.
  Definition os (name : String.string) (o : option str) : list (str * json) :=
    match o with Some x => [(s_ name, JStr x)] | None => [] end.
  Definition oe (name : String.string) (o : option elem) : list (str * json) :=
    match o with Some e => [(s_ name, F e)] | None => [] end.
  Definition c_addl (name : String.string) (a : addl elem) : list (str * json) :=
    match a with
    | AddBool true => []
    | AddBool false => [(s_ name, JBool false)]
    | AddElem e => [(s_ name, F e)]
    end.
  Fixpoint c_elems (l : list elem) : list json :=
    match l with [] => [] | e :: r => F e :: c_elems r end.
  Fixpoint c_props (l : list (str * prop elem)) : list json :=
    match l with
    | [] => []
    | (n, p) :: r => JArr [JStr n; JStr (p_source p); JBool (p_required p); F (p_elem p)] :: c_props r
    end.
  Fixpoint c_pats (l : list (str * elem)) : list json :=
    match l with [] => [] | (n, e) :: r => JArr [JStr n; F e] :: c_pats r end.
  Fixpoint c_deps (l : list (str * dep_t elem)) : list json :=
    match l with
    | [] => []
    | (n, DepNames ns) :: r => JArr [JStr n; JArr (map JStr ns)] :: c_deps r
    | (n, DepElem e) :: r => JArr [JStr n; F e] :: c_deps r
    end.

  Definition canon_kwds (k : kwds elem) : json :=
    JObj (
      oj "default" (k_default k) ++ oj "const" (k_const k) ++
      (match k_enum k with Some l => [(s_ "enum", JArr (map lit l))] | None => [] end) ++
      (match k_items k with
       | Some (ItOne e) => [(s_ "items", F e)]
       | Some (ItMany l) => [(s_ "items", JArr (JStr (s_ "tuple") :: c_elems l))]
       | None => [] end) ++
      c_addl "additionalItems" (k_additionalItems k) ++
      oj "minItems" (k_minItems k) ++ oj "maxItems" (k_maxItems k) ++
      (if k_uniqueItems k then [(s_ "uniqueItems", JBool true)] else []) ++
      oe "contains" (k_contains k) ++
      oj "minimum" (k_minimum k) ++ oj "maximum" (k_maximum k) ++
      oj "exclusiveMinimum" (k_exclusiveMinimum k) ++ oj "exclusiveMaximum" (k_exclusiveMaximum k) ++
      oj "multipleOf" (k_multipleOf k) ++ os "format" (k_format k) ++ os "pattern" (k_pattern k) ++
      oj "minLength" (k_minLength k) ++ oj "maxLength" (k_maxLength k) ++
      (match k_required k with Some l => [(s_ "required", JArr (map JStr l))] | None => [] end) ++
      (match k_properties k with Some l => [(s_ "properties", JArr (c_props l))] | None => [] end) ++
      (match k_patternProperties k with Some l => [(s_ "patternProperties", JArr (c_pats l))] | None => [] end) ++
      c_addl "additionalProperties" (k_additionalProperties k) ++
      oj "minProperties" (k_minProperties k) ++ oj "maxProperties" (k_maxProperties k) ++
      oe "propertyNames" (k_propertyNames k) ++
      (match k_dependencies k with Some l => [(s_ "dependencies", JArr (c_deps l))] | None => [] end) ++
      os "description" (k_description k)).
End CanonK.

Fixpoint canon_elem (e : elem) : json :=
  match e with
  | EK c k => JArr [JStr (s_ "K"); JStr (cls_name c); canon_kwds canon_elem k]
  | ENothing => JArr [JStr (s_ "Nothing")]
  | ENot x d => JArr (JStr (s_ "Not") :: canon_elem x :: match d with Some j => [lit j] | None => [] end)
  | EComp m es d =>
    JArr (JStr (mode_name m) :: JArr (c_elems canon_elem es) :: match d with Some j => [lit j] | None => [] end)
  | EObj n b k => JArr [JStr (s_ "Obj"); JStr n; JArr (map JStr b); canon_kwds canon_elem k]
  end.
