(* Resolve.v — reading a document with local references.  `inl defs fuel j` replaces, at schema
   positions only, every {"$ref": "#/definitions/N"} by the (recursively resolved) definition N;
   None when a reference dangles or the fuel runs out (a reference cycle).  `resolve_doc` applies it
   to a whole document with its own root "definitions".  `ser_inl` is the serializer with object
   classes written in place instead of referenced: what the emitted document should resolve to. *)
From Coq Require String. Import String.StringSyntax.
From Coq Require Import List.
From Statham.Model Require Import Str Json Elem Equality SerJson.
Import ListNotations.
Local Open Scope string_scope.
Local Open Scope list_scope.

Fixpoint strip_prefix (p s : str) : option str :=
  match p with
  | [] => Some s
  | a :: p' => match s with
               | b :: s' => if N.eqb a b then strip_prefix p' s' else None
               | [] => None
               end
  end.

Definition ref_target (j : json) : option str :=
  match j with
  | JObj [(k, JStr s)] => if str_eqb k (s_ "$ref") then strip_prefix (s_ "#/definitions/") s else None
  | _ => None
  end.

(* keywords whose value is a schema / a list of schemas / a dict of schemas *)
Definition kw_schema : list str := map s_ ["additionalItems"; "contains"; "additionalProperties"; "propertyNames"; "not"].
Definition kw_schema_list : list str := map s_ ["allOf"; "anyOf"; "oneOf"].
Definition kw_schema_dict : list str := map s_ ["properties"; "patternProperties"].

Section Maps.
  Variable go : json -> option json.
  Fixpoint omap_list (l : list json) : option (list json) :=
    match l with
    | [] => Some []
    | x :: r => match go x, omap_list r with Some a, Some b => Some (a :: b) | _, _ => None end
    end.
  Fixpoint omap_vals (only_schemas : bool) (kvs : list (str * json)) : option (list (str * json)) :=
    match kvs with
    | [] => Some []
    | (k, v) :: r =>
      match (if only_schemas then (match v with JObj _ | JBool _ => go v | _ => Some v end) else go v),
            omap_vals only_schemas r with
      | Some a, Some b => Some ((k, a) :: b)
      | _, _ => None
      end
    end.
  Definition at_key (k : str) (v : json) : option json :=
    if mem_str k kw_schema then go v
    else if str_eqb k (s_ "items") then
      match v with JArr l => option_map JArr (omap_list l) | _ => go v end
    else if mem_str k kw_schema_list then
      match v with JArr l => option_map JArr (omap_list l) | _ => Some v end
    else if mem_str k kw_schema_dict then
      match v with JObj kvs => option_map JObj (omap_vals false kvs) | _ => Some v end
    else if str_eqb k (s_ "dependencies") then
      match v with JObj kvs => option_map JObj (omap_vals true kvs) | _ => Some v end
    else Some v.
  Fixpoint omap_kvs (kvs : list (str * json)) : option (list (str * json)) :=
    match kvs with
    | [] => Some []
    | (k, v) :: r => match at_key k v, omap_kvs r with Some a, Some b => Some ((k, a) :: b) | _, _ => None end
    end.
End Maps.

Fixpoint inl (defs : list (str * json)) (fuel : nat) (j : json) {struct fuel} : option json :=
  match fuel with
  | O => None
  | S n =>
    match ref_target j with
    | Some name => match lookup name defs with Some d => inl defs n d | None => None end
    | None =>
      match j with
      | JObj kvs => option_map JObj (omap_kvs (inl defs n) kvs)
      | _ => Some j
      end
    end
  end.

(* a whole document: its root "definitions" are the reference targets and are dropped from the result *)
Definition resolve_doc (fuel : nat) (doc : json) : option json :=
  match doc with
  | JObj kvs =>
    let defs := match lookup (s_ "definitions") kvs with Some (JObj d) => d | _ => [] end in
    inl defs fuel (JObj (remove_key (s_ "definitions") kvs))
  | _ => Some doc
  end.

(* serialization with the object classes in place *)
Fixpoint ser_inl (e : elem) {struct e} : json :=
  match e with
  | ENothing => JBool false
  | EK c k => JObj (ser_kwds true true ser_inl k ++ json_type c)
  | ENot x d => JObj ((match d with Some j => [(s_ "default", j)] | None => [] end) ++ [(s_ "not", ser_inl x)])
  | EComp m es d =>
    JObj ((match d with Some j => [(s_ "default", j)] | None => [] end) ++ [(mode_key m, JArr (s_elems ser_inl es))])
  | EObj n _ k =>
    JObj (ser_kwds true true ser_inl k ++ [(s_ "type", JStr (s_ "object")); (s_ "title", JStr n)])
  end.
