(* RunStore.v — _Property.bind of the model vs the implementation on bind histories. *)
From Statham.Model Require Import Str Store.

Definition ostr_eqb (a b : option str) : bool :=
  match a, b with None, None => true | Some x, Some y => str_eqb x y | _, _ => false end.
Definition onat_eqb (a b : option nat) : bool :=
  match a, b with None, None => true | Some x, Some y => Nat.eqb x y | _, _ => false end.
Definition cell_eqb (a b : cell) : bool :=
  ostr_eqb (c_name a) (c_name b) && ostr_eqb (c_source a) (c_source b) && onat_eqb (c_parent a) (c_parent b).

(* initial cell, binds, the implementation's cell after each bind *)
Definition run_bind_case (c : cell * list (option str * option nat * cell)) : list nat :=
  (fix go (cur : cell) (i : nat) (l : list (option str * option nat * cell)) : list nat :=
     match l with
     | [] => []
     | (n, p, expected) :: r =>
       let nxt := bind cur n p in
       (if cell_eqb nxt expected then [] else [i]) ++ go nxt (S i) r
     end) (fst c) O (snd c).

(* a dumped tree: every shared property cell with its home; code 1 = not well-bound,
   2 = the binds of a call would change it *)
Definition wb_cellb (key : str) (owner : nat) (c : cell) : bool :=
  onat_eqb (c_parent c) (Some owner) &&
  match key with [] => true | _ => ostr_eqb (c_name c) (Some key) && negb (falsy_str (c_source c)) end.
Definition run_wb_case (cells : list (str * nat * cell)) : list nat :=
  flat_map (fun kc => match kc with (key, owner, c) =>
     (if wb_cellb key owner c then [] else [1%nat]) ++
     (if cell_eqb (bind c (Some key) (Some owner)) c then [] else [2%nat]) end) cells.
