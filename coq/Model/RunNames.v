(* RunNames.v — _parse_attribute_name / _title_format of the model vs the implementation. *)
From Statham.Model Require Import Str Names RunHelpers.
From Statham.Generated Require Gen_unicode Gen_reserved.

(* names table for the characters in play, input, implementation's attribute name and class name *)
Definition run_names_case (c : list (N * str) * str * str * str) : list nat :=
  match c with (names, input, iattr, ititle) =>
    let U := tbl_unicode Gen_unicode.alnum_ranges names in
    (if str_eqb (attr_name U Gen_reserved.reserved input) iattr then [] else [1%nat]) ++
    (if str_eqb (title_format input) ititle then [] else [2%nat])
  end.
