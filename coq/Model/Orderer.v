(* Orderer.v — model of statham/serializers/orderer.py over identity graphs.
   A node is one Python object (identity = index in the graph list).  Its
   children are grouped under the path string of orderer.get_children's
   `paths` list that reaches them, in the order _get_path returns them. *)
From Statham.Model Require Import Str.

Record node := { n_class : option str;              (* Some name: an ObjectMeta class *)
                 n_kids : list (str * list nat) }.   (* path string -> child node ids *)
Definition graph := list node.

Definition default_node : node := {| n_class := None; n_kids := [] |}.
Definition get_node (G : graph) (n : nat) : node := nth n G default_node.

Definition memn (n : nat) (l : list nat) : bool := existsb (Nat.eqb n) l.

Section WithPaths.
  Variable paths : list str.          (* Gen_orderer_paths.paths / Tables.orderer_paths *)

  (* children = [child for path in paths for child in _get_path(element, path)
                 if isinstance(child, Element)] *)
  Definition kids (G : graph) (n : nat) : list nat :=
    flat_map (fun p => match lookup p (n_kids (get_node G n)) with
                       | Some l => l | None => [] end) paths.

  (* get_children(element, seen): yields, and the shared `seen` set afterwards.
     fuel bounds the recursion depth; None = out of fuel. *)
  Fixpoint dfs (G : graph) (fuel : nat) (n : nat) (seen : list nat)
    : option (list nat * list nat) :=
    match fuel with
    | O => None
    | S f =>
      if memn n seen then Some ([n], seen)
      else
        (fix each (cs : list nat) (ys : list nat) (sn : list nat) {struct cs}
           : option (list nat * list nat) :=
           match cs with
           | [] => Some (ys, sn)
           | c :: r =>
             match dfs G f c sn with
             | None => None
             | Some (ys', sn') => each r (ys ++ c :: ys') sn'
             end
           end) (kids G n) [] (n :: seen)
    end.

  Definition get_children (G : graph) (n : nat) : option (list nat) :=
    match dfs G (S (length G)) n [] with
    | Some (ys, _) => Some ys
    | None => None
    end.

  Definition is_class (G : graph) (n : nat) : bool :=
    match n_class (get_node G n) with Some _ => true | None => false end.
  Definition class_name (G : graph) (n : nat) : str :=
    match n_class (get_node G n) with Some s => s | None => [] end.

  Fixpoint all_children (G : graph) (roots : list nat) : option (list nat) :=
    match roots with
    | [] => Some []
    | r :: rs =>
      match get_children G r, all_children G rs with
      | Some a, Some b => Some (a ++ b)
      | _, _ => None
      end
    end.

  Definition get_object_classes (G : graph) (roots : list nat) : option (list nat) :=
    match all_children G roots with
    | Some cs => Some (filter (is_class G) (roots ++ cs))
    | None => None
    end.

  (* object_dependencies: name -> names of object classes among get_children *)
  Fixpoint dep_pairs (G : graph) (ocs : list nat) : option (list (str * list str)) :=
    match ocs with
    | [] => Some []
    | c :: r =>
      match get_children G c, dep_pairs G r with
      | Some ys, Some ps =>
        Some ((class_name G c, map (class_name G) (filter (is_class G) ys)) :: ps)
      | _, _ => None
      end
    end.
End WithPaths.

(* ---- the emission loop (independent of the graph) ---- *)
Inductive oresult (A : Type) :=
| OOk (l : list A)
| OSchemaParseError
| OAssertionError
| OOutOfFuel.
Arguments OOk {A}. Arguments OSchemaParseError {A}.
Arguments OAssertionError {A}. Arguments OOutOfFuel {A}.

Definition deps_t := list (str * list str).

Definition neq_str (a b : str) : bool := negb (str_eqb a b).

Fixpoint first_free (d : deps_t) : option str :=
  match d with
  | [] => None
  | (k, []) :: _ => Some k
  | _ :: r => first_free r
  end.

(* pop_name: drop `name` from every list, then delete the key *)
Definition pop_name (name : str) (d : deps_t) : deps_t :=
  remove_key name (map (fun kv => (fst kv, filter (neq_str name) (snd kv))) d).

Fixpoint emit (fuel : nat) (d : deps_t) (acc : list str) : oresult str :=
  match fuel with
  | O => match d with [] => OOk (rev acc) | _ => OOutOfFuel end
  | S f =>
    match first_free d with
    | Some k => emit f (pop_name k d) (k :: acc)
    | None => match d with [] => OOk (rev acc) | _ => OAssertionError end
    end
  end.

Definition has_cycle (d : deps_t) : bool :=
  existsb (fun kv => mem_str (fst kv) (snd kv)) d.

Definition order_names (d : deps_t) : oresult str :=
  if has_cycle d then OSchemaParseError else emit (length d) d [].

Section Top.
  Variable paths : list str.
  (* from_name: first class in object_classes with that name *)
  Fixpoint from_name (G : graph) (ocs : list nat) (name : str) : option nat :=
    match ocs with
    | [] => None
    | c :: r => if str_eqb (class_name G c) name then Some c else from_name G r name
    end.

  Definition orderer (G : graph) (roots : list nat) : oresult str :=
    match get_object_classes paths G roots with
    | None => OOutOfFuel
    | Some ocs =>
      match dep_pairs paths G ocs with
      | None => OOutOfFuel
      | Some ps => order_names (dict_of_pairs ps)
      end
    end.
End Top.

(* ---- well-formedness of an identity graph, as a checker (premise of Proofs/OrdererWalk.v) ---- *)
Definition boundedb (G : graph) (l : list nat) : bool := forallb (fun c => Nat.ltb c (length G)) l.
Definition wf_graphb (paths : list str) (G : graph) : bool :=
  forallb (fun n => boundedb G (kids paths G n)) (seq 0 (length G)).
(* unique class names among the enumerated object classes (premise of C11_end_to_end) *)
Definition uniq_namesb (G : graph) (ocs : list nat) : bool :=
  forallb (fun a => forallb (fun b => implb (str_eqb (class_name G a) (class_name G b)) (Nat.eqb a b)) ocs) ocs.
