(* RunRepr.v — compare the shape of repr(e) (positional count, keyword names) with the model. *)
From Statham.Model Require Import Str Json Elem Tables Repr.
From Statham.Generated Require Gen_signatures.

Definition gen_sigs (c : ecls) : list sigrow :=
  match c with
  | CElement => Gen_signatures.sig_Element | CString => Gen_signatures.sig_String
  | CInteger => Gen_signatures.sig_Integer | CNumber => Gen_signatures.sig_Number
  | CBoolean => Gen_signatures.sig_Boolean | CNull => Gen_signatures.sig_Null
  | CArray => Gen_signatures.sig_Array
  end.

Fixpoint strs_eq (a b : list str) : bool :=
  match a, b with
  | [], [] => true
  | x :: r, y :: s => str_eqb x y && strs_eq r s
  | _, _ => false
  end.

(* case: element, observed positional count, observed keyword names (in printed order) *)
Definition run_repr_case (c : elem * nat * list str) : list nat :=
  match c with (e, npos, kws) =>
    let '(mp, mk) := repr_shape gen_sigs e in
    (if Nat.eqb mp npos then [] else [1%nat]) ++ (if strs_eq mk kws then [] else [2%nat])
  end.
