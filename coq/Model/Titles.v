(* Titles.v — statham/titles.py: _get_title_from_reference, the name json_ref_dict.materialize is told
   to annotate every schema with ("_x_autotitle").  A reference is modelled as the file name of its
   base URI and the list of its JSON-pointer segments (json_ref_dict's URI.from_string / back() split
   and re-join the pointer on "/"; all segments non-empty).  `isdigit` is Python's str.isdigit,
   supplied as an oracle (it is Unicode-aware). *)
From Coq Require String. Import String.StringSyntax.
From Coq Require Import List NArith.
From Statham.Model Require Import Str Tables.
Import ListNotations.
Local Open Scope string_scope.
Local Open Scope list_scope.

(* uri_name.split(".")[0] *)
Fixpoint before_dot (s : str) : str :=
  match s with
  | [] => []
  | c :: r => if N.eqb c 46 then [] else c :: before_dot r
  end.

Section Titles.
  Variable isdigit : str -> bool.

  (* the pointer's segments, LAST FIRST (uri.back() drops the head of this list) *)
  Fixpoint title_rev (stem : str) (rsegs : list str) : str :=
    match rsegs with
    | [] => stem
    | t :: back =>
      if str_eqb t (s_ "items") then title_rev stem back ++ s_ "Item"
      else if isdigit t then title_rev stem back ++ t
      else if mem_str t composition_keywords then title_rev stem back
      else t
    end.

  Definition title_from_reference (uri_name : str) (segs : list str) : str :=
    title_rev (before_dot uri_name) (rev segs).

  (* a segment the function looks through *)
  Definition transparent (t : str) : bool :=
    str_eqb t (s_ "items") || isdigit t || mem_str t composition_keywords.
  (* what a looked-through segment appends *)
  Definition suffix_of (t : str) : str :=
    if str_eqb t (s_ "items") then s_ "Item" else if isdigit t then t else [].
End Titles.

(* correspondence runner: (uri_name, segments, digit table, title the implementation returned) *)
Definition run_title_case (c : str * list str * list str * str) : list nat :=
  let '(name, segs, digits, got) := c in
  if str_eqb (title_from_reference (fun t => mem_str t digits) name segs) got then [] else [1%nat].
