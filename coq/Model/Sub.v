(* Sub.v — the direct sub-elements of an element, in the order of the keyword record. *)
From Statham.Model Require Import Str Json Elem.

Definition sub_items (o : option (items_t elem)) : list elem :=
  match o with Some (ItOne e) => [e] | Some (ItMany l) => l | None => [] end.
Definition sub_addl (a : addl elem) : list elem := match a with AddElem e => [e] | AddBool _ => [] end.
Definition sub_opt (o : option elem) : list elem := match o with Some e => [e] | None => [] end.
Definition sub_props (o : option (list (str * prop elem))) : list elem :=
  match o with Some l => map (fun np => p_elem (snd np)) l | None => [] end.
Definition sub_pats (o : option (list (str * elem))) : list elem :=
  match o with Some l => map snd l | None => [] end.
Definition dep_elems (d : dep_t elem) : list elem := match d with DepElem e => [e] | DepNames _ => [] end.
Definition sub_deps (o : option (list (str * dep_t elem))) : list elem :=
  match o with Some l => flat_map (fun kd => dep_elems (snd kd)) l | None => [] end.

Definition ksub (k : kwds elem) : list elem :=
  sub_items (k_items k) ++ sub_addl (k_additionalItems k) ++ sub_opt (k_contains k) ++
  sub_props (k_properties k) ++ sub_pats (k_patternProperties k) ++ sub_addl (k_additionalProperties k) ++
  sub_opt (k_propertyNames k) ++ sub_deps (k_dependencies k).

Definition children (e : elem) : list elem :=
  match e with
  | EK _ k => ksub k
  | ENothing => []
  | ENot x _ => [x]
  | EComp _ es _ => es
  | EObj _ _ k => ksub k
  end.
