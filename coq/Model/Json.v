(* Json.v — JSON values as Python sees them; Python ==, Draft-6 equality. *)
From Coq Require Import Floats.SpecFloat.
From Statham.Model Require Import Str.

Definition prec := 53%Z.
Definition emax := 1024%Z.

Inductive json :=
| JNull
| JBool (b : bool)
| JInt (z : Z)
| JFlt (f : spec_float)      (* finite binary64 only, canonical *)
| JStr (s : str)
| JArr (l : list json)
| JObj (kvs : list (str * json)).

(* ---- exact numeric value of finite floats: m * 2^e ---- *)
Record dyadic := { dm : Z; de : Z }.

Definition dy_of_float (f : spec_float) : option dyadic :=
  match f with
  | S754_zero _ => Some {| dm := 0; de := 0 |}
  | S754_finite sg m e => Some {| dm := if sg then Zneg m else Zpos m; de := e |}
  | _ => None
  end.
Definition dy_of_Z (z : Z) : dyadic := {| dm := z; de := 0 |}.

Definition dy_cmp (a b : dyadic) : comparison :=
  let e := Z.min (de a) (de b) in
  Z.compare (dm a * 2 ^ (de a - e)) (dm b * 2 ^ (de b - e)).

Definition dy_is_int (a : dyadic) : bool :=
  if (0 <=? de a)%Z then true
  else Z.eqb (Z.modulo (dm a) (2 ^ (- de a))) 0.

(* numeric view of a json value *)
Inductive num := NZ (z : Z) | NF (f : spec_float).
Definition dy_of_num (n : num) : option dyadic :=
  match n with NZ z => Some (dy_of_Z z) | NF f => dy_of_float f end.

(* Python's exact comparison of int/float (finite floats) *)
Definition num_cmp (a b : num) : option comparison :=
  match dy_of_num a, dy_of_num b with
  | Some x, Some y => Some (dy_cmp x y)
  | _, _ => None
  end.
Definition num_eqb (a b : num) : bool :=
  match num_cmp a b with Some Eq => true | _ => false end.

(* the Python numeric value of a JSON value, bool counted as int *)
Definition py_num (j : json) : option num :=
  match j with
  | JBool b => Some (NZ (if b then 1 else 0))
  | JInt z => Some (NZ z)
  | JFlt f => Some (NF f)
  | _ => None
  end.
(* the Draft-6 numeric value: booleans are not numbers *)
Definition js_num (j : json) : option num :=
  match j with
  | JInt z => Some (NZ z)
  | JFlt f => Some (NF f)
  | _ => None
  end.

(* ---- equalities ---- *)
Section Eq.
  (* alias = true : Python ==  (True == 1 == 1.0);
     alias = false: Draft-6 equality (booleans only equal booleans). *)
  Variable alias : bool.

  Fixpoint jeq (a b : json) {struct a} : bool :=
    let fix list_eq (l1 l2 : list json) {struct l1} : bool :=
      match l1, l2 with
      | [], [] => true
      | x :: r1, y :: r2 => jeq x y && list_eq r1 r2
      | _, _ => false
      end in
    let fix sub_dict (kvs : list (str * json)) (other : list (str * json)) {struct kvs} : bool :=
      match kvs with
      | [] => true
      | (k, v) :: r =>
        match lookup k other with
        | Some w => jeq v w && sub_dict r other
        | None => false
        end
      end in
    match a, b with
    | JNull, JNull => true
    | JStr x, JStr y => str_eqb x y
    | JArr l1, JArr l2 => list_eq l1 l2
    | JObj k1, JObj k2 => Nat.eqb (length k1) (length k2) && sub_dict k1 k2
    | JBool x, JBool y => Bool.eqb x y
    | JBool _, (JInt _ | JFlt _) | (JInt _ | JFlt _), JBool _ =>
      if alias then
        match py_num a, py_num b with
        | Some x, Some y => num_eqb x y
        | _, _ => false
        end
      else false
    | (JInt _ | JFlt _), (JInt _ | JFlt _) =>
      match py_num a, py_num b with
      | Some x, Some y => num_eqb x y
      | _, _ => false
      end
    | _, _ => false
    end.
End Eq.

Definition py_eq := jeq true.
Definition js_eq := jeq false.

(* replace_bool at top level only (current code): bools become sentinels that
   equal only themselves; nested values compare with Python ==. *)
Definition top_alias_eq (a b : json) : bool :=
  match a, b with
  | JBool x, JBool y => Bool.eqb x y
  | JBool _, _ | _, JBool _ => false
  | _, _ => py_eq a b
  end.

(* strict structural equality, ordered dicts, used to compare canonical forms *)
Definition sf_eqb (a b : spec_float) : bool :=
  match a, b with
  | S754_zero x, S754_zero y => Bool.eqb x y
  | S754_infinity x, S754_infinity y => Bool.eqb x y
  | S754_nan, S754_nan => true
  | S754_finite s1 m1 e1, S754_finite s2 m2 e2 =>
    Bool.eqb s1 s2 && Pos.eqb m1 m2 && Z.eqb e1 e2
  | _, _ => false
  end.

Fixpoint json_eqb (a b : json) {struct a} : bool :=
  let fix list_eq (l1 l2 : list json) {struct l1} : bool :=
    match l1, l2 with
    | [], [] => true
    | x :: r1, y :: r2 => json_eqb x y && list_eq r1 r2
    | _, _ => false
    end in
  let fix kvs_eq (l1 l2 : list (str * json)) {struct l1} : bool :=
    match l1, l2 with
    | [], [] => true
    | (k1, x) :: r1, (k2, y) :: r2 => str_eqb k1 k2 && json_eqb x y && kvs_eq r1 r2
    | _, _ => false
    end in
  match a, b with
  | JNull, JNull => true
  | JBool x, JBool y => Bool.eqb x y
  | JInt x, JInt y => Z.eqb x y
  | JFlt x, JFlt y => sf_eqb x y
  | JStr x, JStr y => str_eqb x y
  | JArr x, JArr y => list_eq x y
  | JObj x, JObj y => kvs_eq x y
  | _, _ => false
  end.

Definition is_true (j : json) : bool := match j with JBool true => true | _ => false end.

(* Python truthiness of a JSON value *)
Definition py_truthy (j : json) : bool :=
  match j with
  | JNull => false
  | JBool b => b
  | JInt z => negb (Z.eqb z 0)
  | JFlt f => match f with S754_zero _ => false | _ => true end
  | JStr s => match s with [] => false | _ => true end
  | JArr l => match l with [] => false | _ => true end
  | JObj l => match l with [] => false | _ => true end
  end.
