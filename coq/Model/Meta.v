(* Meta.v — ObjectMeta.__new__: how a model class gets its keywords and properties from the
   keywords passed in the class statement, the properties declared in its body, and its parent. *)
From Statham.Model Require Import Str Json Elem.

(* `passed` uses None for a keyword that was not passed (NotPassed); additionalProperties has
   its own flag because its "not passed" falls back to the parent and then to True. *)
Definition meta_new (parent : option (kwds elem)) (passed : kwds elem) (addl_passed : bool)
                    (own_props : list (str * prop elem)) : kwds elem :=
  let inh {A} (f : kwds elem -> option A) : option A :=
    match f passed with
    | Some x => Some x
    | None => match parent with Some p => f p | None => None end
    end in
  let parent_props := match parent with
                      | Some p => match k_properties p with Some l => l | None => [] end
                      | None => [] end in
  mkK (inh k_default) (inh k_const) (inh k_enum)
      None (AddBool true) None None false None None None None None None None None None None
      (inh k_required)
      (Some (dict_merge parent_props own_props))          (* clones of the parent's, then the body's *)
      (inh k_patternProperties)
      (if addl_passed then k_additionalProperties passed
       else match parent with Some p => k_additionalProperties p | None => AddBool true end)
      (inh k_minProperties) (inh k_maxProperties) (inh k_propertyNames) (inh k_dependencies)
      (inh k_description).

(* Object.__init_subclass__: a non-empty docstring becomes the description when none was passed
   or inherited *)
Definition with_doc (doc : option str) (k : kwds elem) : kwds elem :=
  match k_description k, doc with
  | None, Some (c :: d) =>
    mkK (k_default k) (k_const k) (k_enum k) (k_items k) (k_additionalItems k) (k_minItems k) (k_maxItems k)
        (k_uniqueItems k) (k_contains k) (k_minimum k) (k_maximum k) (k_exclusiveMinimum k) (k_exclusiveMaximum k)
        (k_multipleOf k) (k_format k) (k_pattern k) (k_minLength k) (k_maxLength k) (k_required k) (k_properties k)
        (k_patternProperties k) (k_additionalProperties k) (k_minProperties k) (k_maxProperties k) (k_propertyNames k)
        (k_dependencies k) (Some (c :: d))
  | _, _ => k
  end.

(* a class's own keyword record, seen as "what was passed" when it is declared flat *)
Definition as_passed (k : kwds elem) : kwds elem := k.
