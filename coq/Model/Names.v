(* Names.v — _parse_attribute_name and _title_format (statham/schema/parser.py). *)
From Coq Require String. Import String.StringSyntax.
From Statham.Model Require Import Str.
Local Open Scope string_scope.
Local Open Scope list_scope.

(* what the interpreter's Unicode database says; instantiated from generated
   range tables (alnum) and a per-run table (names) when the model is executed *)
Record unicode := mkU {
  u_alnum : N -> bool;          (* str.isalnum() of the one-character string *)
  u_name_lower : N -> str       (* unicodedata.name(c, "unknown").lower() *)
}.

Definition c_us : N := 95.   (* "_" *)
Definition c_hy : N := 45.   (* "-" *)
Definition c_sp : N := 32.   (* " " *)

(* string.whitespace = " \t\n\r\x0b\x0c" *)
Definition is_py_whitespace (c : N) : bool :=
  existsb (N.eqb c) [32; 9; 10; 13; 11; 12]%N.

Definition kept_char (U : unicode) (c : N) : bool :=
  u_alnum U c || N.eqb c c_us || N.eqb c c_hy || N.eqb c c_sp.

Section AttrName.
  Variable U : unicode.
  Variable reserved : list str.        (* RESERVED_PROPERTIES as evaluated *)

  (* _char_map with the previous / next character of the original name *)
  Definition char_map (prev : option N) (c : N) (next : option N) : str :=
    if kept_char U c then [c]
    else if is_py_whitespace c then [c_us]
    else
      let label := u_name_lower U c in
      let label := match prev with
                   | Some p => if N.eqb p c_us then label else c_us :: label
                   | None => label end in
      match next with
      | Some n => if N.eqb n c_us then label else label ++ [c_us]
      | None => label
      end.

  Fixpoint map_chars (prev : option N) (l : str) : str :=
    match l with
    | [] => []
    | c :: r => char_map prev c (hd_error r) ++ map_chars (Some c) r
    end.

  Definition sp_hy_to_us (l : str) : str :=
    map (fun c => if N.eqb c c_sp || N.eqb c c_hy then c_us else c) l.

  Definition attr_name (name : str) : str :=
    let n1 := sp_hy_to_us (map_chars None name) in
    match n1 with
    | [] => s_ "blank"
    | c :: _ =>
      let n2 := if is_ascii_alpha c || N.eqb c c_us then n1 else c_us :: n1 in
      if mem_str n2 reserved then n2 ++ [c_us] else n2
    end.
End AttrName.

(* ---- _title_format ---- *)
(* re.split("[^a-zA-Z0-9]", name) with empty words removed *)
Fixpoint split_words (l : str) (cur : str) : list str :=
  match l with
  | [] => match cur with [] => [] | _ => [rev cur] end
  | c :: r =>
    if is_ascii_alnum c then split_words r (c :: cur)
    else match cur with [] => split_words r [] | _ => rev cur :: split_words r [] end
  end.

(* re.findall("[A-Z][^A-Z]*", w): maximal segments starting at an upper-case letter;
   anything before the first upper-case letter is dropped *)
Fixpoint segments (l : str) (cur : option str) : list str :=
  match l with
  | [] => match cur with Some s => [rev s] | None => [] end
  | c :: r =>
    if is_upper c then
      match cur with
      | Some s => rev s :: segments r (Some [c])
      | None => segments r (Some [c])
      end
    else
      match cur with
      | Some s => segments r (Some (c :: s))
      | None => segments r None
      end
  end.

(* str.title() on ASCII alphanumerics *)
Fixpoint py_title (l : str) (prev_cased : bool) : str :=
  match l with
  | [] => []
  | c :: r =>
    if is_ascii_alpha c
    then (if prev_cased then to_lower c else to_upper c) :: py_title r true
    else c :: py_title r false
  end.

Definition cap_first (w : str) : str :=
  match w with [] => [] | c :: r => to_upper c :: r end.

Definition title_format (name : str) : str :=
  flat_map (fun w => flat_map (fun sgm => py_title sgm false) (segments (cap_first w) None))
           (split_words name []).
