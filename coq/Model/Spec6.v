(* Spec6.v — reference semantics of JSON Schema Draft 6 over the RAW schema JSON,
   for the keywords statham supports.  Meant to be read: one clause per keyword.
   Documented deviations (marked DEV):
     1. "integer" means a Python int (1.0 is not an integer);
     2. `format` consults the registry oracle (unregistered formats accept);
     3. a `required` name may be waived when its declared property schema has a
        `default` (parameter w says where: never / always / where the code does,
        i.e. on typed-object schemas).
   Float `multipleOf` is read as IEEE-754 binary64 (PyNum.multiple_of_check). *)
From Coq Require String. Import String.StringSyntax.
From Coq Require Import Floats.SpecFloat.
From Statham.Model Require Import Str Json Elem PyNum Validate.
Local Open Scope string_scope.
Local Open Scope list_scope.

Inductive wmode := WNever | WAlways | WCode.

Section WithKeyB.
  Context {A : Type}.
  Variable f : json -> A.
  Fixpoint wkey (k : str) (kvs : list (str * json)) (d : A) : A :=
    match kvs with
    | [] => d
    | (k', v) :: r => if str_eqb k k' then f v else wkey k r d
    end.
End WithKeyB.

Definition has_type (t : str) (v : json) : bool :=
  if str_eqb t (s_ "integer") then match v with JInt _ => true | _ => false end      (* DEV 1 *)
  else if str_eqb t (s_ "number") then match v with JInt _ | JFlt _ => true | _ => false end
  else if str_eqb t (s_ "string") then match v with JStr _ => true | _ => false end
  else if str_eqb t (s_ "boolean") then match v with JBool _ => true | _ => false end
  else if str_eqb t (s_ "null") then match v with JNull => true | _ => false end
  else if str_eqb t (s_ "array") then match v with JArr _ => true | _ => false end
  else if str_eqb t (s_ "object") then match v with JObj _ => true | _ => false end
  else false.

Definition num_clause (op : cmpop) (subject : option num) (param : json) : bool :=
  match subject, py_num param with
  | Some s, Some p => negb (cmp_holds op s p)
  | _, _ => true
  end.

Fixpoint pairwise_distinct (l : list json) : bool :=
  match l with
  | [] => true
  | x :: r => negb (existsb (js_eq x) r) && pairwise_distinct r
  end.

Definition schema_has_default (S : json) : bool :=
  match S with JObj kvs => has_key (s_ "default") kvs | _ => false end.

Definition typed_object (kvs : list (str * json)) : bool :=
  match lookup (s_ "type") kvs with
  | Some (JStr t) => str_eqb t (s_ "object")
  | Some (JArr ts) => existsb (fun t => match t with JStr x => str_eqb x (s_ "object") | _ => false end) ts
  | _ => false
  end.

Section Clauses.
  Variable O : oracles.
  Variable w : wmode.
  Variable F : json -> json -> bool.      (* validity against a sub-schema (continuation) *)

  Definition cl_type (kvs : list (str * json)) (v : json) : bool :=
    match lookup (s_ "type") kvs with
    | Some (JStr t) => has_type t v
    | Some (JArr ts) => existsb (fun t => match t with JStr x => has_type x v | _ => false end) ts
    | _ => true
    end.

  Definition cl_scalar (kvs : list (str * json)) (v : json) : bool :=
    let get s := lookup (s_ s) kvs in
    let n := js_num v in
    let slen := match v with JStr x => Some (len_num x) | _ => None end in
    let alen := match v with JArr x => Some (len_num x) | _ => None end in
    let olen := match v with JObj x => Some (len_num x) | _ => None end in
    let on (s : String.string) (c : json -> bool) := match get s with Some p => c p | None => true end in
    on "const" (fun c => js_eq v c) &&
    on "enum" (fun e => match e with JArr l => existsb (js_eq v) l | _ => true end) &&
    on "minimum" (num_clause OpLt n) && on "maximum" (num_clause OpGt n) &&
    on "exclusiveMinimum" (num_clause OpLe n) && on "exclusiveMaximum" (num_clause OpGe n) &&
    on "multipleOf" (fun m => match n, py_num m with
                              | Some vn, Some mn =>
                                match multiple_of_check vn mn with PVal b => b | PExn _ => false end
                              | _, _ => true end) &&
    on "minLength" (num_clause OpLt slen) && on "maxLength" (num_clause OpGt slen) &&
    on "pattern" (fun p => match p, v with JStr ps, JStr x => re_search O ps x | _, _ => true end) &&
    on "format" (fun f => match f, v with
                          | JStr fs, JStr x => match fmt O fs with Some chk => chk x | None => true end  (* DEV 2 *)
                          | _, _ => true end) &&
    on "minItems" (num_clause OpLt alen) && on "maxItems" (num_clause OpGt alen) &&
    on "uniqueItems" (fun u => match u, v with JBool true, JArr l => pairwise_distinct l | _, _ => true end) &&
    on "minProperties" (num_clause OpLt olen) && on "maxProperties" (num_clause OpGt olen).

  (* items / additionalItems / contains *)
  Definition cl_items (kvs : list (str * json)) (v : json) : bool :=
    match v with
    | JArr xs =>
      wkey (fun Si =>
              match Si with
              | JArr schemas =>
                (fix go (ss : list json) (ys : list json) {struct ss} : bool :=
                   match ss with
                   | s1 :: sr => match ys with [] => true | y :: yr => F s1 y && go sr yr end
                   | [] => wkey (fun Sa => forallb (F Sa) ys) (s_ "additionalItems") kvs true
                   end) schemas xs
              | _ => forallb (F Si) xs
              end) (s_ "items") kvs true
      && wkey (fun Sc => existsb (F Sc) xs) (s_ "contains") kvs true
    | _ => true
    end.

  (* is the required name waived? (DEV 3) *)
  Definition waived (kvs : list (str * json)) (name : str) : bool :=
    let site := match w with WNever => false | WAlways => true | WCode => typed_object kvs end in
    site && match lookup (s_ "properties") kvs with
            | Some (JObj pkvs) => match lookup name pkvs with Some Sp => schema_has_default Sp | None => false end
            | _ => false
            end.

  Definition cl_object (kvs : list (str * json)) (v : json) : bool :=
    match v with
    | JObj members =>
      (* required *)
      match lookup (s_ "required") kvs with
      | Some (JArr names) =>
        forallb (fun n => match n with
                          | JStr name => has_key name members || waived kvs name
                          | _ => true end) names
      | _ => true
      end
      (* properties x patternProperties x additionalProperties, member by member *)
      && forallb (fun kx =>
            let key := fst kx in let x := snd kx in
            let declared := match lookup (s_ "properties") kvs with
                            | Some (JObj pkvs) => has_key key pkvs | _ => false end in
            let matched := match lookup (s_ "patternProperties") kvs with
                           | Some (JObj pp) => existsb (fun pe => re_search O (fst pe) key) pp
                           | _ => false end in
            wkey (fun Sp => match Sp with
                            | JObj pkvs => wkey (fun Sx => F Sx x) key pkvs true
                            | _ => true end) (s_ "properties") kvs true
            && wkey (fun Spp => match Spp with
                                | JObj pp =>
                                  (fix go (l : list (str * json)) : bool :=
                                     match l with
                                     | [] => true
                                     | (pat, Sx) :: r =>
                                       (if re_search O pat key then F Sx x else true) && go r
                                     end) pp
                                | _ => true end) (s_ "patternProperties") kvs true
            && (if declared || matched then true
                else wkey (fun Sa => F Sa x) (s_ "additionalProperties") kvs true)) members
      (* dependencies *)
      && wkey (fun Sd => match Sd with
                         | JObj deps =>
                           (fix go (l : list (str * json)) : bool :=
                              match l with
                              | [] => true
                              | (key, d) :: r =>
                                (if has_key key members then
                                   match d with
                                   | JArr names => forallb (fun n => match n with JStr s0 => has_key s0 members | _ => true end) names
                                   | _ => F d v
                                   end
                                 else true) && go r
                              end) deps
                         | _ => true end) (s_ "dependencies") kvs true
      (* propertyNames *)
      && wkey (fun Sn => forallb (fun kx => F Sn (JStr (fst kx))) members) (s_ "propertyNames") kvs true
    | _ => true
    end.

  Definition cl_comp (kvs : list (str * json)) (v : json) : bool :=
    let count (l : list json) := length (filter (fun S' => F S' v) l) in
    wkey (fun Sl => match Sl with JArr l => forallb (fun S' => F S' v) l | _ => true end) (s_ "allOf") kvs true
    && wkey (fun Sl => match Sl with JArr l => existsb (fun S' => F S' v) l | _ => true end) (s_ "anyOf") kvs true
    && wkey (fun Sl => match Sl with
                       | JArr l => Nat.eqb (length (filter (fun S' => F S' v) l)) 1
                       | _ => true end) (s_ "oneOf") kvs true
    && wkey (fun Sn => negb (F Sn v)) (s_ "not") kvs true.
End Clauses.

Fixpoint v6 (O : oracles) (w : wmode) (S : json) (v : json) {struct S} : bool :=
  match S with
  | JBool b => b
  | JObj kvs =>
    cl_type kvs v && cl_scalar O kvs v && cl_items (v6 O w) kvs v
    && cl_object O w (v6 O w) kvs v && cl_comp (v6 O w) kvs v
  | _ => true
  end.

Definition valid6_strict (O : oracles) := v6 O WNever.
Definition valid6 (O : oracles) := v6 O WCode.
