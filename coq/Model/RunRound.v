(* RunRound.v — C06 on one document: the codes of RunSchema.run_case (model parser vs implementation),
   plus 9 when the parsed element lies in the normal form on which the syntactic round trip is
   proved (NfFrag.nfb, sound by C06_normal_form_checker; configuration premise NfFrag.cfg_okb), and
   there: 6 when the model's document differs from the document the implementation's pipeline
   wrote (first normal form J1), 7 when re-parsing the model's document does not give a document
   equal to it (would contradict C06_round_trip_normal_form).  10 when the SCHEMA lies in the
   fragment of C06_idempotent_classfree (Plain.plainb class-free, NfFrag.named_tidyb): there the
   parsed element is in the normal form by theorem (8 if the checker disagrees: cannot happen). *)
From Coq Require String. Import String.StringSyntax.
From Statham.Model Require Import Str Json Elem Validate Equality Parser SerJson RunHelpers RunSchema Plain NfFrag.
Local Open Scope string_scope.
Local Open Scope list_scope.

Definition run_case_c06 (c : scase * option json) : list nat :=
  let (sc, j1) := c in
  let cfg := cfg_of sc in
  let frag := plainb cfg false 200 (sc_schema sc) && named_tidyb 200 (sc_schema sc) && cfg_okb cfg in
  run_case sc ++ (if frag then [10%nat] else []) ++
  match parse_element cfg (sc_schema sc) [] with
  | POk (e, _) =>
    (if frag && negb (nfb cfg 200 e) then [8%nat] else []) ++
    if nfb cfg 200 e && cfg_okb cfg then
      [9%nat] ++
      (match j1 with
       | Some j => if jeq false (ser_top true true [] e) j then [] else [6%nat]
       | None => []
       end) ++
      (match parse_element cfg (ser_top true true [] e) [] with
       | POk (e', _) => if jeq false (ser_top true true [] e') (ser_top true true [] e) then [] else [7%nat]
       | PErr _ => [7%nat]
       end)
    else []
  | PErr _ => []
  end.
