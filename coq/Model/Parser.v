(* Parser.v — statham/schema/parser.py: parse_element / parse with the dedupe state. *)
From Coq Require String. Import String.StringSyntax.
From Statham.Model Require Import Str Json Elem Equality Names Tables.
Local Open Scope string_scope.
Local Open Scope list_scope.

Inductive perr := PSchemaParse | PNotImpl | PCrash.
Inductive pres (A : Type) := POk (a : A) | PErr (e : perr).
Arguments POk {A}. Arguments PErr {A}.

(* _ParseState.seen: formatted title -> classes already produced under it *)
Definition pstate := list (str * list elem).

Definition M (A : Type) := pstate -> pres (A * pstate).
Definition ret {A} (a : A) : M A := fun st => POk (a, st).
Definition fail {A} (e : perr) : M A := fun _ => PErr e.
Definition bind {A B} (m : M A) (f : A -> M B) : M B :=
  fun st => match m st with
            | POk (a, st') => f a st'
            | PErr e => PErr e
            end.
Notation "'do' x <- m ;; f" := (bind m (fun x => f)) (at level 200, x name, m at level 100, f at level 200).
Notation "'do' ' p <- m ;; f" := (bind m (fun p => f)) (at level 200, p pattern, m at level 100, f at level 200).

(* configuration supplied by generated tables / oracles *)
Record pcfg := mkCfg {
  c_unicode : unicode;
  c_reserved : list str;
  c_unsupported : list str;          (* UNSUPPORTED_SCHEMA_KEYWORDS *)
  c_comp_order : list str            (* order in which anyOf/oneOf/allOf are parsed *)
}.

(* _parse_literal: drop "_x_autotitle" from dict literals, recursively *)
Fixpoint strip_autotitle (j : json) : json :=
  match j with
  | JArr l => JArr (map strip_autotitle l)
  | JObj kvs =>
    JObj ((fix go (l : list (str * json)) : list (str * json) :=
             match l with
             | [] => []
             | (k, v) :: r =>
               if str_eqb k (s_ "_x_autotitle") then go r else (k, strip_autotitle v) :: go r
             end) kvs)
  | _ => j
  end.

Definition set_name (e : elem) (n : str) : elem :=
  match e with EObj _ b k => EObj n b k | _ => e end.
Definition obj_name (e : elem) : str :=
  match e with EObj n _ _ => n | _ => [] end.

(* _ParseState.dedupe *)
Definition dedupe (cls : elem) : M elem := fun st =>
  let name := obj_name cls in
  let existing := match lookup name st with Some l => l | None => [] end in
  match find (fun x => elem_eq cls x) existing with
  | Some x => POk (x, st)
  | None =>
    let count := length existing in
    let cls' := match count with
                | O => cls
                | _ => set_name cls (name ++ c_us :: str_of_nat count)
                end in
    POk (cls', dict_set name (existing ++ [cls']) st)
  end.

(* restrict a keyword record to the constructor parameters of a class *)
Definition filter_kw (c : ecls) (k : kwds elem) : kwds elem :=
  let has p := mem_str (s_ p) (signature_of c) in
  let o {A} (p : String.string) (x : option A) : option A := if has p then x else None in
  mkK (o "default" (k_default k)) (o "const" (k_const k)) (o "enum" (k_enum k))
      (o "items" (k_items k))
      (if has "additionalItems" then k_additionalItems k else AddBool true)
      (o "minItems" (k_minItems k)) (o "maxItems" (k_maxItems k))
      (if has "uniqueItems" then k_uniqueItems k else false)
      (o "contains" (k_contains k))
      (o "minimum" (k_minimum k)) (o "maximum" (k_maximum k))
      (o "exclusiveMinimum" (k_exclusiveMinimum k)) (o "exclusiveMaximum" (k_exclusiveMaximum k))
      (o "multipleOf" (k_multipleOf k)) (o "format" (k_format k)) (o "pattern" (k_pattern k))
      (o "minLength" (k_minLength k)) (o "maxLength" (k_maxLength k))
      (o "required" (k_required k)) (o "properties" (k_properties k))
      (o "patternProperties" (k_patternProperties k))
      (if has "additionalProperties" then k_additionalProperties k else AddBool true)
      (o "minProperties" (k_minProperties k)) (o "maxProperties" (k_maxProperties k))
      (o "propertyNames" (k_propertyNames k)) (o "dependencies" (k_dependencies k))
      (o "description" (k_description k)).

(* Array(items=schema.get("items", Element()), **filtered keywords) *)
Definition arr_record (K : kwds elem) : kwds elem :=
  let k := filter_kw CArray K in
  match k_items k with
  | Some _ => k
  | None => mkK (k_default k) (k_const k) (k_enum k) (Some (ItOne EElement))
                (k_additionalItems k) (k_minItems k) (k_maxItems k)
                (k_uniqueItems k) (k_contains k) None None None None None None
                None None None None None None (AddBool true) None None None None
                (k_description k)
  end.

Definition set_default (k : kwds elem) (d : option json) : kwds elem :=
  mkK d (k_const k) (k_enum k) (k_items k) (k_additionalItems k) (k_minItems k) (k_maxItems k)
      (k_uniqueItems k) (k_contains k) (k_minimum k) (k_maximum k) (k_exclusiveMinimum k)
      (k_exclusiveMaximum k) (k_multipleOf k) (k_format k) (k_pattern k) (k_minLength k)
      (k_maxLength k) (k_required k) (k_properties k) (k_patternProperties k)
      (k_additionalProperties k) (k_minProperties k) (k_maxProperties k) (k_propertyNames k)
      (k_dependencies k) (k_description k).

Definition with_elem_default (e : elem) (d : option json) : elem :=
  match e with
  | EK c k => EK c (set_default k d)
  | ENothing => ENothing            (* attribute is set on the instance; see Proofs notes *)
  | ENot x _ => ENot x d
  | EComp m es _ => EComp m es d
  | EObj n b k => EObj n b (set_default k d)
  end.

Definition jstr_list (j : json) : list str :=
  match j with
  | JArr l => flat_map (fun x => match x with JStr s => [s] | _ => [] end) l
  | _ => []
  end.
Definition jstr (j : option json) : option str :=
  match j with Some (JStr s) => Some s | _ => None end.
Definition jbool_or (j : option json) (d : bool) : bool :=
  match j with Some (JBool b) => b | _ => d end.

(* the keyword record handed to the element constructors: raw keyword values, cleaned
   literals, and the already parsed sub-schemas *)
Definition kw_record (kvs : list (str * json))
           (props : option (list (str * prop elem))) (items : option (items_t elem))
           (pats : option (list (str * elem))) (pnames contains : option elem)
           (deps : option (list (str * dep_t elem))) (addp addi : addl elem) : kwds elem :=
  let get (s : String.string) := lookup (s_ s) kvs in
  let lit (s : String.string) := match get s with Some j => Some (strip_autotitle j) | None => None end in
  mkK (lit "default") (lit "const")
      (match lit "enum" with Some (JArr l) => Some l | _ => None end)
      items addi (get "minItems") (get "maxItems") (jbool_or (get "uniqueItems") false)
      contains (get "minimum") (get "maximum") (get "exclusiveMinimum")
      (get "exclusiveMaximum") (get "multipleOf") (jstr (get "format")) (jstr (get "pattern"))
      (get "minLength") (get "maxLength")
      (match get "required" with Some j => Some (jstr_list j) | None => None end)
      props pats addp (get "minProperties") (get "maxProperties") pnames deps
      (jstr (get "description")).

Section WithKey.
  Context {A : Type}.
  Variable f : json -> A.
  (* first-match dict lookup applying the continuation to the value found *)
  Fixpoint with_key (k : str) (kvs : list (str * json)) (d : A) : A :=
    match kvs with
    | [] => d
    | (k', v) :: r => if str_eqb k k' then f v else with_key k r d
    end.
End WithKey.

Section SubParsers.
  (* continuation-parameterised traversals of sub-schemas (guard checker) *)
  Variable P : json -> M elem.

  Definition is_schema (j : json) : bool :=
    match j with JObj _ | JBool _ => true | _ => false end.

  Fixpoint parse_list (l : list json) : M (list elem) :=
    match l with
    | [] => ret []
    | x :: r => do e <- P x;; do es <- parse_list r;; ret (e :: es)
    end.

  (* {key: parse(value) for key, value in d.items() if isinstance(value, (dict, bool))} *)
  Fixpoint parse_assoc (kvs : list (str * json)) : M (list (str * elem)) :=
    match kvs with
    | [] => ret []
    | (k, v) :: r =>
      if is_schema v
      then do e <- P v;; do es <- parse_assoc r;; ret ((k, e) :: es)
      else parse_assoc r
    end.

  Definition parse_some (j : json) : M (option elem) := do e <- P j;; ret (Some e).

  (* _parse_additional: booleans are kept *)
  Definition parse_addl (j : json) : M (addl elem) :=
    match j with
    | JBool b => ret (AddBool b)
    | _ => do e <- P j;; ret (AddElem e)
    end.

  Definition parse_items (j : json) : M (option (items_t elem)) :=
    match j with
    | JArr l => do es <- parse_list l;; ret (Some (ItMany es))
    | _ => do e <- P j;; ret (Some (ItOne e))
    end.

  Definition parse_deps (j : json) : M (option (list (str * dep_t elem))) :=
    match j with
    | JObj kvs =>
      let names := flat_map (fun kv => match snd kv with
                                       | JArr _ => [(fst kv, @DepNames elem (jstr_list (snd kv)))]
                                       | _ => [] end) kvs in
      do es <- parse_assoc kvs;;
      ret (Some (dict_merge (dict_of_pairs names)
                            (map (fun ke => (fst ke, DepElem (snd ke))) es)))
    | _ => fail PCrash
    end.

  Definition parse_props (attr : str -> str) (required : list str) (j : json)
    : M (option (list (str * prop elem))) :=
    match j with
    | JObj pkvs =>
      do es <- parse_assoc pkvs;;
      ret (Some (dict_of_pairs
                   (map (fun ke => (attr (fst ke),
                                    mkProp (snd ke) (mem_str (fst ke) required) (fst ke)))
                        es)))
    | _ => fail PCrash
    end.

  Definition parse_pats (j : json) : M (option (list (str * elem))) :=
    match j with
    | JObj pkvs => do es <- parse_assoc pkvs;; ret (Some (dict_of_pairs es))
    | _ => fail PCrash
    end.

  Definition parse_comp_list (j : json) : M (list elem) :=
    match j with
    | JArr l => parse_list l
    | _ => fail PCrash
    end.

  Definition parse_not (j : json) : M (list elem) := do e <- P j;; ret [ENot e None].
End SubParsers.

Section ParseKeys.
  Variable sub : str -> M (list elem).
  Fixpoint parse_keys (ks : list str) : M (list (str * list elem)) :=
    match ks with
    | [] => ret []
    | key :: r => do es <- sub key;; do rest <- parse_keys r;; ret ((key, es) :: rest)
    end.
End ParseKeys.

Section Parser.
  Variable cfg : pcfg.
  Definition attr := attr_name (c_unicode cfg) (c_reserved cfg).

  Definition k_of_key (s : String.string) : str := s_ s.

  (* the keywords of the class built by _parse_object: the object keywords present in the
     schema, and the declared properties plus a synthetic Element property for every required
     name without one *)
  Definition obj_record (S : list (str * json)) (K : kwds elem) : kwds elem :=
    let props0 := match k_properties K with Some l => l | None => [] end in
    let req := match lookup (s_ "required") S with Some j => jstr_list j | None => [] end in
    let synth := flat_map (fun key =>
                    if has_key (attr key) props0 then []
                    else [(attr key, mkProp EElement true key)]) req in
    let props := dict_merge props0 (dict_of_pairs synth) in
    let has p := has_key (s_ p) S in
    let o {A} (p : String.string) (x : option A) : option A := if has p then x else None in
    mkK (o "default" (k_default K)) (o "const" (k_const K)) (o "enum" (k_enum K))
        None (AddBool true) None None false None None None None None None None None None None
        None (Some props) (o "patternProperties" (k_patternProperties K))
        (k_additionalProperties K)
        (o "minProperties" (k_minProperties K)) (o "maxProperties" (k_maxProperties K))
        (o "propertyNames" (k_propertyNames K)) (o "dependencies" (k_dependencies K))
        (o "description" (k_description K)).

  (* the class name: "title", else "_x_autotitle" *)
  Definition obj_title (S : list (str * json)) : option json :=
    match lookup (s_ "title") S with
    | Some t => Some t
    | None => lookup (s_ "_x_autotitle") S end.

  (* _parse_object on an already sub-parsed keyword record *)
  Definition parse_object (S : list (str * json)) (K : kwds elem) : M elem :=
    match obj_title S with
    | None => fail PSchemaParse
    | Some (JStr []) => fail PSchemaParse
    | Some (JStr t) => dedupe (EObj (title_format t) [s_ "Object"] (obj_record S K))
    | Some j => if py_truthy j then fail PCrash else fail PSchemaParse
    end.

  (* parse_element on a schema whose sub-schemas are already parsed, single type *)
  Definition typed_single (t : str) (S : list (str * json)) (K : kwds elem) : M elem :=
    if str_eqb t (s_ "object") then parse_object S K
    else if has_key (s_ "self") S then fail PCrash   (* **{"self": ...} collides with the bound self *)
    else if str_eqb t (s_ "array") then
      ret (EK CArray (arr_record K))
    else match lookup t type_mapping with
         | Some c => ret (EK c (filter_kw c K))
         | None => fail PCrash           (* KeyError on an unknown type name *)
         end.

  Definition compose (m : mode) (es : list elem) : elem :=
    match es with
    | [] => EElement
    | [e] => e
    | _ => EComp m es None
    end.

  Definition is_obj (e : elem) : bool := match e with EObj _ _ _ => true | _ => false end.

  (* typed / untyped dispatch for a schema without composition keywords *)
  Definition finish_plain (S : list (str * json)) (K : kwds elem) : M elem :=
    match lookup (s_ "type") S with
    | None => if has_key (s_ "self") S then fail PCrash else ret (EK CElement K)
    | Some (JStr t) => typed_single t S K
    | Some (JArr ts) =>
      let d := k_default K in
      let K' := set_default K None in
      let S' := remove_key (s_ "default") S in
      match ts with
      | [JStr t] => typed_single t S K      (* the default is passed through  (fix 773e603) *)
      | _ =>
        do es <- (fix go (l : list json) : M (list elem) :=
                    match l with
                    | [] => ret []
                    | JStr t :: r => do e <- typed_single t S' K';; do es <- go r;; ret (e :: es)
                    | _ :: _ => fail PCrash
                    end) ts;;
        match es with
        | [] => fail PCrash              (* AnyOf() with no members: TypeError *)
        | _ => ret (EComp MAny es d)
        end
      end
    | Some _ => fail PSchemaParse
    end.

  Fixpoint parse_element (S : json) {struct S} : M elem :=
    match S with
    | JBool true => ret EElement
    | JBool false => ret ENothing
    | JObj kvs =>
      if existsb (fun kv => mem_str (fst kv) (c_unsupported cfg)) kvs then fail PNotImpl else
      let get (s : String.string) := lookup (s_ s) kvs in
      let lit (s : String.string) := match get s with Some j => Some (strip_autotitle j) | None => None end in
      let required := match get "required" with Some j => jstr_list j | None => [] end in
      do props <- with_key (parse_props parse_element attr required) (s_ "properties") kvs (ret None);;
      do items <- with_key (parse_items parse_element) (s_ "items") kvs (ret None);;
      do pats <- with_key (parse_pats parse_element) (s_ "patternProperties") kvs (ret None);;
      do pnames <- with_key (parse_some parse_element) (s_ "propertyNames") kvs (ret None);;
      do contains <- with_key (parse_some parse_element) (s_ "contains") kvs (ret None);;
      do deps <- with_key (parse_deps parse_element) (s_ "dependencies") kvs (ret None);;
      do addp <- with_key (parse_addl parse_element) (s_ "additionalProperties") kvs (ret (AddBool true));;
      do addi <- with_key (parse_addl parse_element) (s_ "additionalItems") kvs (ret (AddBool true));;
      let K : kwds elem := kw_record kvs props items pats pnames contains deps addp addi in
      let has_comp := existsb (fun kv => mem_str (fst kv) composition_keywords) kvs in
      if negb has_comp then finish_plain kvs K
      else
        (* _parse_composition *)
        let other := filter (fun kv => negb (mem_str (fst kv) (s_ "default" :: composition_keywords))) kvs in
        do base <- finish_plain other (set_default K None);;
        let sub (key : str) : M (list elem) :=
          with_key (parse_comp_list parse_element) key kvs (ret []) in
        (* the three list-valued keywords are parsed in c_comp_order *)
        do parsed <- parse_keys sub (c_comp_order cfg);;
        let of key := match lookup (s_ key) parsed with Some l => l | None => [] end in
        do nots <- with_key (parse_not parse_element) (s_ "not") kvs (ret []);;
        let all_of := base :: of "allOf" ++ [compose MOne (of "oneOf"); compose MAny (of "anyOf")] ++ nots in
        let element := compose MAll (filter (fun e => negb (elem_eq EElement e)) all_of) in
        let default := lit "default" in
        if is_obj element then ret (EComp MAll [element] default)
        else
          (* if not isinstance(default, NotPassed): element.default = default   (fix 804a592) *)
          ret (match default with
               | Some d => with_elem_default element (Some d)
               | None => element
               end)
    | _ => fail PCrash
    end.

  (* parse(schema): root, then every schema-valued member of root "definitions" *)
  Definition parse (S : json) : pres (list elem) :=
    let defs := match S with
                | JObj kvs => match lookup (s_ "definitions") kvs with
                              | Some (JObj d) => filter (fun kv => is_schema (snd kv)) d
                              | _ => []
                              end
                | _ => []
                end in
    match (do r <- parse_element S;;
           do ds <- parse_list parse_element (map snd defs);;
           ret (r :: ds)) [] with
    | POk (l, _) => POk l
    | PErr e => PErr e
    end.
End Parser.
