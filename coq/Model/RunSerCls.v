(* RunSerCls.v — RunSer.run_ser_case plus code 10: the tree (with object classes, no caller
   definitions) satisfies the executable premises of C03_meaning_classes (ClsFrag.cdslb, defs_okb:
   proved sound), so the resolved document means what the tree means by theorem. *)
From Coq Require String. Import String.StringSyntax.
From Statham.Model Require Import Str Json Elem Validate Equality SerJson Spec6 RunHelpers SerFrag RunSer ClsFrag DefsFrag.
Local Open Scope string_scope.
Local Open Scope list_scope.

Definition run_ser_case_c03 (c : list (str * elem) * elem * list elem * json) : list nat :=
  run_ser_case c ++
  match c with (defs, primary, classes, _) =>
    match defs, primary with
    | _ :: _, ENothing => []
    (* 12: caller-supplied definitions, and the premise of C03_meaning_definitions holds (DefsFrag.cd_okb, proved sound) *)
    | _ :: _, _ => if cd_okb defs classes 200 primary then [12%nat] else []
    | [], ENothing => []
    | [], _ => if cdslb 200 primary && defs_okb (class_defs classes) 200 primary then [10%nat] else []
    end
  end.
