(* Str.v — Python str as a list of code points.  Executable definitions only. *)
From Coq Require Export List NArith ZArith Bool.
From Coq Require Ascii String.
Export ListNotations.
Import Ascii String.
Open Scope list_scope.
Local Open Scope string_scope.
Local Open Scope list_scope.

Definition str := list N.

Fixpoint str_eqb (a b : str) : bool :=
  match a, b with
  | [], [] => true
  | x :: a', y :: b' => N.eqb x y && str_eqb a' b'
  | _, _ => false
  end.

(* helper used by generated case files: ASCII literal -> str *)
Fixpoint str_of_string (s : string) : str :=
  match s with
  | EmptyString => []
  | String a s' => N_of_ascii a :: str_of_string s'
  end.
Definition s_ (x : string) : str := str_of_string x.

Definition mem_str (x : str) (l : list str) : bool := existsb (str_eqb x) l.

(* association lists keyed by str: Python dict lookups (first match). *)
Section Assoc.
  Context {A : Type}.
  Fixpoint lookup (k : str) (kvs : list (str * A)) : option A :=
    match kvs with
    | [] => None
    | (k', v) :: r => if str_eqb k k' then Some v else lookup k r
    end.
  Definition has_key (k : str) (kvs : list (str * A)) : bool :=
    match lookup k kvs with Some _ => true | None => false end.
  Fixpoint remove_key (k : str) (kvs : list (str * A)) : list (str * A) :=
    match kvs with
    | [] => []
    | (k', v) :: r => if str_eqb k k' then remove_key k r else (k', v) :: remove_key k r
    end.
  (* dict[k] = v : replace in place if present (keeps position), else append *)
  Fixpoint dict_set (k : str) (v : A) (kvs : list (str * A)) : list (str * A) :=
    match kvs with
    | [] => [(k, v)]
    | (k', v') :: r => if str_eqb k k' then (k', v) :: r else (k', v') :: dict_set k v r
    end.
  (* {**a, **b} *)
  Definition dict_merge (a b : list (str * A)) : list (str * A) :=
    fold_left (fun acc kv => dict_set (fst kv) (snd kv) acc) b a.
  (* dict(pairs): later pairs win, position of first occurrence kept *)
  Definition dict_of_pairs (ps : list (str * A)) : list (str * A) := dict_merge [] ps.
  Definition keys (kvs : list (str * A)) : list str := map fst kvs.
End Assoc.

Fixpoint nodup_str (l : list str) : list str :=
  match l with
  | [] => []
  | x :: r => if mem_str x r then nodup_str r else x :: nodup_str r
  end.

Fixpoint nodupb (l : list str) : bool :=
  match l with
  | [] => true
  | x :: r => negb (mem_str x r) && nodupb r
  end.

Definition ascii_N (c : ascii) : N := N_of_ascii c.

(* ASCII classes *)
Definition is_upper (c : N) : bool := (65 <=? c)%N && (c <=? 90)%N.
Definition is_lower (c : N) : bool := (97 <=? c)%N && (c <=? 122)%N.
Definition is_digit (c : N) : bool := (48 <=? c)%N && (c <=? 57)%N.
Definition is_ascii_alpha (c : N) : bool := is_upper c || is_lower c.
Definition is_ascii_alnum (c : N) : bool := is_ascii_alpha c || is_digit c.
Definition to_upper (c : N) : N := if is_lower c then (c - 32)%N else c.
Definition to_lower (c : N) : N := if is_upper c then (c + 32)%N else c.

(* decimal rendering of a nat / N as a str (for "_1" suffixes, "[3]") *)
Fixpoint digits_fuel (fuel : nat) (n : N) (acc : str) : str :=
  match fuel with
  | O => acc
  | S f =>
    let d := (48 + N.modulo n 10)%N in
    let q := N.div n 10 in
    if N.eqb q 0 then d :: acc else digits_fuel f q (d :: acc)
  end.
Definition str_of_N (n : N) : str := digits_fuel (S (N.to_nat (N.log2 n))) n [].
Definition str_of_nat (n : nat) : str := str_of_N (N.of_nat n).
