(* Annot.v — the type annotations statham generates (Element.annotation, Array.annotation /
   item_annotations, CompositionElement.annotation, AllOf.annotation, ObjectMeta.annotation,
   _Property.annotation) as a type AST, and what it means for a constructed value to have
   such a type, read as a type checker reads it. *)
From Coq Require String. Import String.StringSyntax.
From Statham.Model Require Import Str Json Elem PyNum Validate.
Local Open Scope string_scope.
Local Open Scope list_scope.

Inductive ty :=
| TAny | TNone | TStr | TInt | TFloat | TBool
| TName (s : str)                 (* a model class *)
| TList (t : option ty)           (* List / List[t] *)
| TUnion (l : list ty)
| TMaybe (t : ty).                (* Union[t, NotPassed] *)

Fixpoint ty_eqb (a b : ty) {struct a} : bool :=
  let fix list_eq (l1 l2 : list ty) {struct l1} : bool :=
    match l1, l2 with
    | [], [] => true
    | x :: r1, y :: r2 => ty_eqb x y && list_eq r1 r2
    | _, _ => false
    end in
  match a, b with
  | TAny, TAny | TNone, TNone | TStr, TStr | TInt, TInt | TFloat, TFloat | TBool, TBool => true
  | TName x, TName y => str_eqb x y
  | TList None, TList None => true
  | TList (Some x), TList (Some y) => ty_eqb x y
  | TUnion x, TUnion y => list_eq x y
  | TMaybe x, TMaybe y => ty_eqb x y
  | _, _ => false
  end.

Definition is_any (t : ty) : bool := match t with TAny => true | _ => false end.
Definition is_union (t : ty) : bool := match t with TUnion _ => true | _ => false end.
Definition mem_ty (t : ty) (l : list ty) : bool := existsb (ty_eqb t) l.

(* helpers.remove_duplicates *)
Fixpoint dedupe_ty (seen : list ty) (l : list ty) : list ty :=
  match l with
  | [] => []
  | x :: r => if mem_ty x seen then dedupe_ty seen r else x :: dedupe_ty (seen ++ [x]) r
  end.

(* CompositionElement.annotation *)
Definition comp_annotation (anns : list ty) : ty :=
  match dedupe_ty [] anns with
  | [t] => t
  | ds => if existsb is_any ds then TAny else TUnion ds
  end.

(* AllOf.annotation: first explicit (non-Any, non-Union) annotation, else first non-Any, else Any *)
Definition allof_annotation (anns : list ty) : ty :=
  match find (fun t => negb (is_any t) && negb (is_union t)) anns with
  | Some t => t
  | None => match find (fun t => negb (is_any t)) anns with
            | Some t => t
            | None => TAny
            end
  end.

(* Array.item_annotations / Array.annotation *)
Definition array_annotation (items : option (items_t ty)) (addl : addl ty) : ty :=
  let anns :=
    match items with
    | None => [TAny]
    | Some (ItOne t) => [t]
    | Some (ItMany ts) =>
      match addl with
      | AddBool true => [TAny]
      | _ =>
        let all := ts ++ match addl with AddElem t => [t] | AddBool _ => [] end in
        if existsb is_any all then [TAny] else dedupe_ty [] all
      end
    end in
  match anns with
  | [] => TList None
  | [t] => TList (Some t)
  | ts => TList (Some (TUnion ts))
  end.

Fixpoint annotation (e : elem) {struct e} : ty :=
  match e with
  | EK c k =>
    match c with
    | CElement => TAny
    | CString => TStr
    | CInteger => TInt
    | CNumber => TFloat
    | CBoolean => TBool
    | CNull => TNone
    | CArray =>
      array_annotation
        (match k_items k with
         | Some (ItOne x) => Some (ItOne (annotation x))
         | Some (ItMany l) => Some (ItMany ((fix go (l : list elem) : list ty :=
                                               match l with [] => [] | x :: r => annotation x :: go r end) l))
         | None => None
         end)
        (match k_additionalItems k with AddBool b => AddBool b | AddElem x => AddElem (annotation x) end)
    end
  | ENothing => TNone
  | ENot _ _ => TAny
  | EComp m es _ =>
    let anns := (fix go (l : list elem) : list ty := match l with [] => [] | x :: r => annotation x :: go r end) es in
    match m with MAll => allof_annotation anns | _ => comp_annotation anns end
  | EObj name _ _ => TName name
  end.

(* _Property.annotation *)
Definition prop_annotation (p : prop elem) : ty :=
  if p_required p || match elem_default (p_elem p) with Some _ => true | None => false end
  then annotation (p_elem p) else TMaybe (annotation (p_elem p)).

(* a constructed value belongs to a type, as a checker reads the annotation *)
Fixpoint has_type (r : rv) (t : ty) {struct t} : bool :=
  match t with
  | TAny => true
  | TNone => match r with RNull => true | _ => false end
  | TStr => match r with RStr _ => true | _ => false end
  | TInt => match r with RInt _ | RBool _ => true | _ => false end          (* bool <: int *)
  | TFloat => match r with RFlt _ | RInt _ | RBool _ => true | _ => false end  (* int where float is announced *)
  | TBool => match r with RBool _ => true | _ => false end
  | TName n => match r with RInst c _ => str_eqb c n | _ => false end
  | TList None => match r with RList _ => true | _ => false end
  | TList (Some t') => match r with RList l => forallb (fun x => has_type x t') l | _ => false end
  | TUnion ts => (fix any (l : list ty) : bool := match l with [] => false | t' :: rest => has_type r t' || any rest end) ts
  | TMaybe t' => match r with RNotPassed => true | _ => has_type r t' end
  end.

(* printing, for comparison with the generated text *)
Fixpoint ty_text (t : ty) : str :=
  let sep := s_ ", " in
  match t with
  | TAny => s_ "Any" | TNone => s_ "None" | TStr => s_ "str" | TInt => s_ "int" | TFloat => s_ "float" | TBool => s_ "bool"
  | TName n => n
  | TList None => s_ "List"
  | TList (Some t') => s_ "List[" ++ ty_text t' ++ s_ "]"
  | TUnion ts => s_ "Union[" ++ (fix join (l : list ty) : str :=
                                   match l with [] => [] | [x] => ty_text x | x :: r => ty_text x ++ sep ++ join r end) ts ++ s_ "]"
  | TMaybe t' => s_ "Maybe[" ++ ty_text t' ++ s_ "]"
  end.
