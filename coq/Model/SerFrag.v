(* SerFrag.v — executable checker for the reference-free, DSL-constructible element trees on
   which C03's meaning theorem is stated (Proofs/C03Meaning.v proves it sound). *)
From Coq Require String. Import String.StringSyntax.
From Statham.Model Require Import Str Json Elem Tables Parser Plain Sub.
Local Open Scope string_scope.

Definition is_none {A} (o : option A) : bool := match o with None => true | Some _ => false end.
Definition is_add_true (a : addl elem) : bool := match a with AddBool true => true | _ => false end.

(* every keyword outside the constructor signature of the class has its default value *)
Definition sig_okb (c : ecls) (k : kwds elem) : bool :=
  let has (p : String.string) := mem_str (s_ p) (signature_of c) in
  (has "const" || is_none (k_const k)) && (has "enum" || is_none (k_enum k)) &&
  (has "items" || is_none (k_items k)) && (has "additionalItems" || is_add_true (k_additionalItems k)) &&
  (has "minItems" || is_none (k_minItems k)) && (has "maxItems" || is_none (k_maxItems k)) &&
  (has "uniqueItems" || negb (k_uniqueItems k)) && (has "contains" || is_none (k_contains k)) &&
  (has "minimum" || is_none (k_minimum k)) && (has "maximum" || is_none (k_maximum k)) &&
  (has "exclusiveMinimum" || is_none (k_exclusiveMinimum k)) && (has "exclusiveMaximum" || is_none (k_exclusiveMaximum k)) &&
  (has "multipleOf" || is_none (k_multipleOf k)) && (has "format" || is_none (k_format k)) &&
  (has "pattern" || is_none (k_pattern k)) && (has "minLength" || is_none (k_minLength k)) &&
  (has "maxLength" || is_none (k_maxLength k)) && (has "required" || is_none (k_required k)) &&
  (has "properties" || is_none (k_properties k)) && (has "patternProperties" || is_none (k_patternProperties k)) &&
  (has "additionalProperties" || is_add_true (k_additionalProperties k)) &&
  (has "minProperties" || is_none (k_minProperties k)) && (has "maxProperties" || is_none (k_maxProperties k)) &&
  (has "propertyNames" || is_none (k_propertyNames k)) && (has "dependencies" || is_none (k_dependencies k)).

Definition elem_has_default (e : elem) : bool :=
  match e with
  | EK _ k => negb (is_none (k_default k))
  | ENothing => false
  | ENot _ d => negb (is_none d)
  | EComp _ _ d => negb (is_none d)
  | EObj _ _ k => negb (is_none (k_default k))
  end.

Definition props_okb (explicit : list str) (o : option (list (str * prop elem))) : bool :=
  match o with
  | Some l => nodupb (map (fun np => p_source (snd np)) l) &&
              forallb (fun np => match p_source (snd np) with [] => false | _ => true end &&
                                 (negb (p_required (snd np)) || (negb (elem_has_default (p_elem (snd np))) ||
                                                                 mem_str (p_source (snd np)) explicit))) l
  | None => true
  end.
Definition okeysb {A} (o : option (list (str * A))) : bool :=
  match o with Some l => nodupb (keys l) | None => true end.
Definition addl_plainb (a : addl elem) : bool := match a with AddElem ENothing => false | _ => true end.
Definition ecls_is (c d : ecls) : bool :=
  match c, d with
  | CElement, CElement | CString, CString | CInteger, CInteger | CNumber, CNumber
  | CBoolean, CBoolean | CNull, CNull | CArray, CArray => true
  | _, _ => false
  end.

Definition local_dslb (e : elem) : bool :=
  match e with
  | EK c k =>
    (match k_const k with Some j => clean j | None => true end) &&
    (match k_enum k with Some l => clean (JArr l) | None => true end) &&
    sig_okb c k && (negb (ecls_is c CArray) || negb (is_none (k_items k))) &&
    (ecls_is c CElement || is_none (k_required k)) &&
    props_okb (match k_required k with Some l => l | None => [] end) (k_properties k) &&
    okeysb (k_patternProperties k) && okeysb (k_dependencies k)
  | EComp _ es _ => match es with [] => false | _ => true end
  | EObj _ _ _ => false
  | _ => true
  end.

Fixpoint dslb (fuel : nat) (e : elem) : bool :=
  match fuel with
  | O => false
  | S n => local_dslb e && forallb (dslb n) (children e)
  end.
