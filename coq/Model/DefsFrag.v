(* DefsFrag.v — executable premise of the meaning theorem for serialize_json WITH caller-supplied
   definitions (Proofs/C03Defs.v): the primary and every definition lie in the fragment of C17's class
   congruence, every object class met below a node and every caller definition has its own document
   under its name / key in the emitted "definitions". *)
From Coq Require String. Import String.StringSyntax.
From Coq Require Import List Bool Arith.
From Statham.Model Require Import Str Json Elem Sub Equality SerJson ClsFrag RunSer.
Import ListNotations.
Local Open Scope string_scope.
Local Open Scope list_scope.

Fixpoint nodes_all (fuel : nat) (roots : list elem) : option (list elem) :=
  match roots with
  | [] => Some []
  | r :: rest => match nodes fuel r, nodes_all fuel rest with Some a, Some b => Some (a ++ b) | _, _ => None end
  end.

(* the "definitions" serialize_json writes: the collected classes, then the caller's definitions *)
Definition defs_doc (cd : list (str * elem)) (classes : list elem) : list (str * json) :=
  dict_of_pairs (map (fun c => (match c with EObj n _ _ => n | _ => [] end, ser_top true true cd c)) classes
                 ++ map (fun kd => (fst kd, ser_top true true cd (snd kd))) cd).

Definition has_doc (cd : list (str * elem)) (DJ : list (str * json)) (key : str) (x : elem) : bool :=
  match lookup key DJ with Some j => json_eqb j (ser_top true true cd x) | None => false end.

Definition cd_okb (cd : list (str * elem)) (classes : list elem) (fuel : nat) (e : elem) : bool :=
  let DJ := defs_doc cd classes in
  match nodes_all fuel (e :: map snd cd) with
  | None => false
  | Some ns =>
    goodcb fuel e && forallb (fun kd => goodcb fuel (snd kd)) cd &&
    forallb (fun y => forallb (fun x => match x with EObj n _ _ => has_doc cd DJ n x | _ => true end) (children y)) ns &&
    forallb (fun kd => has_doc cd DJ (fst kd) (snd kd)) cd
  end.
