(* Retr.v — executable premise of C04's completeness theorem: the properties of every
   sub-element are well-formed, and no object inside the value uses the Python name of a renamed
   property as a member name (Proofs/C04Retrieve.v proves the checker sound). *)
From Statham.Model Require Import Str Json Elem Plain Sub.

Fixpoint subvals (v : json) : list json :=
  v :: match v with
       | JArr l => (fix go (l : list json) : list json := match l with [] => [] | x :: r => subvals x ++ go r end) l
       | JObj m => (fix go (l : list (str * json)) : list json := match l with [] => [] | (_, x) :: r => subvals x ++ go r end) m
       | _ => []
       end.

Definition props_of (e : elem) : list (str * prop elem) :=
  match e with
  | EK _ k | EObj _ _ k => match k_properties k with Some l => l | None => [] end
  | _ => []
  end.

Definition local_safeb (e' : elem) (x : json) : bool :=
  match x with
  | JObj m =>
    nodupb (keys (props_of e')) && nodupb (map (fun np => p_source (snd np)) (props_of e')) &&
    forallb (fun np => match p_source (snd np) with [] => false | _ => true end) (props_of e') &&
    forallb (fun np => str_eqb (fst np) (p_source (snd np)) || negb (has_key (fst np) m)) (props_of e')
  | _ => true
  end.

Fixpoint safeb (fuel : nat) (e : elem) (v : json) : bool :=
  match fuel with
  | O => false
  | S n => forallb (local_safeb e) (subvals v) && forallb (fun c => safeb n c v) (children e)
  end.
