(* Validate.v — Element.__call__ / Object.__new__ + __init__: validators and construction.
   `build O e ov` models `e(value)`; ov = None is the NotPassed marker. *)
From Coq Require Import Floats.SpecFloat.
From Statham.Model Require Import Str Json Elem PyNum.

(* external behaviour: universally quantified in every theorem *)
Record oracles := mkO {
  re_search : str -> str -> bool;            (* re.search(pattern, s) is not None *)
  fmt : str -> option (str -> bool)          (* format_checker's register *)
}.

(* ---- small pure helpers ---- *)
Definition len_num {A} (l : list A) : num := NZ (Z.of_nat (length l)).

Definition guard_num (v : json) : option num := js_num v.   (* (int, float), bool excluded *)

(* a threshold validator: active when the keyword is set; raises when `subject op param` *)
Definition thr (op : cmpop) (subject : option num) (param : option json) : bool :=
  match param, subject with
  | Some p, Some s =>
    match py_num p with
    | Some pn => negb (cmp_holds op s pn)
    | None => true
    end
  | _, _ => true
  end.

Definition type_ok (c : ecls) (v : json) : bool :=
  match c, v with
  | CElement, _ => true
  | CString, JStr _ => true
  | CInteger, JInt _ => true
  | CNumber, (JInt _ | JFlt _) => true
  | CBoolean, JBool _ => true
  | CNull, JNull => true
  | CArray, JArr _ => true
  | _, _ => false
  end.

(* replace_bool (recursive) followed by Python ==: booleans only equal booleans at
   every depth, numbers compare by value, dicts order-insensitively — i.e. js_eq. *)
Definition lit_eq : json -> json -> bool := js_eq.

Definition const_ok (k : option json) (v : json) : bool :=
  match k with Some c => lit_eq v c | None => true end.
Definition enum_ok (k : option (list json)) (v : json) : bool :=
  match k with Some l => existsb (lit_eq v) l | None => true end.

(* UniqueItems: items pairwise distinct under replace_bool + Python == *)
Fixpoint unique_items (l : list json) : bool :=
  match l with
  | [] => true
  | x :: r => negb (existsb (lit_eq x) r) && unique_items r
  end.

(* combine the crash-or-reject status of several checks: a possible crash dominates *)
Inductive vres := VPass | VRej | VCrash (x : exn).
Definition vand (a b : vres) : vres :=
  match a, b with
  | VCrash x, _ => VCrash x
  | _, VCrash x => VCrash x
  | VRej, _ | _, VRej => VRej
  | VPass, VPass => VPass
  end.
Definition vb (b : bool) : vres := if b then VPass else VRej.
Definition vall (l : list vres) : vres := fold_right vand VPass l.

Definition multiple_ok (param : option json) (v : json) : vres :=
  match param, guard_num v with
  | Some p, Some vn =>
    match py_num p with
    | Some pn =>
      match multiple_of_check vn pn with
      | PVal b => vb b
      | PExn x => VCrash x
      end
    | None => VPass
    end
  | _, _ => VPass
  end.

Definition is_nothing (e : elem) : bool := match e with ENothing => true | _ => false end.
Definition addl_truthy (a : addl elem) : bool :=
  match a with AddBool b => b | AddElem e => negb (is_nothing e) end.

Definition elem_default (e : elem) : option json :=
  match e with
  | EK _ k => k_default k
  | ENothing => None
  | ENot _ d => d
  | EComp _ _ d => d
  | EObj _ _ k => k_default k
  end.

(* _PropertyDict.required: [prop.source for required props whose element has no default] *)
Definition props_required (ps : list (str * prop elem)) : list str :=
  map (fun np => p_source (snd np))
      (filter (fun np => p_required (snd np) &&
                         match elem_default (p_elem (snd np)) with None => true | Some _ => false end) ps).

(* Required.from_element: explicit list ++ properties.required *)
Definition required_names (k : kwds elem) : list str :=
  (match k_required k with Some l => l | None => [] end) ++
  (match k_properties k with Some ps => props_required ps | None => [] end).

Definition with_default (d : option json) (ov : option json) (create : json -> outcome) : outcome :=
  match ov with
  | Some v => create v
  | None =>
    match d with
    | None => Ok RNotPassed
    | Some dv =>
      match create dv with
      | Ok r => Ok r
      | Rej => Ok (rv_of_json dv)
      | Crash x => Crash x
      end
    end
  end.

(* _attempt_schemas on the already computed outcomes (all members are attempted) *)
Fixpoint first_crash (os : list outcome) : option exn :=
  match os with
  | [] => None
  | Crash x :: _ => Some x
  | _ :: r => first_crash r
  end.
Fixpoint ok_results (os : list outcome) : list rv :=
  match os with
  | [] => []
  | Ok r :: t => r :: ok_results t
  | _ :: t => ok_results t
  end.
Definition attempt (m : mode) (os : list outcome) : outcome :=
  match first_crash os with
  | Some x => Crash x
  | None =>
    match ok_results os with
    | [] => Rej
    | r :: rest =>
      match m with
      | MAny => Ok r
      | MOne => match rest with [] => Ok r | _ => Rej end
      | MAll => if Nat.eqb (length (r :: rest)) (length os) then Ok r else Rej
      end
    end
  end.

(* sequencing of member constructions *)
Fixpoint collect {K} (l : list (K * outcome)) : vres * list (K * rv) :=
  match l with
  | [] => (VPass, [])
  | (k, o) :: r =>
    let '(s, rs) := collect r in
    match o with
    | Ok x => (s, (k, x) :: rs)
    | Rej => (vand VRej s, rs)
    | Crash e => (VCrash e, rs)
    end
  end.

Section Combinators.
  (* continuation-parameterised traversals: the recursive calls of `build` go
     through these so that the guard checker sees them on pattern variables *)
  Context {A : Type}.
  Variable f : elem -> A.

  Fixpoint map_matching (pred : str -> bool) (l : list (str * elem)) : list A :=
    match l with
    | [] => []
    | (p, e) :: r => if pred p then f e :: map_matching pred r else map_matching pred r
    end.

  (* {prop.source: prop for prop in props.values()}.get(key): the LAST match wins *)
  Fixpoint find_by_source (key : str) (ps : list (str * prop elem)) (acc : option (str * bool * A))
    : option (str * bool * A) :=
    match ps with
    | [] => acc
    | (name, p) :: r =>
      if str_eqb (p_source p) key
      then find_by_source key r (Some (name, p_required p, f (p_elem p)))
      else find_by_source key r acc
    end.

  Definition map_matching_o (pred : str -> bool) (o : option (list (str * elem))) : list A :=
    match o with Some l => map_matching pred l | None => [] end.
  Definition find_by_source_o (key : str) (o : option (list (str * prop elem))) : option (str * bool * A) :=
    match o with Some l => find_by_source key l None | None => None end.

  Definition on_addl (a : addl elem) (dflt_true dflt_false : A) : A :=
    match a with
    | AddBool true => dflt_true
    | AddBool false => dflt_false
    | AddElem e => f e
    end.

  Fixpoint map_elems (l : list elem) : list A :=
    match l with [] => [] | e :: r => f e :: map_elems r end.

  Definition on_opt (o : option elem) (d : A) : A := match o with Some e => f e | None => d end.
End Combinators.

(* Contains: some item is accepted (f = the element applied to an item) *)
Fixpoint contains_loop (f : json -> outcome) (xs : list json) : vres :=
  match xs with
  | [] => VRej
  | x :: r => match f x with
              | Ok _ => VPass
              | Rej => contains_loop f r
              | Crash ex => VCrash ex
              end
  end.
(* PropertyNames: every key, as a string, is accepted *)
Fixpoint pnames_loop (f : json -> outcome) (xs : list (str * json)) : vres :=
  match xs with
  | [] => VPass
  | (key, _) :: r => match f (JStr key) with
                     | Ok _ => pnames_loop f r
                     | Rej => vand VRej (pnames_loop f r)
                     | Crash ex => VCrash ex
                     end
  end.

Section Build.
  Variable O : oracles.

  (* non-recursive part of the keyword validators of an Element-like instance *)
  Definition scalar_validators (k : kwds elem) (v : json) : vres :=
    let n := guard_num v in
    let slen := match v with JStr s => Some (len_num s) | _ => None end in
    let alen := match v with JArr l => Some (len_num l) | _ => None end in
    let olen := match v with JObj l => Some (len_num l) | _ => None end in
    vall [
      vb (const_ok (k_const k) v);
      vb (enum_ok (k_enum k) v);
      vb (thr OpLt n (k_minimum k));
      vb (thr OpGt n (k_maximum k));
      vb (thr OpLe n (k_exclusiveMinimum k));
      vb (thr OpGe n (k_exclusiveMaximum k));
      multiple_ok (k_multipleOf k) v;
      vb (thr OpLt slen (k_minLength k));
      vb (thr OpGt slen (k_maxLength k));
      vb (match k_pattern k, v with Some p, JStr s => re_search O p s | _, _ => true end);
      vb (match k_format k, v with
          | Some f, JStr s => match fmt O f with Some chk => chk s | None => true end
          | _, _ => true end);
      vb (thr OpLt alen (k_minItems k));
      vb (thr OpGt alen (k_maxItems k));
      vb (match v with JArr l => if k_uniqueItems k then unique_items l else true | _ => true end);
      vb (match v, k_items k with
          | JArr l, Some (ItMany its) =>
            (Nat.leb (length l) (length its)) || addl_truthy (k_additionalItems k)
          | _, _ => true end);
      vb (thr OpLt olen (k_minProperties k));
      vb (thr OpGt olen (k_maxProperties k));
      vb (match v with
          | JObj kvs => forallb (fun r => has_key r kvs) (required_names k)
          | _ => true end)
    ].

  Section Helpers.
  Variable B : elem -> option json -> outcome.
    (* Properties.__getitem__(key) applied to a member value *)
  Definition member (k : kwds elem) (key : str) (mv : option json) : (str * outcome) :=
      let pats := map_matching_o (fun e' => B e' mv) (fun p => re_search O p key) (k_patternProperties k) in
      let decl := find_by_source_o (fun e' => B e' mv) key (k_properties k) in
      match decl, pats with
      | None, [] =>
        (key, on_addl (fun e' => B e' mv) (k_additionalProperties k)
                (match mv with Some x => Ok (build_any x) | None => Ok RNotPassed end)
                (match mv with Some _ => Rej | None => Ok RNotPassed end))
      | None, [o] => (key, o)
      | None, os => (key, match mv with None => Ok RNotPassed | Some _ => attempt MAll os end)
      | Some (name, _, o), [] => (name, o)
      | Some (name, _, o), os =>
        (name, match mv with None => Ok RNotPassed | Some _ => attempt MAll (o :: os) end)
      end.
    (* `key in properties`: self[key].element != Nothing() *)
  Definition declared (k : kwds elem) (key : str) : bool :=
      let pats := map_matching_o (fun _ => tt) (fun p => re_search O p key) (k_patternProperties k) in
      let decl := find_by_source_o is_nothing key (k_properties k) in
      match decl, pats with
      | None, [] => addl_truthy (k_additionalProperties k)
      | None, [_] =>
        negb (match map_matching_o is_nothing (fun p => re_search O p key) (k_patternProperties k) with
              | [b] => b | _ => false end)
      | None, _ => true                           (* a fresh AllOf is never Nothing() *)
      | Some (_, _, isn), [] => negb isn
      | Some _, _ => true
      end.
    (* Dependencies, in the order of the dict *)
  Fixpoint deps_loop (v : json) (kvs : list (str * json)) (ds : list (str * dep_t elem)) : vres :=
    match ds with
    | [] => VPass
    | (key, d) :: r =>
      if has_key key kvs then
        match d with
        | DepNames names => vand (vb (forallb (fun n => has_key n kvs) names)) (deps_loop v kvs r)
        | DepElem de => match B de (Some v) with
                        | Ok _ => deps_loop v kvs r
                        | Rej => vand VRej (deps_loop v kvs r)
                        | Crash ex => VCrash ex
                        end
        end
      else deps_loop v kvs r
    end.
    (* validators that recurse into sub-elements *)
  Definition deep_validators (k : kwds elem) (v : json) : vres :=
      vall [
        (* Contains *)
        match v, k_contains k with
        | JArr l, Some c => contains_loop (fun x => B c (Some x)) l
        | _, _ => VPass
        end;
        (* AdditionalProperties validator *)
        match v with
        | JObj kvs =>
          if addl_truthy (k_additionalProperties k) then VPass
          else vb (forallb (fun kv => declared k (fst kv)) kvs)
        | _ => VPass
        end;
        (* PropertyNames *)
        match v, k_propertyNames k with
        | JObj kvs, Some pn => pnames_loop (fun x => B pn (Some x)) kvs
        | _, _ => VPass
        end;
        (* Dependencies *)
        match v, k_dependencies k with
        | JObj kvs, Some deps => deps_loop v kvs deps
        | _, _ => VPass
        end
      ].
    (* Properties.__call__(value): placeholders for declared names, then every member *)
  Definition build_members (k : kwds elem) (kvs : list (str * json)) : vres * list (str * rv) :=
      (* keyed by the JSON name (source) since fix 6ad4bca; `prop.source or prop.name` *)
      let placeholders := map (fun np => (match p_source (snd np) with [] => fst np | s => s end, @None json))
                              (match k_properties k with Some l => l | None => [] end) in
      let merged := dict_merge (dict_of_pairs placeholders)
                               (map (fun kv => (fst kv, Some (snd kv))) kvs) in
      let '(s, rs) := collect (map (fun kv => member k (fst kv) (snd kv)) merged) in
      (s, dict_of_pairs rs).
    (* tuple items: item i by schema i, the rest by additionalItems *)
  Fixpoint tuple_outs (rest : json -> outcome) (its' : list elem) (xs : list json) {struct its'} : list (unit * outcome) :=
    match its' with
    | ie :: ir =>
      match xs with
      | [] => []
      | x :: xr => (tt, B ie (Some x)) :: tuple_outs rest ir xr
      end
    | [] => map (fun x => (tt, rest x)) xs
    end.
    (* Items.__call__(value) *)
  Definition build_items (k : kwds elem) (l : list json) : vres * list rv :=
      let outs :=
        match k_items k with
        | None => map (fun x => (tt, Ok (build_any x))) l
        | Some (ItOne ie) => map (fun x => (tt, B ie (Some x))) l
        | Some (ItMany its) =>
          tuple_outs (fun x => on_addl (fun e' => B e' (Some x)) (k_additionalItems k) (Ok (build_any x)) Rej) its l
        end in
      let '(s, rs) := collect outs in (s, map snd rs).
  End Helpers.

  Fixpoint build (e : elem) (ov : option json) {struct e} : outcome :=
    match e with
    | ENothing => match ov with None => Ok RNotPassed | Some _ => Rej end
    | EK c k =>
      with_default (k_default k) ov (fun v =>
        if negb (type_ok c v) then Rej else
        match vand (scalar_validators k v) (deep_validators build k v) with
        | VCrash x => Crash x
        | VRej => Rej
        | VPass =>
          match c, v with
          | CNumber, JInt z =>
            match py_float_of_int z with PVal f => Ok (RFlt f) | PExn x => Crash x end
          | CNumber, _ => Ok (rv_of_json v)
          | _, JArr l =>
            match build_items build k l with
            | (VPass, rs) => Ok (RList rs)
            | (VRej, _) => Rej
            | (VCrash x, _) => Crash x
            end
          | _, JObj kvs =>
            match build_members build k kvs with
            | (VPass, rs) => Ok (RAnon rs)
            | (VRej, _) => Rej
            | (VCrash x, _) => Crash x
            end
          | _, _ => Ok (rv_of_json v)
          end
        end)
    | ENot ne d =>
      with_default d ov (fun v =>
        match build ne (Some v) with
        | Ok _ => Rej
        | Rej => Ok (rv_of_json v)
        | Crash x => Crash x
        end)
    | EComp m es d =>
      with_default d ov (fun v => attempt m (map_elems (fun e' => build e' (Some v)) es))
    | EObj name _ k =>
      with_default (k_default k) ov (fun v =>
        match v with
        | JObj kvs =>
          (* ObjectMeta.validators: only the object keywords, const and enum *)
          let olen := Some (len_num kvs) in
          match vand (vall [
                        vb (forallb (fun r => has_key r kvs) (required_names k));
                        vb (thr OpLt olen (k_minProperties k));
                        vb (thr OpGt olen (k_maxProperties k));
                        vb (const_ok (k_const k) v);
                        vb (enum_ok (k_enum k) v) ])
                     (deep_validators build (mkK None None None None (AddBool true) None None false None
                                           None None None None None None None None None None
                                           (k_properties k) (k_patternProperties k)
                                           (k_additionalProperties k) None None
                                           (k_propertyNames k) (k_dependencies k) None) v) with
          | VCrash x => Crash x
          | VRej => Rej
          | VPass =>
            match build_members build k kvs with
            | (VPass, rs) => Ok (RInst name rs)
            | (VRej, _) => Rej
            | (VCrash x, _) => Crash x
            end
          end
        | _ => Rej
        end)
    end.

  Definition accepts (e : elem) (v : json) : bool := is_ok (build e (Some v)).
End Build.
