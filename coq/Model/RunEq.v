(* RunEq.v — element equality of the model vs the implementation, on pairs. *)
From Statham.Model Require Import Str Json Elem Equality EqFrag ClsFrag.
(* case: a, b, implementation's (a == b), (b == a) *)
Definition run_eq_case (c : elem * elem * bool * bool) : list nat :=
  match c with (a, b, iab, iba) =>
    (if Bool.eqb (elem_eq a b) iab then [] else [1%nat]) ++
    (if Bool.eqb (elem_eq b a) iba then [] else [2%nat]) ++
    (* 9: an equal pair to which C17_equal_same_verdict applies (EqFrag.goodb on both) *)
    (if elem_eq a b && goodb 200 a && goodb 200 b then [9%nat] else []) ++
    (* 10: an equal pair with object classes to which C17_equal_same_verdict_classes applies (ClsFrag.goodcb on both) *)
    (if elem_eq a b && goodcb 200 a && goodcb 200 b then [10%nat] else [])
  end.
