(* C01Element.v — one element built from one schema node: given that its sub-elements decide
   their sub-schemas, the element decides the node (scalar + items + object clauses). *)
From Coq Require String. Import String.StringSyntax.
From Coq Require Import Lia Btauto.
From Statham.Model Require Import Str Json Elem PyNum Validate Tables Parser Spec6.
From Statham.Proofs Require Import StrFacts JsonEqProof MetaProof DefaultsProof ValidateFacts ParserFacts
     C01Vm C01Scalar C01Items C01Object C01Deep C01Plain.
Local Open Scope string_scope.
Arguments s_ : simpl never.

Lemma forallb_ext {A} (f g : A -> bool) l : (forall x, f x = g x) -> forallb f l = forallb g l.
Proof. intros H. induction l; simpl; [reflexivity|]. now rewrite H, IHl. Qed.

Section Gen.
  Variable O : oracles.
  Notation B := (build O).

  Lemma build_ek_om c k v b_s b_d b_c :
    vm (scalar_validators O k v) b_s -> vm (deep_validators O B k v) b_d ->
    (match v with
     | JArr l => vm (fst (build_items B k l)) b_c
     | JObj m => vm (fst (build_members O B k m)) b_c
     | _ => b_c = true end) ->
    om (B (EK c k) (Some v)) (type_ok c v && b_s && b_d && b_c).
  Proof.
    intros Hs Hd Hc. cbn [build with_default].
    destruct (type_ok c v) eqn:Et; cbn [negb andb]; [|reflexivity].
    pose proof (vm_vand _ _ _ _ Hs Hd) as Hsd.
    destruct (vand (scalar_validators O k v) (deep_validators O B k v)); simpl in Hsd.
    - rewrite Hsd. cbn [andb].
      destruct c, v; try discriminate Et; subst; try reflexivity;
        try (destruct (py_float_of_int _); reflexivity);
        try (destruct (build_items B k _) as [[| |x] rs]; simpl in Hc; subst; reflexivity);
        try (destruct (build_members O B k _) as [[| |x] rs]; simpl in Hc; subst; reflexivity).
    - rewrite Hsd. reflexivity.
    - exact I.
  Qed.

  Lemma build_set_default c k d v : B (EK c (set_default k d)) (Some v) = B (EK c k) (Some v).
  Proof. reflexivity. Qed.

  Lemma scalar_k0 v : scalar_validators O k0 v = VPass.
  Proof. destruct v; reflexivity. Qed.

  Lemma element_ok v : exists r, B EElement (Some v) = Ok r.
  Proof.
    unfold EElement. cbn [build with_default k0 k_default type_ok negb].
    rewrite scalar_k0.
    assert (Hd : deep_validators O B k0 v = VPass) by (destruct v; reflexivity).
    rewrite Hd. cbn [vand].
    destruct v as [| | | | |l|l]; eauto.
    - rewrite build_items_none by reflexivity. eauto.
    - pose proof (build_members_plain O B k0 l eq_refl eq_refl eq_refl) as H.
      destruct (build_members O B k0 l) as [s rs]. simpl in H. subst s. eauto.
  Qed.
End Gen.

Section Elem.
  Variable O : oracles.
  Variable w : wmode.
  Notation F := (v6 O w).
  Notation B := (build O).
  Notation sim := (sim O w).

  Lemma sim_element S0 : (forall v, F S0 v = true) -> sim EElement S0.
  Proof. intros H v _. destruct (element_ok O v) as (r & ->). simpl. auto. Qed.

  Variable kvs : list (str * json).
  Variables (props : option (list (str * prop elem))) (items : option (items_t elem))
            (pats : option (list (str * elem))) (pnames contains : option elem)
            (deps : option (list (str * dep_t elem))) (addp addi : addl elem).
  Let K := kw_record kvs props items pats pnames contains deps addp addi.

  Hypothesis Hconst : lit_clean kvs "const".
  Hypothesis Henum : lit_clean kvs "enum".
  Hypothesis Hitems : sim_items O w items (lookup (s_ "items") kvs).
  Hypothesis Haddi : sim_addl O w addi (lookup (s_ "additionalItems") kvs).
  Hypothesis Hcontains : sim_opt O w contains (lookup (s_ "contains") kvs).
  Hypothesis Hpnames : sim_opt O w pnames (lookup (s_ "propertyNames") kvs).
  Hypothesis Hprops : props_rel O w kvs props.
  Hypothesis Hpats : pats_rel O w kvs pats.
  Hypothesis Haddp : sim_addl O w addp (lookup (s_ "additionalProperties") kvs).
  Hypothesis Hdeps : deps_rel O w kvs deps.
  Hypothesis Hreq : forall r, In r (match props with Some ps => props_required ps | None => [] end) ->
                              In r (match lookup (s_ "required") kvs with Some j => jstr_list j | None => [] end).

  (* ---- the spec's object clause in the terms of C01Object / C01Deep ---- *)
  Definition req_spec (m : list (str * json)) : bool :=
    match lookup (s_ "required") kvs with
    | Some (JArr names) => forallb (fun n => match n with JStr name => has_key name m | _ => true end) names
    | _ => true
    end.
  Definition deps_spec (v : json) (m : list (str * json)) : bool :=
    match lookup (s_ "dependencies") kvs with
    | Some (JObj dd) => forallb (fun kd => dep_entry_b O w dd v m (fst kd)) dd
    | _ => true end.
  Definition pnames_spec (m : list (str * json)) : bool :=
    match lookup (s_ "propertyNames") kvs with
    | Some Sn => forallb (fun kx => F Sn (JStr (fst kx))) m | None => true end.
  Definition contains_spec (xs : list json) : bool :=
    match lookup (s_ "contains") kvs with Some Sc => existsb (F Sc) xs | None => true end.

  Lemma cl_object_unfold (Hw : forall name, waived w kvs name = false) m :
    cl_object O w F kvs (JObj m) =
    req_spec m && forallb (fun kx => member_b O w kvs (fst kx) (snd kx)) m
    && deps_spec (JObj m) m && pnames_spec m.
  Proof.
    unfold cl_object. f_equal; [f_equal; [f_equal|]|].
    - unfold req_spec. destruct (lookup (s_ "required") kvs) as [[| | | | |names|]|]; try reflexivity.
      apply forallb_ext. intros [| | | |name| |]; try reflexivity. rewrite Hw. apply orb_false_r.
    - apply forallb_ext. intros [key x]. cbn [fst snd]. apply (spec_member O w kvs key x).
    - rewrite wkey_lookup. unfold deps_spec. red in Hdeps.
      destruct (lookup (s_ "dependencies") kvs) as [[| | | | | |dd]|]; try reflexivity.
      apply spec_deps_go. apply Hdeps.
    - rewrite wkey_lookup. reflexivity.
  Qed.

  Lemma req_eq m : forallb (fun r => has_key r m) (required_names K) = req_spec m.
  Proof.
    unfold required_names, req_spec, K, kw_record. cbn [k_required k_properties].
    rewrite forallb_app.
    assert (Hsub : forall l1 l2 : list str, incl l2 l1 ->
              forallb (fun r => has_key r m) l1 && forallb (fun r => has_key r m) l2 = forallb (fun r => has_key r m) l1).
    { intros l1 l2 Hi. destruct (forallb (fun r => has_key r m) l1) eqn:E; [|reflexivity].
      cbn [andb]. rewrite forallb_forall in *. intros x Hx. apply E. now apply Hi. }
    pose proof Hreq as Hq. revert Hq.
    destruct (lookup (s_ "required") kvs) as [j|]; intros Hq.
    - rewrite Hsub by exact Hq. destruct j; try reflexivity. apply forallb_jstr_list.
    - rewrite Hsub by exact Hq. reflexivity.
  Qed.

  (* ---- deep validators ---- *)
  Definition addpv_b (k : kwds elem) (v : json) : bool :=
    match v with
    | JObj m => if addl_truthy (k_additionalProperties k) then true
                else forallb (fun kv => declared O k (fst kv)) m
    | _ => true end.

  Definition deep_list (k : kwds elem) (v : json) : list bool :=
    [ match v with JArr xs => contains_spec xs | _ => true end;
      addpv_b k v;
      match v with JObj m => pnames_spec m | _ => true end;
      match v with JObj m => deps_spec v m | _ => true end ].

  Lemma deep_vm k v : jwf v ->
    k_contains k = contains -> k_propertyNames k = pnames -> k_dependencies k = deps ->
    vm (deep_validators O B k v) (forallb (fun b => b) (deep_list k v)).
  Proof.
    intros Hv E1 E2 E3. unfold deep_validators, deep_list. rewrite E1, E2, E3. apply vall_vm.
    constructor; [|constructor; [|constructor; [|constructor; [|constructor]]]].
    - destruct v as [| | | | |l|l]; try exact vm_pass.
      pose proof (contains_part O w kvs contains l Hcontains (proj1 (jwf_arr l) Hv)) as H.
      unfold contains_spec. destruct contains; exact H.
    - unfold addpv_b. destruct v; try exact vm_pass.
      destruct (addl_truthy _); [exact vm_pass|apply vm_vb].
    - destruct v as [| | | | |l|l]; try exact vm_pass; try (destruct pnames; exact vm_pass).
      pose proof (pnames_part O w kvs pnames l Hpnames) as H.
      unfold pnames_spec. destruct pnames; exact H.
    - destruct v as [| | | | |l|l]; try exact vm_pass; try (destruct deps; exact vm_pass).
      pose proof (deps_vm O w kvs deps (JObj l) l Hdeps Hv) as H.
      unfold deps_spec. destruct deps; exact H.
  Qed.

  Lemma addpv_implied k m : jwf (JObj m) ->
    k_properties k = props -> k_patternProperties k = pats -> k_additionalProperties k = addp ->
    forallb (fun kx => member_b O w kvs (fst kx) (snd kx)) m = true -> addpv_b k (JObj m) = true.
  Proof.
    intros Hm E1 E2 E3 Hb. unfold addpv_b. rewrite E3.
    destruct (addl_truthy addp) eqn:Et; [reflexivity|].
    apply forallb_forall. intros [key x] Hin. cbn [fst].
    apply jwf_obj in Hm as [_ Hvals]. rewrite Forall_forall in Hvals.
    rewrite forallb_forall in Hb.
    eapply declared_implied with (x := x); eauto; [exact (Hvals _ Hin)|exact (Hb _ Hin)].
  Qed.

  (* ---- the untyped element ---- *)
  Theorem untyped_om (Hw : forall name, waived w kvs name = false) v : jwf v ->
    om (B (EK CElement K) (Some v)) (cl_scalar O kvs v && cl_items F kvs v && cl_object O w F kvs v).
  Proof.
    intros Hv.
    set (b_c := match v with
                | JArr xs => items_part O w kvs xs
                | JObj m => forallb (fun kx => member_b O w kvs (fst kx) (snd kx)) m
                | _ => true end).
    eapply om_ext.
    - apply (build_ek_om O CElement K v _ _ b_c (sv_vm O K v) (deep_vm K v Hv eq_refl eq_refl eq_refl)).
      unfold b_c. destruct v as [| | | | |l|l]; try reflexivity.
      + apply (items_vm O w kvs items addi Hitems Haddi K l eq_refl eq_refl). now apply jwf_arr.
      + apply (members_vm O w kvs props pats addp Hprops Hpats Haddp K eq_refl eq_refl eq_refl l Hv).
    - cbn [type_ok andb]. unfold K at 1. rewrite (sv_untyped O kvs props items pats pnames contains deps addp addi Hconst Henum v).
      fold K. rewrite (cl_items_unfold O w kvs v).
      unfold deep_list, b_c. cbn [forallb]. rewrite !andb_true_r.
      destruct v as [| | | | |l|l]; try (cbn [addi_b req_b addpv_b cl_object]; rewrite ?andb_true_r; reflexivity).
      + (* array *)
        unfold addi_b, req_b, addpv_b. cbn [cl_object]. rewrite !andb_true_r.
        fold (contains_spec l).
        destruct (items_part O w kvs l) eqn:Ei.
        * rewrite (addi_implied O w kvs items addi Hitems Haddi l (proj1 (jwf_arr l) Hv) Ei). btauto.
        * btauto.
      + (* object *)
        rewrite (cl_object_unfold Hw). unfold addi_b, req_b. fold K. rewrite req_eq. rewrite !andb_true_r.
        destruct (forallb (fun kx => member_b O w kvs (fst kx) (snd kx)) l) eqn:Em.
        * rewrite (addpv_implied K l Hv eq_refl eq_refl eq_refl Em). btauto.
        * btauto.
  Qed.

  (* ---- String / Integer / Number / Boolean / Null ---- *)
  Theorem typed_scalar_om c v : c <> CElement -> c <> CArray ->
    om (B (EK c (filter_kw c K)) (Some v)) (type_ok c v && cl_scalar O kvs v).
  Proof.
    intros Hc1 Hc2.
    destruct (type_ok c v) eqn:Et.
    - eapply om_ext.
      + apply (build_ek_om O c (filter_kw c K) v _ true true (sv_vm O (filter_kw c K) v)).
        * destruct c, v; try discriminate Et; try congruence; exact vm_pass.
        * destruct c, v; try discriminate Et; try congruence; reflexivity.
      + rewrite Et. unfold K. rewrite (sv_typed O kvs props items pats pnames contains deps addp addi Hconst Henum c v Hc1 Et).
        destruct c; try congruence; rewrite !andb_true_r; reflexivity.
    - cbn [build with_default]. rewrite Et. reflexivity.
  Qed.

  Lemma scalar_value_clauses c v : c <> CElement -> c <> CArray -> type_ok c v = true ->
    cl_items F kvs v = true /\ cl_object O w F kvs v = true.
  Proof. intros H1 H2 Ht. destruct c, v; try discriminate Ht; try congruence; split; reflexivity. Qed.

  (* ---- Array ---- *)
  Lemma arr_record_fields :
    k_contains (arr_record K) = contains /\ k_additionalItems (arr_record K) = addi /\
    k_items (arr_record K) = match items with Some it => Some it | None => Some (ItOne EElement) end.
  Proof.
    unfold arr_record.
    assert (E : k_items (filter_kw CArray K) = items) by reflexivity.
    rewrite E. destruct items; repeat split; reflexivity.
  Qed.

  Lemma arr_sv v : sv_list O (arr_record K) v = sv_list O (filter_kw CArray K) v.
  Proof.
    unfold arr_record.
    assert (E : k_items (filter_kw CArray K) = items) by reflexivity.
    rewrite E. destruct items as [it|] eqn:Ei; [reflexivity|].
    unfold sv_list. rewrite E. destruct v; reflexivity.
  Qed.

  Lemma items_default_vm k xs : k_items k = Some (ItOne EElement) -> vm (fst (build_items B k xs)) true.
  Proof.
    intros E. unfold build_items. rewrite E.
    pose proof (collect_vm_map (fun x => (tt, B EElement (Some x))) (fun _ => true) xs) as Hc.
    destruct (collect _) as [s rs]. eapply vm_ext; [apply Hc|].
    - intros x _. destruct (element_ok O x) as (r & ->). reflexivity.
    - clear. induction xs; simpl; auto.
  Qed.

  Theorem array_om v : jwf v ->
    om (B (EK CArray (arr_record K)) (Some v)) (type_ok CArray v && cl_scalar O kvs v && cl_items F kvs v).
  Proof.
    intros Hv. destruct arr_record_fields as (Ec & Ea & Ei).
    destruct v as [| | | | |xs|m]; try (cbn [build with_default type_ok negb]; reflexivity).
    eapply om_ext.
    - apply (build_ek_om O CArray (arr_record K) (JArr xs) _ (contains_spec xs && true) (items_part O w kvs xs)
                         (sv_vm O (arr_record K) (JArr xs))).
      + unfold deep_validators. rewrite Ec. cbn [vall fold_right].
        apply vm_vand; [|exact vm_pass].
        pose proof (contains_part O w kvs contains xs Hcontains (proj1 (jwf_arr xs) Hv)) as H.
        unfold contains_spec. destruct contains; exact H.
      + destruct items as [it|] eqn:Eit.
        * apply (items_vm O w kvs (Some it) addi Hitems Haddi (arr_record K) xs Ei Ea). now apply jwf_arr.
        * red in Hitems. unfold items_part.
          destruct (lookup (s_ "items") kvs) as [Si|]; [destruct Si; destruct Hitems as (? & ? & _); discriminate|].
          apply items_default_vm. exact Ei.
    - rewrite arr_sv. unfold K.
      rewrite (sv_typed O kvs props items pats pnames contains deps addp addi Hconst Henum CArray (JArr xs)) by (congruence || reflexivity).
      rewrite (cl_items_unfold O w kvs (JArr xs)). fold (contains_spec xs). cbn [type_ok andb].
      unfold addi_b.
      destruct (items_part O w kvs xs) eqn:Ep.
      + rewrite (addi_implied O w kvs items addi Hitems Haddi xs (proj1 (jwf_arr xs) Hv) Ep). btauto.
      + btauto.
  Qed.

  (* ---- parser dispatch: typed_single / finish_plain ---- *)
  Variable cfg : pcfg.

  Definition rest_b (v : json) : bool := cl_scalar O kvs v && cl_items F kvs v && cl_object O w F kvs v.

  Lemma type_mapping_ok t c : lookup t type_mapping = Some c ->
    str_eqb t (s_ "array") = false ->
    c <> CElement /\ c <> CArray /\ forall v, type_ok c v = has_type t v.
  Proof.
    unfold type_mapping. cbn [lookup]. intros H Ha. rewrite Ha in H.
    repeat match type of H with
           | (if str_eqb t ?s0 then _ else _) = _ => destruct (str_eqb_spec t s0) as [->|?]
           end; inversion H; subst;
      (split; [discriminate|split; [discriminate|intros v; destruct v; vm_compute; reflexivity]]).
  Qed.

  Lemma has_type_array v : type_ok CArray v = has_type (s_ "array") v.
  Proof. destruct v; vm_compute; reflexivity. Qed.

  Lemma filter_default_irrel c d v :
    B (EK c (filter_kw c (set_default K d))) (Some v) = B (EK c (filter_kw c K)) (Some v).
  Proof. reflexivity. Qed.

  Lemma arr_default_irrel d v :
    B (EK CArray (arr_record (set_default K d))) (Some v) = B (EK CArray (arr_record K)) (Some v).
  Proof.
    unfold arr_record.
    change (k_items (filter_kw CArray (set_default K d))) with items.
    change (k_items (filter_kw CArray K)) with items.
    destruct items; reflexivity.
  Qed.

  Definition Kvariant (K' : kwds elem) : Prop := K' = K \/ exists d, K' = set_default K d.

  Lemma typed_single_om t S0 K' st e st' : Kvariant K' ->
    typed_single cfg t S0 K' st = POk (e, st') -> str_eqb t (s_ "object") = false ->
    forall v, jwf v -> om (B e (Some v)) (has_type t v && rest_b v).
  Proof.
    intros HK H Ho v Hv. unfold typed_single in H. rewrite Ho in H.
    destruct (has_key (s_ "self") S0); [exfalso; eapply fail_inv; eauto|].
    destruct (str_eqb t (s_ "array")) eqn:Ea.
    - apply ret_inv in H as [<- _]. apply str_eqb_eq in Ea. subst t.
      assert (E : B (EK CArray (arr_record K')) (Some v) = B (EK CArray (arr_record K)) (Some v)).
      { destruct HK as [->|(d & ->)]; [reflexivity|apply arr_default_irrel]. }
      rewrite E. eapply om_ext; [apply (array_om v Hv)|].
      rewrite <- has_type_array. unfold rest_b.
      destruct v; try reflexivity. cbn [type_ok cl_object]. rewrite !andb_true_r. now rewrite !andb_assoc.
    - destruct (lookup t type_mapping) as [c|] eqn:El; [|exfalso; eapply fail_inv; eauto].
      apply ret_inv in H as [<- _].
      destruct (type_mapping_ok t c El Ea) as (Hc1 & Hc2 & Ht).
      assert (E : B (EK c (filter_kw c K')) (Some v) = B (EK c (filter_kw c K)) (Some v)).
      { destruct HK as [->|(d & ->)]; [reflexivity|apply filter_default_irrel]. }
      rewrite E. eapply om_ext; [apply (typed_scalar_om c v Hc1 Hc2)|].
      rewrite <- Ht. unfold rest_b. destruct (type_ok c v) eqn:Et; [|reflexivity].
      destruct (scalar_value_clauses c v Hc1 Hc2 Et) as [-> ->]. cbn [andb]. now rewrite !andb_true_r.
  Qed.

  Lemma any_types_b (ts : list json) v (r : bool) :
    existsb (fun b => b) (map (fun tj => match tj with JStr t => has_type t v && r | _ => false end) ts) =
    existsb (fun t => match t with JStr x => has_type x v | _ => false end) ts && r.
  Proof.
    induction ts as [|tj ts IH]; [reflexivity|]. cbn [map existsb]. rewrite IH.
    destruct tj; try reflexivity. destruct (has_type s v), r; simpl; try reflexivity;
      destruct (existsb _ ts); reflexivity.
  Qed.

  Lemma map_elems_map {A} (f : elem -> A) es : map_elems f es = map f es.
  Proof. induction es; simpl; congruence. Qed.

  Lemma multi_go_om S' K' : Kvariant K' -> forall ts,
    Forall (fun t => t <> JStr (s_ "object")) ts -> forall st es st',
    (fix go (l : list json) : M (list elem) :=
       match l with
       | [] => ret []
       | JStr t :: r => do e <- typed_single cfg t S' K';; do es <- go r;; ret (e :: es)
       | _ :: _ => fail PCrash
       end) ts st = POk (es, st') ->
    forall v, jwf v ->
    Forall2 om (map (fun e' => B e' (Some v)) es)
               (map (fun tj => match tj with JStr t => has_type t v && rest_b v | _ => false end) ts).
  Proof.
    intros HK. induction 1 as [|tj ts Ht Hts IH]; intros st es st' H v Hv.
    - apply ret_inv in H as [<- _]. constructor.
    - destruct tj; try (exfalso; eapply fail_inv; eauto; fail).
      binv H. binv H. apply ret_inv in H as [<- _]. cbn [map]. constructor.
      + eapply typed_single_om; eauto. apply str_eqb_neq. intros ->. now apply Ht.
      + eapply IH; eauto.
  Qed.

  Lemma finish_plain_om (Hw : forall name, waived w kvs name = false) S0 K' st e st' : Kvariant K' ->
    lookup (s_ "type") S0 = lookup (s_ "type") kvs -> type_not_object kvs ->
    finish_plain cfg S0 K' st = POk (e, st') ->
    forall v, jwf v -> om (B e (Some v)) (cl_type kvs v && rest_b v).
  Proof.
    intros HK Et Hno H v Hv. unfold finish_plain in H. rewrite Et in H.
    unfold cl_type. red in Hno.
    destruct (lookup (s_ "type") kvs) as [Sty|].
    2:{ destruct (has_key (s_ "self") S0); [exfalso; eapply fail_inv; eauto|].
        apply ret_inv in H as [<- _]. cbn [andb].
        assert (E : B (EK CElement K') (Some v) = B (EK CElement K) (Some v)).
        { destruct HK as [->|(d & ->)]; [reflexivity|apply build_set_default]. }
        rewrite E. apply (untyped_om Hw v Hv). }
    destruct Sty as [| | | |t|ts|]; try (exfalso; eapply fail_inv; eauto; fail).
    - eapply typed_single_om; eauto. now apply str_eqb_neq.
    - assert (Hgen : forall st0 e0 st0',
                (do es <- (fix go (l : list json) : M (list elem) :=
                    match l with
                    | [] => ret []
                    | JStr t :: r => do e <- typed_single cfg t (remove_key (s_ "default") S0) (set_default K' None);; do es <- go r;; ret (e :: es)
                    | _ :: _ => fail PCrash
                    end) ts;;
                 match es with
                 | [] => fail PCrash
                 | _ => ret (EComp MAny es (k_default K'))
                 end) st0 = POk (e0, st0') ->
                om (B e0 (Some v))
                   (existsb (fun t => match t with JStr x => has_type x v | _ => false end) ts && rest_b v)).
      { intros st0 e0 st0' H0. binv H0.
        assert (HK2 : Kvariant (set_default K' None)).
        { right. destruct HK as [->|(d & ->)]; eexists; reflexivity. }
        pose proof (multi_go_om _ _ HK2 ts Hno _ _ _ Hb v Hv) as Hom.
        destruct a as [|a1 ar]; [exfalso; eapply fail_inv; eauto|].
        apply ret_inv in H0 as [<- _]. cbn [build with_default]. rewrite map_elems_map.
        rewrite <- any_types_b. apply attempt_any. exact Hom. }
      destruct ts as [|[| | | |t| |] [|t2 tr]]; try (eapply Hgen; exact H).
      cbn [existsb]. rewrite orb_false_r.
      eapply typed_single_om; eauto. apply str_eqb_neq. intros ->. inversion Hno; subst. congruence.
  Qed.

  (* ---- object classes (ObjectMeta instances) ---- *)
  Definition reqs : list str :=
    match lookup (s_ "required") kvs with Some j => jstr_list j | None => [] end.
  Definition props0 : list (str * prop elem) := match props with Some l => l | None => [] end.

  (* what the class built by _parse_object holds when every required name is declared *)
  Definition kexp : kwds elem :=
    mkK (k_default K) (k_const K) (k_enum K) None (AddBool true) None None false None
        None None None None None None None None None None
        (Some props0) pats addp (lookup (s_ "minProperties") kvs) (lookup (s_ "maxProperties") kvs)
        pnames deps (k_description K).

  Lemma o_id {A} (p : String.string) (x : option A) :
    (lookup (s_ p) kvs = None -> x = None) -> (if has_key (s_ p) kvs then x else None) = x.
  Proof. unfold has_key. destruct (lookup (s_ p) kvs); auto. intros H. symmetry. auto. Qed.

  Lemma lit_none (p : String.string) : lookup (s_ p) kvs = None ->
    match lookup (s_ p) kvs with Some j => Some (strip_autotitle j) | None => None end = None.
  Proof. intros ->. reflexivity. Qed.

  Hypothesis Hreqdecl : forall r, In r reqs -> has_key (attr cfg r) props0 = true.

  Lemma obj_record_exp : obj_record cfg kvs K = set_default kexp (if has_key (s_ "default") kvs then k_default K else None).
  Proof.
    unfold obj_record. fold reqs.
    change (match k_properties K with Some l => l | None => [] end) with props0.
    assert (Hs : flat_map (fun key => if has_key (attr cfg key) props0 then []
                                       else [(attr cfg key, mkProp EElement true key)]) reqs = []).
    { assert (G : forall l, (forall r, In r l -> has_key (attr cfg r) props0 = true) ->
                  flat_map (fun key => if has_key (attr cfg key) props0 then []
                                       else [(attr cfg key, mkProp EElement true key)]) l = []).
      { induction l as [|r l IH]; intros Hl; [reflexivity|]. cbn [flat_map].
        rewrite (Hl r (or_introl eq_refl)). apply IH. intros; apply Hl; now right. }
      apply G. exact Hreqdecl. }
    rewrite Hs. unfold set_default, kexp.
    cbn [k_default k_const k_enum k_items k_additionalItems k_minItems k_maxItems k_uniqueItems
         k_contains k_minimum k_maximum k_exclusiveMinimum k_exclusiveMaximum k_multipleOf k_format
         k_pattern k_minLength k_maxLength k_required k_properties k_patternProperties
         k_additionalProperties k_minProperties k_maxProperties k_propertyNames k_dependencies
         k_description].
    rewrite (o_id "const" (k_const K)) by (intros E; unfold K, kw_record; cbn [k_const]; now rewrite E).
    rewrite (o_id "enum" (k_enum K)) by (intros E; unfold K, kw_record; cbn [k_enum]; now rewrite E).
    rewrite (o_id "patternProperties" (k_patternProperties K))
      by (intros E; change (k_patternProperties K) with pats; red in Hpats; now rewrite E in Hpats).
    rewrite (o_id "minProperties" (k_minProperties K)) by auto.
    rewrite (o_id "maxProperties" (k_maxProperties K)) by auto.
    rewrite (o_id "propertyNames" (k_propertyNames K))
      by (intros E; change (k_propertyNames K) with pnames; red in Hpnames; now rewrite E in Hpnames).
    rewrite (o_id "dependencies" (k_dependencies K))
      by (intros E; change (k_dependencies K) with deps; red in Hdeps; now rewrite E in Hdeps).
    rewrite (o_id "description" (k_description K)) by (intros E; unfold K, kw_record; cbn [k_description]; now rewrite E).
    reflexivity.
  Qed.

  Lemma props_rel0 : props_rel O w kvs (Some props0).
  Proof.
    red. red in Hprops. unfold props0. destruct props; exact Hprops.
  Qed.

  Lemma deep_vm_obj k m : jwf (JObj m) ->
    k_propertyNames k = pnames -> k_dependencies k = deps ->
    vm (deep_validators O B k (JObj m)) (forallb (fun b => b) (deep_list k (JObj m))).
  Proof.
    intros Hv E2 E3. unfold deep_validators, deep_list. rewrite E2, E3. apply vall_vm.
    constructor; [|constructor; [|constructor; [|constructor; [|constructor]]]].
    - exact vm_pass.
    - unfold addpv_b. destruct (addl_truthy _); [exact vm_pass|apply vm_vb].
    - pose proof (pnames_part O w kvs pnames m Hpnames) as H.
      unfold pnames_spec. destruct pnames; exact H.
    - pose proof (deps_vm O w kvs deps (JObj m) m Hdeps Hv) as H.
      unfold deps_spec. destruct deps; exact H.
  Qed.

  Definition req_specw (m : list (str * json)) : bool :=
    match lookup (s_ "required") kvs with
    | Some (JArr names) =>
      forallb (fun n => match n with JStr name => has_key name m || waived w kvs name | _ => true end) names
    | _ => true
    end.

  Lemma cl_object_unfold_w m :
    cl_object O w F kvs (JObj m) =
    req_specw m && forallb (fun kx => member_b O w kvs (fst kx) (snd kx)) m
    && deps_spec (JObj m) m && pnames_spec m.
  Proof.
    unfold cl_object, req_specw.
    apply (f_equal2 andb); [apply (f_equal2 andb); [apply (f_equal2 andb); [reflexivity|]|]|].
    - apply forallb_ext. intros [key x]. cbn [fst snd]. apply (spec_member O w kvs key x).
    - rewrite wkey_lookup. unfold deps_spec. red in Hdeps.
      destruct (lookup (s_ "dependencies") kvs) as [[| | | | | |dd]|]; try reflexivity.
      apply spec_deps_go. apply Hdeps.
    - rewrite wkey_lookup. reflexivity.
  Qed.

  Lemma In_jstr_list r names : In r (jstr_list (JArr names)) <-> In (JStr r) names.
  Proof.
    unfold jstr_list. rewrite in_flat_map. split.
    - intros (x & Hx & Hr). destruct x; try contradiction. destruct Hr as [<-|[]]. exact Hx.
    - intros H. exists (JStr r). split; [exact H|now left].
  Qed.

  (* the parsed properties, concretely (from parse_props) *)
  Definition props_struct : Prop :=
    match lookup (s_ "properties") kvs with
    | None => props = None
    | Some (JObj pkvs) =>
      NoDup (keys pkvs) /\
      exists es, props = Some (map (fun ke : str * elem =>
                                     (attr cfg (fst ke), mkProp (snd ke) (mem_str (fst ke) reqs) (fst ke))) es) /\
                 Forall2 (fun (ke : str * elem) (kv : str * json) =>
                            fst ke = fst kv /\
                            (In (fst kv) reqs -> (elem_default (snd ke) = None <-> schema_has_default (snd kv) = false)))
                         es pkvs
    | Some _ => False
    end.

  Definition reqs_declared : Prop :=
    forall r, In r reqs -> match lookup (s_ "properties") kvs with
                           | Some (JObj pkvs) => has_key r pkvs = true
                           | _ => False end.

  Lemma req_obj m : w = WCode -> typed_object kvs = true -> props_struct -> reqs_declared ->
    forallb (fun r => has_key r m) (props_required props0) = req_specw m.
  Proof.
    intros Hwc Htyp Hst Hrd. red in Hst. red in Hrd.
    assert (Hwv : forall name, waived w kvs name =
              match lookup (s_ "properties") kvs with
              | Some (JObj pkvs) => match lookup name pkvs with Some Sp => schema_has_default Sp | None => false end
              | _ => false end).
    { intros name. unfold waived. rewrite Hwc, Htyp. reflexivity. }
    unfold req_specw.
    destruct (lookup (s_ "properties") kvs) as [Sp|] eqn:Ep.
    2:{ (* no properties: nothing can be required *)
        unfold props0. rewrite Hst. cbn [props_required filter map forallb].
        destruct (lookup (s_ "required") kvs) as [[| | | | |names|]|] eqn:Er; try reflexivity.
        symmetry. apply forallb_forall. intros n Hn. destruct n; try reflexivity.
        exfalso. apply (Hrd s). unfold reqs. rewrite Er. now apply In_jstr_list. }
    destruct Sp as [| | | | | |pkvs]; try contradiction.
    destruct Hst as (Hnd & es & Eprops & Hes).
    assert (F1 : forall r, In r (props_required props0) ->
                 In r reqs /\ exists Sp, lookup r pkvs = Some Sp /\ schema_has_default Sp = false).
    { intros r Hr. unfold props0 in Hr. rewrite Eprops in Hr. unfold props_required in Hr.
      apply in_map_iff in Hr as ([n p] & <- & Hf). apply filter_In in Hf as [Hin Hc].
      apply in_map_iff in Hin as ([key e] & E & Hin). inversion E; subst. clear E.
      cbn [snd p_source p_required p_elem fst] in *. apply andb_true_iff in Hc as [Hc1 Hc2].
      apply mem_str_In in Hc1. split; [exact Hc1|].
      destruct (Forall2_In_l _ _ _ _ Hes Hin) as ([k2 Sp] & Hy & Ek & Hd). cbn [fst snd] in *. subst k2.
      exists Sp. split; [now apply In_lookup|]. apply (Hd Hc1). destruct (elem_default e); [discriminate|reflexivity]. }
    assert (F2 : forall r Sp, In r reqs -> lookup r pkvs = Some Sp -> schema_has_default Sp = false ->
                 In r (props_required props0)).
    { intros r Sp Hr Hl Hd. apply lookup_In in Hl.
      destruct (Forall2_In_r _ _ _ _ Hes Hl) as ([k2 e] & Hx & Ek & Hde). cbn [fst snd] in *. subst k2.
      unfold props0. rewrite Eprops. unfold props_required. apply in_map_iff.
      exists (attr cfg r, mkProp e (mem_str r reqs) r). split; [reflexivity|].
      apply filter_In. split; [apply in_map_iff; exists (r, e); auto|].
      cbn [snd p_required p_elem]. rewrite (proj2 (mem_str_In r reqs) Hr). cbn [andb].
      rewrite (proj2 (Hde Hr) Hd). reflexivity. }
    destruct (lookup (s_ "required") kvs) as [j|] eqn:Er.
    2:{ (* no required keyword *)
        assert (E : props_required props0 = []).
        { destruct (props_required props0) as [|r l]; [reflexivity|].
          destruct (F1 r (or_introl eq_refl)) as [Hr _]. unfold reqs in Hr. rewrite Er in Hr. contradiction. }
        rewrite E. reflexivity. }
    destruct j as [| | | | |names|];
      try (assert (E : props_required props0 = []);
           [destruct (props_required props0) as [|r l]; [reflexivity|];
            destruct (F1 r (or_introl eq_refl)) as [Hr _]; unfold reqs in Hr; rewrite Er in Hr; contradiction
           |rewrite E; reflexivity]).
    assert (Ereqs : reqs = jstr_list (JArr names)) by (unfold reqs; now rewrite Er).
    apply eq_true_iff_eq. rewrite !forallb_forall. split.
    - intros H n Hn. destruct n as [| | | |name| |]; try reflexivity.
      assert (Hr : In name reqs) by (rewrite Ereqs; now apply In_jstr_list).
      pose proof (Hrd name Hr) as Hdecl. unfold has_key in Hdecl.
      rewrite Hwv. destruct (lookup name pkvs) as [Sp|] eqn:El; [|discriminate].
      destruct (schema_has_default Sp) eqn:Ed; [apply orb_true_r|]. rewrite orb_false_r.
      apply H. eapply F2; eauto.
    - intros H r Hr. destruct (F1 r Hr) as (Hrq & Sp & Hl & Hd).
      assert (Hn : In (JStr r) names) by (apply In_jstr_list; now rewrite <- Ereqs).
      pose proof (H _ Hn) as Hs. cbn beta iota in Hs. rewrite Hwv, Hl, Hd, orb_false_r in Hs. exact Hs.
  Qed.

  Lemma build_obj_om name bases k m b_v b_d b_c :
    vm (vall [ vb (forallb (fun r => has_key r m) (required_names k));
               vb (thr OpLt (Some (len_num m)) (k_minProperties k));
               vb (thr OpGt (Some (len_num m)) (k_maxProperties k));
               vb (const_ok (k_const k) (JObj m));
               vb (enum_ok (k_enum k) (JObj m)) ]) b_v ->
    vm (deep_validators O B (mkK None None None None (AddBool true) None None false None
                                 None None None None None None None None None None
                                 (k_properties k) (k_patternProperties k)
                                 (k_additionalProperties k) None None
                                 (k_propertyNames k) (k_dependencies k) None) (JObj m)) b_d ->
    vm (fst (build_members O B k m)) b_c ->
    om (B (EObj name bases k) (Some (JObj m))) (b_v && b_d && b_c).
  Proof.
    intros Hv Hd Hc. cbn [build with_default].
    pose proof (vm_vand _ _ _ _ Hv Hd) as Hvd.
    match goal with |- om (match ?x with _ => _ end) _ => destruct x end; simpl in Hvd.
    - rewrite Hvd. cbn [andb].
      destruct (build_members O B k m) as [[| |x] rs]; simpl in Hc; subst; reflexivity.
    - rewrite Hvd. reflexivity.
    - exact I.
  Qed.

  Lemma cl_scalar_obj m :
    cl_scalar O kvs (JObj m) =
    on kvs "const" (fun c => js_eq (JObj m) c) &&
    on kvs "enum" (fun e => match e with JArr l => existsb (js_eq (JObj m)) l | _ => true end) &&
    on kvs "minProperties" (num_clause OpLt (Some (len_num m))) &&
    on kvs "maxProperties" (num_clause OpGt (Some (len_num m))).
  Proof.
    rewrite cl_scalar_list. unfold spec_list. cbn [forallb js_num].
    repeat match goal with |- context [on kvs ?s0 ?c] =>
             rewrite (on_true kvs s0 c) by (intros p; try reflexivity; destruct p as [|[|]| | | | |]; reflexivity) end.
    repeat match goal with |- context [on kvs ?s0 ?c] => generalize (on kvs s0 c); intro end.
    btauto.
  Qed.

  Lemma addpv_implied0 k m : jwf (JObj m) ->
    k_properties k = Some props0 -> k_patternProperties k = pats -> k_additionalProperties k = addp ->
    forallb (fun kx => member_b O w kvs (fst kx) (snd kx)) m = true -> addpv_b k (JObj m) = true.
  Proof.
    intros Hm E1 E2 E3 Hb. unfold addpv_b. rewrite E3.
    destruct (addl_truthy addp) eqn:Et; [reflexivity|].
    apply forallb_forall. intros [key x] Hin. cbn [fst].
    apply jwf_obj in Hm as [_ Hvals]. rewrite Forall_forall in Hvals.
    rewrite forallb_forall in Hb.
    eapply (declared_implied O w kvs (Some props0) pats addp props_rel0 Hpats Haddp) with (x := x); eauto;
      [exact (Hvals _ Hin)|exact (Hb _ Hin)].
  Qed.

  Lemma build_obj_set_default name bases k d v :
    B (EObj name bases (set_default k d)) (Some v) = B (EObj name bases k) (Some v).
  Proof. reflexivity. Qed.

  Theorem object_om name bases v : w = WCode -> typed_object kvs = true -> props_struct -> reqs_declared ->
    jwf v ->
    om (B (EObj name bases (obj_record cfg kvs K)) (Some v)) (has_type (s_ "object") v && rest_b v).
  Proof.
    intros Hwc Htyp Hst Hrd Hv. rewrite obj_record_exp. rewrite build_obj_set_default.
    assert (Hno : forall v0, (match v0 with JObj _ => False | _ => True end) -> has_type (s_ "object") v0 = false).
    { intros [| | | | | |m0] Hm0; try contradiction; vm_compute; reflexivity. }
    destruct v as [| | | | | |m]; try (rewrite Hno by exact I; cbn [build with_default]; reflexivity).
    eapply om_ext.
    - eapply (build_obj_om name bases kexp m).
      + apply vall_vm. repeat (constructor; [apply vm_vb|]). constructor.
      + apply (deep_vm_obj _ m Hv); reflexivity.
      + apply (members_vm O w kvs (Some props0) pats addp props_rel0 Hpats Haddp kexp eq_refl eq_refl eq_refl m Hv).
    - assert (Hht : has_type (s_ "object") (JObj m) = true) by (vm_compute; reflexivity).
      rewrite Hht. unfold rest_b. rewrite cl_scalar_obj, cl_object_unfold_w.
      rewrite (cl_items_unfold O w kvs (JObj m)).
      unfold deep_list. cbn [forallb]. rewrite !andb_true_r.
      unfold required_names. cbn [k_required k_properties kexp app].
      rewrite (req_obj m Hwc Htyp Hst Hrd).
      change (k_minProperties kexp) with (lookup (s_ "minProperties") kvs).
      change (k_maxProperties kexp) with (lookup (s_ "maxProperties") kvs).
      rewrite !thr_clause.
      change (k_const kexp) with (k_const K). change (k_enum kexp) with (k_enum K).
      unfold K. rewrite (const_entry kvs props items pats pnames contains deps addp addi Hconst).
      rewrite (enum_entry kvs props items pats pnames contains deps addp addi Henum).
      destruct (forallb (fun kx => member_b O w kvs (fst kx) (snd kx)) m) eqn:Em.
      + match goal with |- context [addpv_b ?k (JObj m)] =>
          rewrite (addpv_implied0 k m Hv eq_refl eq_refl eq_refl Em) end.
        cbn [andb]. 
        repeat match goal with |- context [on kvs ?s0 ?c] => generalize (on kvs s0 c); intro end.
        generalize (req_specw m) (deps_spec (JObj m) m) (pnames_spec m). intros. btauto.
      + repeat match goal with |- context [on kvs ?s0 ?c] => generalize (on kvs s0 c); intro end.
        generalize (req_specw m) (deps_spec (JObj m) m) (pnames_spec m). intros.
        match goal with |- context [addpv_b ?k (JObj m)] => generalize (addpv_b k (JObj m)); intro end.
        btauto.
  Qed.
End Elem.
