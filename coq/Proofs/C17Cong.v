(* C17Cong.v — equal reference-free elements serialize to documents with the same Draft-6
   meaning; with C03_meaning: equal elements accept the same values (up to crashes).  The one
   keyword for which this is false (finding K17: multipleOf 2 == 2.0 take different arithmetic
   paths) is excluded by requiring the multipleOf parameters of corresponding elements to be
   identical. *)
From Coq Require String. Import String.StringSyntax.
From Coq Require Import Lia Btauto.
From Statham.Model Require Import Str Json Elem Equality PyNum Validate Tables Parser Spec6 Plain SerJson Sub SerFrag EqFrag.
From Statham.Proofs Require Import StrFacts JsonInd DictFacts JsonEqProof EqualityProof JsonCong MetaProof ElemInd
     C03Lookup C01Vm C01Scalar C01Items C01Object C01Deep C01Plain C01Element C01Parse C03Meaning.
Local Open Scope string_scope.
Arguments s_ : simpl never.

Section S.
  Variable O : oracles.
  Variable w : wmode.
  Notation F := (v6 O w).

  (* ---- scalar clauses as a function of the keyword record ---- *)
  Definition onf {A} (o : option A) (c : A -> bool) : bool := match o with Some p => c p | None => true end.

  Definition cls (k : kwds elem) (v : json) : bool :=
    let n := js_num v in
    let slen := match v with JStr x => Some (len_num x) | _ => None end in
    let alen := match v with JArr x => Some (len_num x) | _ => None end in
    let olen := match v with JObj x => Some (len_num x) | _ => None end in
    onf (k_const k) (fun c => js_eq v c) &&
    onf (k_enum k) (fun l => existsb (js_eq v) l) &&
    onf (k_minimum k) (num_clause OpLt n) && onf (k_maximum k) (num_clause OpGt n) &&
    onf (k_exclusiveMinimum k) (num_clause OpLe n) && onf (k_exclusiveMaximum k) (num_clause OpGe n) &&
    onf (k_multipleOf k) (fun m => match n, py_num m with
                              | Some vn, Some mn =>
                                match multiple_of_check vn mn with PVal b => b | PExn _ => false end
                              | _, _ => true end) &&
    onf (k_minLength k) (num_clause OpLt slen) && onf (k_maxLength k) (num_clause OpGt slen) &&
    onf (k_pattern k) (fun ps => match v with JStr x => re_search O ps x | _ => true end) &&
    onf (k_format k) (fun fs => match v with
                                | JStr x => match fmt O fs with Some chk => chk x | None => true end
                                | _ => true end) &&
    onf (k_minItems k) (num_clause OpLt alen) && onf (k_maxItems k) (num_clause OpGt alen) &&
    (if k_uniqueItems k then match v with JArr l => pairwise_distinct l | _ => true end else true) &&
    onf (k_minProperties k) (num_clause OpLt olen) && onf (k_maxProperties k) (num_clause OpGt olen).

  Lemma cl_scalar_ser Fs k tail v :
    (forall key, In key (keys tail) -> key = s_ "type" \/ key = s_ "title") ->
    cl_scalar O (ser_kwds true true Fs k ++ tail) v = cls k v.
  Proof.
    intros Ht. rewrite cl_scalar_list. unfold spec_list, cls, on. cbn [forallb]. rewrite andb_true_r.
    rewrite (lk_const Fs k tail Ht), (lk_enum Fs k tail Ht), (lk_minimum Fs k tail Ht), (lk_maximum Fs k tail Ht),
            (lk_exmin Fs k tail Ht), (lk_exmax Fs k tail Ht), (lk_multipleOf Fs k tail Ht), (lk_minLength Fs k tail Ht),
            (lk_maxLength Fs k tail Ht), (lk_pattern Fs k tail Ht), (lk_format Fs k tail Ht), (lk_minItems Fs k tail Ht),
            (lk_maxItems Fs k tail Ht), (lk_unique Fs k tail Ht), (lk_minProps Fs k tail Ht), (lk_maxProps Fs k tail Ht).
    unfold onf.
    destruct (k_enum k); destruct (k_pattern k); destruct (k_format k); destruct (k_uniqueItems k); cbn [option_map];
      rewrite <- !andb_assoc; reflexivity.
  Qed.

  (* ---- congruence of the scalar clauses ---- *)
  Lemma py_num_cong p1 p2 : jwf p1 -> jwf p2 -> js_eq p1 p2 = true ->
    match py_num p1, py_num p2 with
    | Some a, Some b => (exists b1 b2, p1 = JBool b1 /\ p2 = JBool b2 /\ b1 = b2) \/ num_eqb a b = true
    | None, None => True
    | _, _ => False
    end.
  Proof.
    intros _ _ H. destruct p1, p2; simpl in *; try discriminate; auto.
    left. apply Bool.eqb_prop in H. eauto.
  Qed.

  Lemma num_clause_cong op n p1 p2 : jwf p1 -> jwf p2 -> js_eq p1 p2 = true ->
    num_clause op n p1 = num_clause op n p2.
  Proof.
    intros H1 H2 H. unfold num_clause. destruct n as [s|]; [|reflexivity].
    pose proof (py_num_cong p1 p2 H1 H2 H) as Hc.
    destruct (py_num p1) as [a|] eqn:E1, (py_num p2) as [b|] eqn:E2; try contradiction; [|reflexivity].
    destruct Hc as [(b1 & b2 & -> & -> & ->)|Hc]; [simpl in *; congruence|].
    now rewrite (cmp_holds_cong op s a b Hc).
  Qed.

  Lemma onf_cong {A} (eqf : A -> A -> bool) (wf : A -> Prop) (c : A -> bool) o1 o2 :
    (forall x y, wf x -> wf y -> eqf x y = true -> c x = c y) ->
    (match o1 with Some x => wf x | None => True end) -> (match o2 with Some x => wf x | None => True end) ->
    opt_eqb eqf o1 o2 = true -> onf o1 c = onf o2 c.
  Proof. intros Hc H1 H2 H. destruct o1, o2; simpl in *; try discriminate; auto. Qed.

  Lemma existsb_cong v l1 : jwf v -> forall l2, Forall jwf l1 -> Forall jwf l2 -> list_eqb js_eq l1 l2 = true ->
    existsb (js_eq v) l1 = existsb (js_eq v) l2.
  Proof.
    intros Hv. induction l1 as [|x r IH]; intros [|y s] H1 H2 H; simpl in *; try discriminate; [reflexivity|].
    apply andb_true_iff in H as [Hx Hr]. inversion H1; inversion H2; subst.
    rewrite (js_eq_cong v Hv x y) by assumption. f_equal. now apply IH.
  Qed.

  Lemma cls_cong k1 k2 v : jwf v -> kwf k1 -> kwf k2 -> kwds_eq elem_eq k1 k2 = true ->
    (forall n, onf (k_multipleOf k1) (fun m => match n, py_num m with
                              | Some vn, Some mn =>
                                match multiple_of_check vn mn with PVal b => b | PExn _ => false end
                              | _, _ => true end) =
               onf (k_multipleOf k2) (fun m => match n, py_num m with
                              | Some vn, Some mn =>
                                match multiple_of_check vn mn with PVal b => b | PExn _ => false end
                              | _, _ => true end)) ->
    cls k1 v = cls k2 v.
  Proof.
    intros Hv W1 W2 He Hm.
    destruct W1 as (_ & Wc1 & We1 & WmI1 & WMI1 & Wmin1 & Wmax1 & Wxm1 & WxM1 & _ & WmL1 & WML1 & WmP1 & WMP1 & _).
    destruct W2 as (_ & Wc2 & We2 & WmI2 & WMI2 & Wmin2 & Wmax2 & Wxm2 & WxM2 & _ & WmL2 & WML2 & WmP2 & WMP2 & _).
    unfold kwds_eq in He.
    repeat match type of He with _ && _ = true => let H2 := fresh "E" in apply andb_true_iff in He as [He H2] end.
    unfold cls. rewrite (Hm (js_num v)).
    assert (Hn : forall op n o1 o2, owf o1 -> owf o2 -> opt_eqb js_eq o1 o2 = true -> onf o1 (num_clause op n) = onf o2 (num_clause op n)).
    { intros op n o1 o2 A1 A2 A3. apply (onf_cong js_eq jwf); auto. intros; now apply num_clause_cong. }
    rewrite (Hn OpLt _ _ _ Wmin1 Wmin2) by assumption. rewrite (Hn OpGt _ _ _ Wmax1 Wmax2) by assumption.
    rewrite (Hn OpLe _ _ _ Wxm1 Wxm2) by assumption. rewrite (Hn OpGe _ _ _ WxM1 WxM2) by assumption.
    rewrite (Hn OpLt _ _ _ WmL1 WmL2) by assumption. rewrite (Hn OpGt _ _ _ WML1 WML2) by assumption.
    rewrite (Hn OpLt _ _ _ WmI1 WmI2) by assumption. rewrite (Hn OpGt _ _ _ WMI1 WMI2) by assumption.
    rewrite (Hn OpLt _ _ _ WmP1 WmP2) by assumption. rewrite (Hn OpGt _ _ _ WMP1 WMP2) by assumption.
    assert (Hc : onf (k_const k1) (fun c => js_eq v c) = onf (k_const k2) (fun c => js_eq v c)).
    { apply (onf_cong js_eq jwf); auto. intros; now apply js_eq_cong. }
    assert (Hen : onf (k_enum k1) (fun l => existsb (js_eq v) l) = onf (k_enum k2) (fun l => existsb (js_eq v) l)).
    { apply (onf_cong (list_eqb js_eq) (Forall jwf)); auto. intros; now apply existsb_cong. }
    assert (Hp : k_pattern k1 = k_pattern k2).
    { destruct (k_pattern k1), (k_pattern k2); simpl in *; try discriminate; auto. f_equal. now apply str_eqb_eq. }
    assert (Hf : k_format k1 = k_format k2).
    { destruct (k_format k1), (k_format k2); simpl in *; try discriminate; auto. f_equal. now apply str_eqb_eq. }
    assert (Hu : k_uniqueItems k1 = k_uniqueItems k2) by (now apply Bool.eqb_prop).
    rewrite Hc, Hen, Hp, Hf, Hu. reflexivity.
  Qed.

  (* ---- two keyword lists whose lookups are related give the same container clauses ---- *)
  Definition Feq (S1 S2 : json) : Prop := forall x, jwf x -> F S1 x = F S2 x.
  Definition nonarr (S0 : json) : Prop := match S0 with JArr _ => False | _ => True end.

  Definition orel (o1 o2 : option json) : Prop :=
    match o1, o2 with
    | None, None => True
    | Some S1, Some S2 => Feq S1 S2
    | _, _ => False
    end.
  Definition irel (o1 o2 : option json) : Prop :=
    match o1, o2 with
    | None, None => True
    | Some (JArr l1), Some (JArr l2) => Forall2 Feq l1 l2
    | Some S1, Some S2 => nonarr S1 /\ nonarr S2 /\ Feq S1 S2
    | _, _ => False
    end.

  Lemma forallb_Feq S1 S2 xs : Feq S1 S2 -> Forall jwf xs -> forallb (F S1) xs = forallb (F S2) xs.
  Proof. intros H. induction 1; simpl; [reflexivity|]. rewrite H by assumption. now f_equal. Qed.
  Lemma existsb_Feq S1 S2 xs : Feq S1 S2 -> Forall jwf xs -> existsb (F S1) xs = existsb (F S2) xs.
  Proof. intros H. induction 1; simpl; [reflexivity|]. rewrite H by assumption. now f_equal. Qed.

  Section Items.
    Variables kvs1 kvs2 : list (str * json).
    Hypothesis Hi : irel (lookup (s_ "items") kvs1) (lookup (s_ "items") kvs2).
    Hypothesis Ha : orel (lookup (s_ "additionalItems") kvs1) (lookup (s_ "additionalItems") kvs2).
    Hypothesis Hc : orel (lookup (s_ "contains") kvs1) (lookup (s_ "contains") kvs2).

    Lemma spec_rest_cong ys : Forall jwf ys -> spec_rest O w kvs1 ys = spec_rest O w kvs2 ys.
    Proof.
      intros Hy. unfold spec_rest. red in Ha.
      destruct (lookup (s_ "additionalItems") kvs1), (lookup (s_ "additionalItems") kvs2); try contradiction; [|reflexivity].
      now apply forallb_Feq.
    Qed.

    Lemma spec_tuple_cong ss1 ss2 : Forall2 Feq ss1 ss2 -> forall ys, Forall jwf ys ->
      spec_tuple O w kvs1 ss1 ys = spec_tuple O w kvs2 ss2 ys.
    Proof.
      induction 1 as [|s1 s2 r1 r2 Hs Hr IH]; intros ys Hy; cbn [spec_tuple].
      - now apply spec_rest_cong.
      - destruct ys as [|y yr]; [reflexivity|]. inversion Hy; subst. rewrite (Hs y) by assumption. f_equal. now apply IH.
    Qed.

    Lemma cl_items_cong v : jwf v -> cl_items F kvs1 v = cl_items F kvs2 v.
    Proof.
      intros Hv. rewrite !cl_items_unfold. destruct v as [| | | | |xs|]; try reflexivity.
      apply jwf_arr in Hv. f_equal.
      - unfold items_part. red in Hi.
        destruct (lookup (s_ "items") kvs1) as [S1|], (lookup (s_ "items") kvs2) as [S2|]; try contradiction;
          [|destruct S1; contradiction|reflexivity].
        destruct S1, S2; try contradiction; try (destruct Hi as (_ & _ & Hf); now apply forallb_Feq);
          try (destruct Hi as (H1 & H2 & _); contradiction).
        now apply spec_tuple_cong.
      - red in Hc. destruct (lookup (s_ "contains") kvs1), (lookup (s_ "contains") kvs2); try contradiction; [|reflexivity].
        now apply existsb_Feq.
    Qed.
  End Items.

  Section Objects.
    Variables kvs1 kvs2 : list (str * json).
    Hypothesis Hreq : forall m : list (str * json),
      (match lookup (s_ "required") kvs1 with
       | Some (JArr names) => forallb (fun n => match n with JStr name => has_key name m || waived w kvs1 name | _ => true end) names
       | _ => true end) =
      (match lookup (s_ "required") kvs2 with
       | Some (JArr names) => forallb (fun n => match n with JStr name => has_key name m || waived w kvs2 name | _ => true end) names
       | _ => true end).
    Hypothesis Hmem : forall key x, jwf x -> member_b O w kvs1 key x = member_b O w kvs2 key x.
    Hypothesis Hdeps : forall v (m : list (str * json)), jwf v ->
      wkey (fun Sd => match Sd with
                      | JObj deps =>
                        (fix go (l : list (str * json)) : bool :=
                           match l with
                           | [] => true
                           | (key, d) :: r =>
                             (if has_key key m then
                                match d with
                                | JArr names => forallb (fun n => match n with JStr s0 => has_key s0 m | _ => true end) names
                                | _ => F d v
                                end
                              else true) && go r
                           end) deps
                      | _ => true end) (s_ "dependencies") kvs1 true =
      wkey (fun Sd => match Sd with
                      | JObj deps =>
                        (fix go (l : list (str * json)) : bool :=
                           match l with
                           | [] => true
                           | (key, d) :: r =>
                             (if has_key key m then
                                match d with
                                | JArr names => forallb (fun n => match n with JStr s0 => has_key s0 m | _ => true end) names
                                | _ => F d v
                                end
                              else true) && go r
                           end) deps
                      | _ => true end) (s_ "dependencies") kvs2 true.
    Hypothesis Hpn : orel (lookup (s_ "propertyNames") kvs1) (lookup (s_ "propertyNames") kvs2).

    Lemma cl_object_cong v : jwf v -> cl_object O w F kvs1 v = cl_object O w F kvs2 v.
    Proof.
      intros Hv. unfold cl_object. destruct v as [| | | | | |m]; try reflexivity.
      apply jwf_obj in Hv as [Hnd Hvals].
      apply (f_equal2 andb); [apply (f_equal2 andb); [apply (f_equal2 andb)|]|].
      - apply Hreq.
      - transitivity (forallb (fun kx => member_b O w kvs1 (fst kx) (snd kx)) m);
          [apply forallb_ext; intros [key x]; apply (spec_member O w kvs1 key x)|].
        transitivity (forallb (fun kx => member_b O w kvs2 (fst kx) (snd kx)) m);
          [|symmetry; apply forallb_ext; intros [key x]; apply (spec_member O w kvs2 key x)].
        rewrite Forall_forall in Hvals. clear Hnd. induction m as [|[key x] r IHm]; [reflexivity|]. cbn [forallb fst snd].
        rewrite (Hmem key x (Hvals _ (or_introl eq_refl))). f_equal. apply IHm. intros kv Hin. apply Hvals. now right.
      - apply Hdeps. apply jwf_obj. split; [exact Hnd|exact Hvals].
      - rewrite !wkey_lookup. red in Hpn.
        destruct (lookup (s_ "propertyNames") kvs1), (lookup (s_ "propertyNames") kvs2); try contradiction; [|reflexivity].
        clear - Hpn. induction m as [|[key x] r IHm]; [reflexivity|]. cbn [forallb fst]. rewrite (Hpn (JStr key) I). now f_equal.
    Qed.
  End Objects.
End S.

(* ---- dictionaries compared as Python dicts: both directions ---- *)
Lemma dict_fwd {A C} (R : A -> C -> bool) (l1 : list (str * A)) (l2 : list (str * C)) :
  dsub R l1 l2 = true -> forall k x, In (k, x) l1 -> exists y, In (k, y) l2 /\ R x y = true.
Proof.
  intros H k x Hin. destruct (proj1 (dsub_spec R l1 l2) H k x Hin) as (y & Hy & HR).
  exists y. split; [now apply lookup_In|exact HR].
Qed.

Lemma dict_back {A C} (R : A -> C -> bool) (l1 : list (str * A)) (l2 : list (str * C)) :
  NoDup (keys l1) -> NoDup (keys l2) -> length l1 = length l2 -> dsub R l1 l2 = true ->
  forall k y, In (k, y) l2 -> exists x, In (k, x) l1 /\ R x y = true.
Proof.
  intros H1 H2 Hl H k y Hin.
  pose proof (keys_incl_of_dsub R l1 l2 H) as Hincl.
  assert (Hback : incl (keys l2) (keys l1)).
  { apply NoDup_length_incl; auto. unfold keys. rewrite !map_length. lia. }
  assert (Hk : In k (keys l1)) by (apply Hback; unfold keys; apply in_map_iff; exists (k, y); auto).
  unfold keys in Hk. apply in_map_iff in Hk as ([k' x] & E & Hx). cbn [fst] in E. subst k'.
  destruct (dict_fwd R l1 l2 H k x Hx) as (y' & Hy' & HR).
  assert (y' = y).
  { pose proof (In_lookup _ _ _ H2 Hy'). pose proof (In_lookup _ _ _ H2 Hin). congruence. }
  subst. eauto.
Qed.

Lemma elem_eq_default a b : elem_eq a b = true -> (elem_default a = None <-> elem_default b = None).
Proof.
  destruct a as [c1 k1| |x1 d1|m1 es1 d1|n1 b1 k1], b as [c2 k2| |x2 d2|m2 es2 d2|n2 b2 k2]; cbn [elem_eq elem_default];
    try discriminate; try tauto; intros H.
  - apply andb_true_iff in H as [_ H]. unfold kwds_eq in H.
    repeat match type of H with _ && _ = true => apply andb_true_iff in H as [H _] end.
    destruct (k_default k1), (k_default k2); simpl in H; try discriminate; split; congruence.
  - apply andb_true_iff in H as [_ H]. destruct d1, d2; simpl in H; try discriminate; split; congruence.
  - apply andb_true_iff in H as [_ H]. destruct d1, d2; simpl in H; try discriminate; split; congruence.
  - unfold kwds_eq in H.
    repeat match type of H with _ && _ = true => apply andb_true_iff in H as [H _] end.
    destruct (k_default k1), (k_default k2); simpl in H; try discriminate; split; congruence.
Qed.

Lemma strs_eq l1 : forall l2, list_eqb str_eqb l1 l2 = true -> l1 = l2.
Proof.
  induction l1 as [|x r IH]; intros [|y s]; simpl; try discriminate; [reflexivity|].
  intros H. apply andb_true_iff in H as [H1 H2]. apply str_eqb_eq in H1. subst. f_equal. now apply IH.
Qed.

Section EKc.
  Variable O : oracles.
  Variable w : wmode.
  Hypothesis Hw : w <> WAlways.
  Notation F := (v6 O w).
  Notation Feq := (Feq O w).

  Variable c : ecls.
  Variables k1 k2 : kwds elem.
  Hypothesis HE : kwds_eq elem_eq k1 k2 = true.
  Hypothesis W1 : kwf k1.
  Hypothesis W2 : kwf k2.
  Hypothesis D1 : local_dsl (EK c k1).
  Hypothesis D2 : local_dsl (EK c k2).
  Hypothesis N1 : Forall noobj (ksub k1).
  Hypothesis N2 : Forall noobj (ksub k2).
  Hypothesis IH : forall x y, In x (ksub k1) -> In y (ksub k2) -> elem_eq x y = true -> Feq (sub x) (sub y).
  Let kvs1 := ser_kwds true true sub k1 ++ json_type c.
  Let kvs2 := ser_kwds true true sub k2 ++ json_type c.
  Lemma Ht : forall key, In key (keys (json_type c)) -> key = s_ "type" \/ key = s_ "title".
  Proof. destruct c; simpl; intuition. Qed.

  (* membership in ksub, by position *)
  Lemma ks_items k x : In x (sub_items (k_items k)) -> In x (ksub k).
  Proof. intros H. unfold ksub. rewrite !in_app_iff. tauto. Qed.
  Lemma ks_addi k x : In x (sub_addl (k_additionalItems k)) -> In x (ksub k).
  Proof. intros H. unfold ksub. rewrite !in_app_iff. tauto. Qed.
  Lemma ks_contains k x : In x (sub_opt (k_contains k)) -> In x (ksub k).
  Proof. intros H. unfold ksub. rewrite !in_app_iff. tauto. Qed.
  Lemma ks_props k x : In x (sub_props (k_properties k)) -> In x (ksub k).
  Proof. intros H. unfold ksub. rewrite !in_app_iff. tauto. Qed.
  Lemma ks_pats k x : In x (sub_pats (k_patternProperties k)) -> In x (ksub k).
  Proof. intros H. unfold ksub. rewrite !in_app_iff. tauto. Qed.
  Lemma ks_addp k x : In x (sub_addl (k_additionalProperties k)) -> In x (ksub k).
  Proof. intros H. unfold ksub. rewrite !in_app_iff. tauto. Qed.
  Lemma ks_pnames k x : In x (sub_opt (k_propertyNames k)) -> In x (ksub k).
  Proof. intros H. unfold ksub. rewrite !in_app_iff. tauto. Qed.
  Lemma ks_deps k x : In x (sub_deps (k_dependencies k)) -> In x (ksub k).
  Proof. intros H. unfold ksub. rewrite !in_app_iff. tauto. Qed.

  Lemma sub_nonarr k x : Forall noobj (ksub k) -> In x (ksub k) -> nonarr (sub x).
  Proof.
    intros Hn Hx. rewrite Forall_forall in Hn. specialize (Hn x Hx).
    rewrite (sub_ser x Hn). destruct (ser_schema x Hn) as [_ H]. unfold nonarr. destruct (ser x) eqn:E; auto. eapply H; eauto.
  Qed.

  (* the fields of the equality *)
  Lemma HEf :
    items_eq elem_eq (k_items k1) (k_items k2) = true /\ addl_eq elem_eq (k_additionalItems k1) (k_additionalItems k2) = true /\
    oelem_eq elem_eq (k_contains k1) (k_contains k2) = true /\
    opt_eqb (list_eqb str_eqb) (k_required k1) (k_required k2) = true /\
    props_eq elem_eq (k_properties k1) (k_properties k2) = true /\
    pats_eq elem_eq (k_patternProperties k1) (k_patternProperties k2) = true /\
    addl_eq elem_eq (k_additionalProperties k1) (k_additionalProperties k2) = true /\
    oelem_eq elem_eq (k_propertyNames k1) (k_propertyNames k2) = true /\
    deps_eq elem_eq (k_dependencies k1) (k_dependencies k2) = true.
  Proof.
    pose proof HE as H. unfold kwds_eq in H.
    repeat match type of H with _ && _ = true => let H2 := fresh "E" in apply andb_true_iff in H as [H H2] end.
    repeat split; assumption.
  Qed.

  Lemma elems_Feq l1 : forall l2, (forall x, In x l1 -> In x (ksub k1)) -> (forall y, In y l2 -> In y (ksub k2)) ->
    elems_eq elem_eq l1 l2 = true -> Forall2 Feq (s_elems sub l1) (s_elems sub l2).
  Proof.
    induction l1 as [|x r IHl]; intros [|y s] A1 A2 He; simpl in He; try discriminate; [constructor|].
    apply andb_true_iff in He as [He1 He2]. simpl. constructor.
    - apply IH; [apply A1|apply A2|exact He1]; now left.
    - apply IHl; [intros; apply A1; now right|intros; apply A2; now right|exact He2].
  Qed.

  Lemma L_items : irel O w (lookup (s_ "items") kvs1) (lookup (s_ "items") kvs2).
  Proof.
    unfold kvs1, kvs2. rewrite (lk_items sub k1 _ Ht), (lk_items sub k2 _ Ht).
    destruct HEf as (H & _). unfold irel.
    destruct (k_items k1) as [[x|l1]|] eqn:E1, (k_items k2) as [[y|l2]|] eqn:E2; simpl in H; try discriminate; cbn [items_json]; auto.
    - assert (Hx : In x (ksub k1)) by (apply ks_items; rewrite E1; now left).
      assert (Hy : In y (ksub k2)) by (apply ks_items; rewrite E2; now left).
      pose proof (sub_nonarr k1 x N1 Hx) as A1. pose proof (sub_nonarr k2 y N2 Hy) as A2.
      pose proof (IH x y Hx Hy H) as Hf.
      destruct (sub x), (sub y); try contradiction; auto.
    - apply elems_Feq; [intros x Hx; apply ks_items; now rewrite E1|intros y Hy; apply ks_items; now rewrite E2|exact H].
  Qed.

  Lemma L_addl (a1 a2 : addl elem) : addl_eq elem_eq a1 a2 = true ->
    (forall x, In x (sub_addl a1) -> In x (ksub k1)) -> (forall y, In y (sub_addl a2) -> In y (ksub k2)) ->
    orel O w (addl_json sub a1) (addl_json sub a2).
  Proof.
    intros H A1 A2. unfold orel. destruct a1 as [[|]|x], a2 as [[|]|y]; simpl in H; try discriminate; cbn [addl_json]; auto.
    - intros v _. reflexivity.
    - apply IH; [apply A1|apply A2|exact H]; now left.
  Qed.

  Lemma L_opt (o1 o2 : option elem) : oelem_eq elem_eq o1 o2 = true ->
    (forall x, In x (sub_opt o1) -> In x (ksub k1)) -> (forall y, In y (sub_opt o2) -> In y (ksub k2)) ->
    orel O w (option_map sub o1) (option_map sub o2).
  Proof.
    intros H A1 A2. unfold orel. destruct o1 as [x|], o2 as [y|]; simpl in H; try discriminate; cbn [option_map]; auto.
    apply IH; [apply A1|apply A2|exact H]; now left.
  Qed.

  (* ---- required ---- *)
  Lemma waived_kvs k name : waived w (ser_kwds true true sub k ++ json_type c) name = false.
  Proof.
    apply (waived_false w Hw). red. rewrite (lk_type sub k _).
    destruct c; cbn [json_type lookup];
      repeat match goal with |- context [str_eqb (s_ ?a) (s_ ?b)] =>
               let r := eval vm_compute in (str_eqb (s_ a) (s_ b)) in change (str_eqb (s_ a) (s_ b)) with r end;
      cbv iota; try exact I; vm_compute; discriminate.
  Qed.

  Lemma req_as_M k (D : local_dsl (EK c k)) (m : list (str * json)) :
    (match lookup (s_ "required") (ser_kwds true true sub k ++ json_type c) with
     | Some (JArr names) => forallb (fun n => match n with JStr name => has_key name m || waived w (ser_kwds true true sub k ++ json_type c) name | _ => true end) names
     | _ => true end) = forallb (fun r => has_key r m) (M_ k).
  Proof.
    rewrite (lk_required sub k _ Ht). unfold M_.
    destruct (merged_required true k) as [l|]; cbn [option_map]; [|reflexivity].
    induction l as [|r l IHl]; [reflexivity|]. cbn [map forallb]. rewrite waived_kvs, orb_false_r. now f_equal.
  Qed.

  Definition ps1 := match k_properties k1 with Some l => l | None => [] end.
  Definition ps2 := match k_properties k2 with Some l => l | None => [] end.

  Lemma props_dict : length ps1 = length ps2 /\ dsub (prop_rel elem_eq) ps1 ps2 = true /\
                     NoDup (keys ps1) /\ NoDup (keys ps2).
  Proof.
    destruct HEf as (_ & _ & _ & _ & H & _).
    destruct W1 as (_ & _ & _ & _ & _ & _ & _ & _ & _ & _ & _ & _ & _ & _ & K1 & _).
    destruct W2 as (_ & _ & _ & _ & _ & _ & _ & _ & _ & _ & _ & _ & _ & _ & K2 & _).
    unfold ps1, ps2. destruct (k_properties k1) as [l1|], (k_properties k2) as [l2|]; simpl in H; try discriminate.
    - apply andb_true_iff in H as [Hl Hs]. apply PeanoNat.Nat.eqb_eq in Hl. rewrite props_sub_dsub in Hs. auto.
    - repeat split; constructor.
  Qed.

  Lemma PR_iff r : In r (PR_ k1) <-> In r (PR_ k2).
  Proof.
    destruct props_dict as (Hl & Hd & Hn1 & Hn2).
    assert (E1 : PR_ k1 = props_required ps1) by (unfold PR_, ps1; destruct (k_properties k1); reflexivity).
    assert (E2 : PR_ k2 = props_required ps2) by (unfold PR_, ps2; destruct (k_properties k2); reflexivity).
    rewrite E1, E2, !PR_spec. split.
    - intros ([n p] & Hin & Hr & Hdf & Es). destruct (dict_fwd _ _ _ Hd n p Hin) as (q & Hq & HR).
      unfold prop_rel in HR. apply andb_true_iff in HR as [HR Hsrc]. apply andb_true_iff in HR as [He Hrq].
      cbn [snd] in *. exists (n, q). cbn [snd]. apply Bool.eqb_prop in Hrq. apply str_eqb_eq in Hsrc.
      repeat split; auto; try congruence. now apply (proj1 (elem_eq_default _ _ He)).
    - intros ([n q] & Hin & Hr & Hdf & Es). destruct (dict_back _ _ _ Hn1 Hn2 Hl Hd n q Hin) as (p & Hp & HR).
      unfold prop_rel in HR. apply andb_true_iff in HR as [HR Hsrc]. apply andb_true_iff in HR as [He Hrq].
      cbn [snd] in *. exists (n, p). cbn [snd]. apply Bool.eqb_prop in Hrq. apply str_eqb_eq in Hsrc.
      repeat split; auto; try congruence. now apply (proj2 (elem_eq_default _ _ He)).
  Qed.

  Lemma L_req (m : list (str * json)) :
    (match lookup (s_ "required") kvs1 with
     | Some (JArr names) => forallb (fun n => match n with JStr name => has_key name m || waived w kvs1 name | _ => true end) names
     | _ => true end) =
    (match lookup (s_ "required") kvs2 with
     | Some (JArr names) => forallb (fun n => match n with JStr name => has_key name m || waived w kvs2 name | _ => true end) names
     | _ => true end).
  Proof.
    unfold kvs1, kvs2. rewrite (req_as_M k1 D1 m), (req_as_M k2 D2 m).
    apply eq_true_iff_eq. rewrite !forallb_forall.
    assert (EE : E_ k1 = E_ k2).
    { destruct HEf as (_ & _ & _ & H & _). unfold E_. destruct (k_required k1), (k_required k2); simpl in H; try discriminate; auto.
      now apply strs_eq. }
    fold (E_ k1) in EE. split; intros H r Hr; apply H.
    - apply (M_spec c k1 D1). apply (M_spec c k2 D2) in Hr.
      destruct Hr as [Hr|Hr]; [left; now rewrite EE|right; now apply PR_iff].
    - apply (M_spec c k2 D2). apply (M_spec c k1 D1) in Hr.
      destruct Hr as [Hr|Hr]; [left; now rewrite <- EE|right; now apply PR_iff].
  Qed.

  (* ---- members ---- *)
  Lemma decl_as k key : decl_S (ser_kwds true true sub k ++ json_type c) key =
    lookup key (s_props true sub (match k_properties k with Some l => l | None => [] end)).
  Proof.
    unfold decl_S. rewrite (lk_properties sub k _ Ht). destruct (k_properties k) as [[|p r]|]; reflexivity.
  Qed.

  Lemma props_side k (D : local_dsl (EK c k)) :
    let ps := match k_properties k with Some l => l | None => [] end in
    NoDup (map (fun np : str * prop elem => p_source (snd np)) ps) /\
    Forall (fun np : str * prop elem => p_source (snd np) <> []) ps.
  Proof.
    destruct D as (_ & _ & _ & _ & _ & Hpo & _). cbn zeta. destruct (k_properties k) as [l|]; cbn [props_ok] in Hpo.
    - destruct Hpo as [H1 H2]. split; [exact H1|]. eapply Forall_impl; [|exact H2]. intros a [Ha _]. exact Ha.
    - split; constructor.
  Qed.

  Lemma lookup_sprops l key : Forall (fun np : str * prop elem => p_source (snd np) <> []) l ->
    NoDup (map (fun np : str * prop elem => p_source (snd np)) l) ->
    forall S0, lookup key (s_props true sub l) = Some S0 <->
               exists n p, In (n, p) l /\ p_source p = key /\ S0 = sub (p_elem p).
  Proof.
    intros Hne Hnd S0. rewrite (s_props_map l Hne). split.
    - intros H. apply lookup_In in H. apply in_map_iff in H as ([n p] & E & Hin). inversion E; subst. eauto.
    - intros (n & p & Hin & Hs & ->). apply In_lookup.
      + unfold keys. rewrite map_map. exact Hnd.
      + apply in_map_iff. exists (n, p). cbn [snd]. rewrite Hs. auto.
  Qed.

  Lemma decl_rel2 key :
    match decl_S kvs1 key, decl_S kvs2 key with
    | Some S1, Some S2 => Feq S1 S2
    | None, None => True
    | _, _ => False
    end.
  Proof.
    unfold kvs1, kvs2. rewrite (decl_as k1 key), (decl_as k2 key). fold ps1. fold ps2.
    destruct props_dict as (Hl & Hd & Hn1 & Hn2).
    destruct (props_side k1 D1) as [Hs1 He1]. destruct (props_side k2 D2) as [Hs2 He2]. cbn zeta in *. fold ps1 in Hs1, He1. fold ps2 in Hs2, He2.
    destruct (lookup key (s_props true sub ps1)) as [S1|] eqn:E1.
    - apply (lookup_sprops ps1 key He1 Hs1) in E1 as (n & p & Hin & Hsrc & ->).
      destruct (dict_fwd _ _ _ Hd n p Hin) as (q & Hq & HR).
      unfold prop_rel in HR. apply andb_true_iff in HR as [HR Hsq]. apply andb_true_iff in HR as [Heq _]. apply str_eqb_eq in Hsq.
      assert (E2 : lookup key (s_props true sub ps2) = Some (sub (p_elem q))).
      { apply (lookup_sprops ps2 key He2 Hs2). exists n, q. repeat split; auto. congruence. }
      rewrite E2. apply IH; [| |exact Heq].
      + apply ks_props. unfold ps1 in Hin. destruct (k_properties k1); [|contradiction]. apply in_map_iff. exists (n, p). auto.
      + apply ks_props. unfold ps2 in Hq. destruct (k_properties k2); [|contradiction]. apply in_map_iff. exists (n, q). auto.
    - destruct (lookup key (s_props true sub ps2)) as [S2|] eqn:E2; [|exact I].
      apply (lookup_sprops ps2 key He2 Hs2) in E2 as (n & q & Hin & Hsrc & ->).
      destruct (dict_back _ _ _ Hn1 Hn2 Hl Hd n q Hin) as (p & Hp & HR).
      unfold prop_rel in HR. apply andb_true_iff in HR as [HR Hsq]. apply str_eqb_eq in Hsq.
      assert (E1' : lookup key (s_props true sub ps1) = Some (sub (p_elem p))).
      { apply (lookup_sprops ps1 key He1 Hs1). exists n, p. repeat split; auto. congruence. }
      congruence.
  Qed.

  Definition pl1 := match k_patternProperties k1 with Some l => l | None => [] end.
  Definition pl2 := match k_patternProperties k2 with Some l => l | None => [] end.

  Lemma pats_dict : length pl1 = length pl2 /\ dsub elem_eq pl1 pl2 = true /\ NoDup (keys pl1) /\ NoDup (keys pl2).
  Proof.
    destruct HEf as (_ & _ & _ & _ & _ & H & _).
    destruct W1 as (_ & _ & _ & _ & _ & _ & _ & _ & _ & _ & _ & _ & _ & _ & _ & K1 & _).
    destruct W2 as (_ & _ & _ & _ & _ & _ & _ & _ & _ & _ & _ & _ & _ & _ & _ & K2 & _).
    unfold pl1, pl2. destruct (k_patternProperties k1) as [l1|], (k_patternProperties k2) as [l2|]; simpl in H; try discriminate.
    - apply andb_true_iff in H as [Hl Hs]. apply PeanoNat.Nat.eqb_eq in Hl. rewrite pats_sub_dsub in Hs. auto.
    - repeat split; constructor.
  Qed.

  Lemma pat_as k key : pat_Ss O (ser_kwds true true sub k ++ json_type c) key =
    map (fun ne : str * elem => sub (snd ne))
        (filter (fun ne => re_search O (fst ne) key) (match k_patternProperties k with Some l => l | None => [] end)).
  Proof.
    unfold pat_Ss. rewrite (lk_pats sub k _ Ht). destruct (k_patternProperties k) as [l|]; cbn [option_map]; [|reflexivity].
    induction l as [|[n e] r IHl]; [reflexivity|]. cbn [s_pats filter fst]. destruct (re_search O n key); cbn [map snd]; now rewrite IHl.
  Qed.

  Lemma pat_rel2 key x : jwf x ->
    forallb (fun S0 => F S0 x) (pat_Ss O kvs1 key) = forallb (fun S0 => F S0 x) (pat_Ss O kvs2 key) /\
    (pat_Ss O kvs1 key = [] <-> pat_Ss O kvs2 key = []).
  Proof.
    intros Hx. unfold kvs1, kvs2. rewrite (pat_as k1 key), (pat_as k2 key). fold pl1. fold pl2.
    destruct pats_dict as (Hl & Hd & Hn1 & Hn2).
    assert (A1 : forall n e, In (n, e) pl1 -> In e (ksub k1)).
    { intros n e H. apply ks_pats. unfold pl1 in H. destruct (k_patternProperties k1); [|contradiction]. apply in_map_iff. exists (n, e). auto. }
    assert (A2 : forall n e, In (n, e) pl2 -> In e (ksub k2)).
    { intros n e H. apply ks_pats. unfold pl2 in H. destruct (k_patternProperties k2); [|contradiction]. apply in_map_iff. exists (n, e). auto. }
    split.
    - apply eq_true_iff_eq. rewrite !forallb_forall. split; intros H S0 HS; apply in_map_iff in HS as ([n e] & <- & Hf);
        apply filter_In in Hf as [Hin Hm]; cbn [fst snd] in *.
      + destruct (dict_back _ _ _ Hn1 Hn2 Hl Hd n e Hin) as (e1 & H1 & HR).
        rewrite <- (IH e1 e (A1 _ _ H1) (A2 _ _ Hin) HR x Hx). apply H. apply in_map_iff. exists (n, e1). split; [reflexivity|].
        apply filter_In. auto.
      + destruct (dict_fwd _ _ _ Hd n e Hin) as (e2 & H2 & HR).
        rewrite (IH e e2 (A1 _ _ Hin) (A2 _ _ H2) HR x Hx). apply H. apply in_map_iff. exists (n, e2). split; [reflexivity|].
        apply filter_In. auto.
    - split; intros H.
      + destruct (filter (fun ne => re_search O (fst ne) key) pl2) as [|[n e] r] eqn:Ef; [reflexivity|exfalso].
        assert (Hin : In (n, e) (filter (fun ne => re_search O (fst ne) key) pl2)) by (rewrite Ef; now left).
        apply filter_In in Hin as [Hin Hm]. destruct (dict_back _ _ _ Hn1 Hn2 Hl Hd n e Hin) as (e1 & H1 & _).
        assert (Hin1 : In (n, e1) (filter (fun ne => re_search O (fst ne) key) pl1)) by (apply filter_In; auto).
        destruct (filter (fun ne => re_search O (fst ne) key) pl1); [contradiction|discriminate].
      + destruct (filter (fun ne => re_search O (fst ne) key) pl1) as [|[n e] r] eqn:Ef; [reflexivity|exfalso].
        assert (Hin : In (n, e) (filter (fun ne => re_search O (fst ne) key) pl1)) by (rewrite Ef; now left).
        apply filter_In in Hin as [Hin Hm]. destruct (dict_fwd _ _ _ Hd n e Hin) as (e2 & H2 & _).
        assert (Hin2 : In (n, e2) (filter (fun ne => re_search O (fst ne) key) pl2)) by (apply filter_In; auto).
        destruct (filter (fun ne => re_search O (fst ne) key) pl2); [contradiction|discriminate].
  Qed.

  Lemma L_addp : orel O w (lookup (s_ "additionalProperties") kvs1) (lookup (s_ "additionalProperties") kvs2).
  Proof.
    unfold kvs1, kvs2. rewrite (lk_addp sub k1 _ Ht), (lk_addp sub k2 _ Ht).
    destruct HEf as (_ & _ & _ & _ & _ & _ & H & _). apply L_addl; [exact H|apply ks_addp|apply ks_addp].
  Qed.

  Lemma L_mem key x : jwf x -> member_b O w kvs1 key x = member_b O w kvs2 key x.
  Proof.
    intros Hx. unfold member_b. pose proof (decl_rel2 key) as Hd. destruct (pat_rel2 key x Hx) as [Hp He].
    pose proof L_addp as Ha. unfold addl_b.
    rewrite Hp.
    destruct (decl_S kvs1 key) as [S1|], (decl_S kvs2 key) as [S2|]; try contradiction.
    - rewrite (Hd x Hx). reflexivity.
    - f_equal. destruct (pat_Ss O kvs1 key) as [|a r] eqn:E1.
      + rewrite (proj1 He eq_refl). red in Ha.
        destruct (lookup (s_ "additionalProperties") kvs1), (lookup (s_ "additionalProperties") kvs2); try contradiction; auto.
      + destruct (pat_Ss O kvs2 key) as [|b s] eqn:E2; [|reflexivity]. pose proof (proj2 He eq_refl) as Hc. discriminate Hc.
  Qed.

  (* ---- dependencies ---- *)
  Definition dep_json (d : dep_t elem) : json :=
    match d with DepNames ns => JArr (map JStr ns) | DepElem e => sub e end.
  Lemma s_deps_map l : s_deps sub l = map (fun nd : str * dep_t elem => (fst nd, dep_json (snd nd))) l.
  Proof. induction l as [|[n [ns|e]] r IHl]; simpl; congruence. Qed.

  Definition dep_body (v : json) (m : list (str * json)) (kd : str * json) : bool :=
    if has_key (fst kd) m then
      match snd kd with
      | JArr names => forallb (fun n => match n with JStr s0 => has_key s0 m | _ => true end) names
      | d => F d v
      end
    else true.

  Lemma deps_go_forallb v (m : list (str * json)) l :
    (fix go (l : list (str * json)) : bool :=
       match l with
       | [] => true
       | (key, d) :: r =>
         (if has_key key m then
            match d with
            | JArr names => forallb (fun n => match n with JStr s0 => has_key s0 m | _ => true end) names
            | _ => F d v
            end
          else true) && go r
       end) l = forallb (dep_body v m) l.
  Proof. induction l as [|[key d] r IHl]; [reflexivity|]. cbn [forallb]. rewrite IHl. unfold dep_body. cbn [fst snd]. destruct d; reflexivity. Qed.

  Definition dl1 := match k_dependencies k1 with Some l => l | None => [] end.
  Definition dl2 := match k_dependencies k2 with Some l => l | None => [] end.

  Lemma deps_dict : length dl1 = length dl2 /\ dsub (dep_rel elem_eq) dl1 dl2 = true /\ NoDup (keys dl1) /\ NoDup (keys dl2) /\
                    (k_dependencies k1 = None <-> k_dependencies k2 = None).
  Proof.
    destruct HEf as (_ & _ & _ & _ & _ & _ & _ & _ & H).
    destruct W1 as (_ & _ & _ & _ & _ & _ & _ & _ & _ & _ & _ & _ & _ & _ & _ & _ & K1).
    destruct W2 as (_ & _ & _ & _ & _ & _ & _ & _ & _ & _ & _ & _ & _ & _ & _ & _ & K2).
    unfold dl1, dl2. destruct (k_dependencies k1) as [l1|], (k_dependencies k2) as [l2|]; simpl in H; try discriminate.
    - apply andb_true_iff in H as [Hl Hs]. apply PeanoNat.Nat.eqb_eq in Hl. rewrite deps_sub_dsub in Hs.
      repeat split; auto; discriminate.
    - repeat split; auto; constructor.
  Qed.

  Lemma dep_body_rel v m n d1 d2 : jwf v -> In (n, d1) dl1 -> In (n, d2) dl2 -> dep_rel elem_eq d1 d2 = true ->
    dep_body v m (n, dep_json d1) = dep_body v m (n, dep_json d2).
  Proof.
    intros Hv H1 H2 HR. unfold dep_body. cbn [fst snd]. destruct (has_key n m); [|reflexivity].
    destruct d1 as [ns1|x], d2 as [ns2|y]; simpl in HR; try discriminate; cbn [dep_json].
    - apply strs_eq in HR. now subst.
    - assert (Hx : In x (ksub k1)).
      { apply ks_deps. unfold dl1 in H1. destruct (k_dependencies k1); [|contradiction]. apply in_flat_map. exists (n, DepElem x). split; [auto|now left]. }
      assert (Hy : In y (ksub k2)).
      { apply ks_deps. unfold dl2 in H2. destruct (k_dependencies k2); [|contradiction]. apply in_flat_map. exists (n, DepElem y). split; [auto|now left]. }
      pose proof (sub_nonarr k1 x N1 Hx) as A1. pose proof (sub_nonarr k2 y N2 Hy) as A2.
      pose proof (IH x y Hx Hy HR v Hv) as Hf.
      destruct (sub x), (sub y); try contradiction; exact Hf.
  Qed.

  Lemma L_deps v (m : list (str * json)) : jwf v ->
    wkey (fun Sd => match Sd with
                    | JObj deps =>
                      (fix go (l : list (str * json)) : bool :=
                         match l with
                         | [] => true
                         | (key, d) :: r =>
                           (if has_key key m then
                              match d with
                              | JArr names => forallb (fun n => match n with JStr s0 => has_key s0 m | _ => true end) names
                              | _ => F d v
                              end
                            else true) && go r
                         end) deps
                    | _ => true end) (s_ "dependencies") kvs1 true =
    wkey (fun Sd => match Sd with
                    | JObj deps =>
                      (fix go (l : list (str * json)) : bool :=
                         match l with
                         | [] => true
                         | (key, d) :: r =>
                           (if has_key key m then
                              match d with
                              | JArr names => forallb (fun n => match n with JStr s0 => has_key s0 m | _ => true end) names
                              | _ => F d v
                              end
                            else true) && go r
                         end) deps
                    | _ => true end) (s_ "dependencies") kvs2 true.
  Proof.
    intros Hv. rewrite !wkey_lookup. unfold kvs1, kvs2. rewrite (lk_deps sub k1 _ Ht), (lk_deps sub k2 _ Ht).
    destruct deps_dict as (Hl & Hd & Hn1 & Hn2 & Hnone).
    destruct (k_dependencies k1) as [l1|] eqn:E1, (k_dependencies k2) as [l2|] eqn:E2; cbn [option_map];
      try reflexivity; try (exfalso; destruct Hnone as [A B]; (discriminate (A eq_refl) || discriminate (B eq_refl))).
    rewrite !deps_go_forallb, !s_deps_map.
    assert (D1' : dl1 = l1) by (unfold dl1; now rewrite E1). assert (D2' : dl2 = l2) by (unfold dl2; now rewrite E2).
    rewrite D1', D2' in *.
    apply eq_true_iff_eq. rewrite !forallb_forall. split; intros H kd Hin; apply in_map_iff in Hin as ([n d] & <- & Hin); cbn [fst snd].
    - destruct (dict_back _ _ _ Hn1 Hn2 Hl Hd n d Hin) as (d1 & H1 & HR).
      rewrite <- (dep_body_rel v m n d1 d Hv); [|rewrite D1'; exact H1|rewrite D2'; exact Hin|exact HR].
      apply H. apply in_map_iff. exists (n, d1). auto.
    - destruct (dict_fwd _ _ _ Hd n d Hin) as (d2 & H2 & HR).
      rewrite (dep_body_rel v m n d d2 Hv); [|rewrite D1'; exact Hin|rewrite D2'; exact H2|exact HR].
      apply H. apply in_map_iff. exists (n, d2). auto.
  Qed.

  (* ---- the element ---- *)
  Theorem ek_cong :
    (forall n, onf (k_multipleOf k1) (fun m => match n, py_num m with
                              | Some vn, Some mn =>
                                match multiple_of_check vn mn with PVal b => b | PExn _ => false end
                              | _, _ => true end) =
               onf (k_multipleOf k2) (fun m => match n, py_num m with
                              | Some vn, Some mn =>
                                match multiple_of_check vn mn with PVal b => b | PExn _ => false end
                              | _, _ => true end)) ->
    forall v, jwf v -> F (JObj kvs1) v = F (JObj kvs2) v.
  Proof.
    intros Hm v Hv. cbn [v6].
    unfold kvs1 at 5, kvs2 at 5. rewrite (comp_absent O w c k1 D1 v), (comp_absent O w c k2 D2 v).
    unfold kvs1 at 1, kvs2 at 1. rewrite (cl_type_c c k1 D1 v), (cl_type_c c k2 D2 v).
    unfold kvs1 at 1, kvs2 at 1. rewrite (cl_scalar_ser O sub k1 _ v Ht), (cl_scalar_ser O sub k2 _ v Ht).
    rewrite (cls_cong O k1 k2 v Hv W1 W2 HE Hm).
    rewrite (cl_items_cong O w kvs1 kvs2 L_items) ; [|unfold kvs1, kvs2; rewrite (lk_addi sub k1 _ Ht), (lk_addi sub k2 _ Ht);
        destruct HEf as (_ & H & _); apply L_addl; [exact H|apply ks_addi|apply ks_addi]
      |unfold kvs1, kvs2; rewrite (lk_contains sub k1 _ Ht), (lk_contains sub k2 _ Ht);
        destruct HEf as (_ & _ & H & _); apply L_opt; [exact H|apply ks_contains|apply ks_contains]
      |exact Hv].
    rewrite (cl_object_cong O w kvs1 kvs2 L_req L_mem); [reflexivity|intros; now apply L_deps| |exact Hv].
    unfold kvs1, kvs2. rewrite (lk_pnames sub k1 _ Ht), (lk_pnames sub k2 _ Ht).
    destruct HEf as (_ & _ & _ & _ & _ & _ & _ & H & _). apply L_opt; [exact H|apply ks_pnames|apply ks_pnames].
  Qed.
End EKc.


(* ---- multipleOf: the keyword for which equality is not a congruence (finding K17) ---- *)
Definition mok_local (e : elem) : Prop :=
  match e with
  | EK _ k | EObj _ _ k => match k_multipleOf k with Some (JFlt _) => False | _ => True end
  | _ => True
  end.
Inductive mokh : elem -> Prop :=
| mokh_i e : mok_local e -> Forall mokh (children e) -> mokh e.

Lemma num_eqb_ints z1 z2 : num_eqb (NZ z1) (NZ z2) = true -> z1 = z2.
Proof.
  unfold num_eqb, num_cmp, dy_of_num, dy_of_Z, dy_cmp. cbn [dm de]. rewrite Z.min_id, Z.sub_diag. cbn [Z.pow].
  rewrite !Z.mul_1_r. destruct (Z.compare z1 z2) eqn:E; try discriminate. intros _. now apply Z.compare_eq.
Qed.

Lemma mult_agree (o1 o2 : option json) :
  (match o1 with Some (JFlt _) => False | _ => True end) -> (match o2 with Some (JFlt _) => False | _ => True end) ->
  opt_eqb js_eq o1 o2 = true ->
  forall n, onf o1 (fun m => match n, py_num m with
                             | Some vn, Some mn => match multiple_of_check vn mn with PVal b => b | PExn _ => false end
                             | _, _ => true end) =
            onf o2 (fun m => match n, py_num m with
                             | Some vn, Some mn => match multiple_of_check vn mn with PVal b => b | PExn _ => false end
                             | _, _ => true end).
Proof.
  intros M1 M2 H n. destruct o1 as [p1|], o2 as [p2|]; simpl in H; try discriminate; [|reflexivity].
  unfold onf. destruct n as [vn|]; [|reflexivity].
  destruct p1, p2; simpl in H; try discriminate; try contradiction; try reflexivity.
  - apply Bool.eqb_prop in H. now subst.
  - apply num_eqb_ints in H. now subst.
Qed.

(* ---- equal elements, same meaning of their documents ---- *)
Section Main.
  Variable O : oracles.
  Variable w : wmode.
  Hypothesis Hw : w <> WAlways.
  Notation F := (v6 O w).

  Definition good (e : elem) : Prop := dsl e /\ ewf e /\ mokh e.

  Lemma good_children e : good e -> Forall good (children e) /\ local_dsl e /\ local_wf e /\ mok_local e.
  Proof.
    intros (Hd & He & Hm). inversion Hd as [? Hl1 Hc1]; subst. inversion He as [? Hl2 Hc2]; subst. inversion Hm as [? Hl3 Hc3]; subst.
    split; [|split; [exact Hl1|split; [exact Hl2|exact Hl3]]]. rewrite Forall_forall in *. intros x Hx.
    split; [apply Hc1|split; [apply Hc2|apply Hc3]]; exact Hx.
  Qed.

  Ltac lits :=
    repeat match goal with |- context [str_eqb (s_ ?a) (s_ ?b)] =>
             let r := eval vm_compute in (str_eqb (s_ a) (s_ b)) in change (str_eqb (s_ a) (s_ b)) with r end;
    cbv iota.

  Theorem ser_cong : forall a, good a -> forall b, good b -> elem_eq a b = true ->
    forall v, jwf v -> F (ser a) v = F (ser b) v.
  Proof.
    apply (elem_ind' (fun a => good a -> forall b, good b -> elem_eq a b = true -> forall v, jwf v -> F (ser a) v = F (ser b) v)).
    intros a IH Ga b Gb He v Hv.
    destruct (good_children a Ga) as (Ca & La & Wa & Ma). destruct (good_children b Gb) as (Cb & Lb & Wb & Mb).
    assert (Hnoobj : forall e, good e -> noobj e) by (intros e (Hd & _); now apply dsl_noobj).
    destruct a as [c1 k1| |x d1|m1 es1 d1|n1 b1 k1], b as [c2 k2| |y d2|m2 es2 d2|n2 b2 k2]; cbn [elem_eq] in He; try discriminate;
      try contradiction; cbn [children] in *.
    - (* Element / typed *)
      apply andb_true_iff in He as [Hc HE].
      assert (c1 = c2) by (destruct c1, c2; try discriminate; reflexivity). subst c2.
      rewrite !ser_EK.
      apply (ek_cong O w Hw c1 k1 k2 HE Wa Wb La Lb).
      + apply Forall_forall. intros x Hx. apply Hnoobj. rewrite Forall_forall in Ca. auto.
      + apply Forall_forall. intros x Hx. apply Hnoobj. rewrite Forall_forall in Cb. auto.
      + intros x y Hx Hy Hxy v' Hv'. rewrite Forall_forall in IH, Ca, Cb.
        rewrite (sub_ser x (Hnoobj x (Ca x Hx))), (sub_ser y (Hnoobj y (Cb y Hy))).
        exact (IH x Hx (Ca x Hx) y (Cb y Hy) Hxy v' Hv').
      + apply mult_agree; [exact Ma|exact Mb|].
        unfold kwds_eq in HE. repeat match type of HE with _ && _ = true => let H2 := fresh "E" in apply andb_true_iff in HE as [HE H2] end.
        assumption.
      + exact Hv.
    - reflexivity.
    - (* Not *)
      apply andb_true_iff in He as [Hxy _].
      inversion IH as [|? ? IHx _]; subst. inversion Ca as [|? ? Gx _]; subst. inversion Cb as [|? ? Gy _]; subst.
      change (ser (ENot x d1)) with (JObj ((match d1 with Some j => [(s_ "default", j)] | None => [] end) ++ [(s_ "not", sub x)])).
      change (ser (ENot y d2)) with (JObj ((match d2 with Some j => [(s_ "default", j)] | None => [] end) ++ [(s_ "not", sub y)])).
      rewrite (v6_single O w d1 "not" (sub x) v), (v6_single O w d2 "not" (sub y) v) by (cbn; tauto).
      unfold cl_comp. cbn [wkey]. lits.
      rewrite (sub_ser x (Hnoobj x Gx)), (sub_ser y (Hnoobj y Gy)). now rewrite (IHx Gx y Gy Hxy v Hv).
    - (* AnyOf / OneOf / AllOf *)
      apply andb_true_iff in He as [He _]. apply andb_true_iff in He as [Hm Hes].
      assert (m1 = m2) by (destruct m1, m2; try discriminate; reflexivity). subst m2.
      change (ser (EComp m1 es1 d1)) with (JObj ((match d1 with Some j => [(s_ "default", j)] | None => [] end) ++ [(mode_key m1, JArr (s_elems sub es1))])).
      change (ser (EComp m1 es2 d2)) with (JObj ((match d2 with Some j => [(s_ "default", j)] | None => [] end) ++ [(mode_key m1, JArr (s_elems sub es2))])).
      assert (Hpt : map (fun S0 => F S0 v) (s_elems sub es1) = map (fun S0 => F S0 v) (s_elems sub es2)).
      { clear La Lb Wa Wb Ma Mb Ga Gb. revert es2 Cb Hes. induction es1 as [|x r IHl]; intros [|y s] Cb Hes; simpl in Hes; try discriminate; [reflexivity|].
        apply andb_true_iff in Hes as [Hxy Hr]. inversion IH as [|? ? IHx IHr]; subst. inversion Ca as [|? ? Gx Gr]; subst.
        inversion Cb as [|? ? Gy Gs]; subst. simpl. f_equal.
        - rewrite (sub_ser x (Hnoobj x Gx)), (sub_ser y (Hnoobj y Gy)). exact (IHx Gx y Gy Hxy v Hv).
        - apply IHl; auto. }
      assert (Hfa : forall l, forallb (fun S' => F S' v) l = forallb (fun b => b) (map (fun S0 => F S0 v) l)).
      { induction l; simpl; congruence. }
      assert (Hex : forall l, existsb (fun S' => F S' v) l = existsb (fun b => b) (map (fun S0 => F S0 v) l)).
      { induction l; simpl; congruence. }
      destruct m1; unfold mode_key.
      + rewrite (v6_single O w d1 "anyOf" _ v), (v6_single O w d2 "anyOf" _ v) by (cbn; tauto).
        unfold cl_comp. cbn [wkey]. lits. now rewrite !Hex, Hpt.
      + rewrite (v6_single O w d1 "oneOf" _ v), (v6_single O w d2 "oneOf" _ v) by (cbn; tauto).
        unfold cl_comp. cbn [wkey]. lits. rewrite <- !(filter_map_len (s_elems sub es1)), <- !(filter_map_len (s_elems sub es2)).
        now rewrite Hpt.
      + rewrite (v6_single O w d1 "allOf" _ v), (v6_single O w d2 "allOf" _ v) by (cbn; tauto).
        unfold cl_comp. cbn [wkey]. lits. now rewrite !Hfa, Hpt.
  Qed.

  (* with C03_meaning: equal elements accept the same values, up to crashes *)
  Corollary equal_same_verdict a b : good a -> good b -> elem_eq a b = true ->
    forall v, jwf v -> ncrash (build O a (Some v)) -> ncrash (build O b (Some v)) ->
    is_ok (build O a (Some v)) = is_ok (build O b (Some v)).
  Proof.
    intros Ga Gb He v Hv N1 N2.
    pose proof (ser_meaning O w Hw a (proj1 Ga) v Hv) as H1.
    pose proof (ser_meaning O w Hw b (proj1 Gb) v Hv) as H2.
    pose proof (ser_cong a Ga b Gb He v Hv) as Hc. unfold ser in *.
    unfold om in H1, H2. unfold ncrash in N1, N2.
    destruct (build O a (Some v)), (build O b (Some v)); try contradiction; simpl; congruence.
  Qed.
End Main.

(* ---- the executable premise is sound ---- *)
Lemma jwfb_sound : forall j, jwfb j = true -> jwf j.
Proof.
  induction j using json_ind'; intros Hb; cbn [jwfb] in Hb; try exact I.
  - simpl. destruct f; try exact I; discriminate.
  - apply jwf_arr. rewrite forallb_forall in Hb. rewrite Forall_forall in *. auto.
  - apply andb_true_iff in Hb as [H1 H2]. apply jwf_obj. split; [now apply nodupb_sound|].
    induction H as [|[k v] r Hx Hr IHr]; [constructor|]. apply andb_true_iff in H2 as [Hv Hr2].
    constructor; [apply Hx; exact Hv|]. apply IHr; [|exact Hr2].
    simpl in H1. apply andb_true_iff in H1 as [_ H1]. exact H1.
Qed.

Lemma owfb_sound o : owfb o = true -> owf o.
Proof. destruct o; simpl; auto. apply jwfb_sound. Qed.
Lemma lwfb_sound o : lwfb o = true -> lwf o.
Proof. destruct o as [l|]; simpl; auto. intros H. rewrite forallb_forall in H. apply Forall_forall. intros x Hx. apply jwfb_sound; auto. Qed.
Lemma okeysb_sound' {A} (o : option (list (str * A))) : okeysb o = true -> EqualityProof.okeys o.
Proof. destruct o; simpl; auto. apply nodupb_sound. Qed.

Lemma kwfb_sound k : kwfb k = true -> kwf k.
Proof.
  unfold kwfb, kwf. intros H.
  repeat match type of H with _ && _ = true => let H2 := fresh "Hk" in apply andb_true_iff in H as [H H2] end.
  repeat split; try (apply owfb_sound; assumption); try (apply lwfb_sound; assumption); try (apply okeysb_sound'; assumption).
Qed.

Lemma local_wfb_sound e : local_wfb e = true -> local_wf e.
Proof. destruct e; simpl; auto using kwfb_sound, owfb_sound. Qed.

Lemma mok_localb_sound e : mok_localb e = true -> mok_local e.
Proof.
  destruct e as [c k| | | |n b k]; simpl; auto; destruct (k_multipleOf k) as [[| | | | | |]|]; auto; discriminate.
Qed.

Theorem goodb_sound : forall fuel e, goodb fuel e = true -> good e.
Proof.
  induction fuel as [|n IH]; intros e H; [discriminate|]. cbn [goodb] in H.
  apply andb_true_iff in H as [H H4]. apply andb_true_iff in H as [H H3]. apply andb_true_iff in H as [H1 H2].
  rewrite forallb_forall in H4.
  assert (Hc : forall x, In x (children e) -> good x) by (intros x Hx; apply IH; auto).
  split; [|split].
  - constructor; [now apply local_dslb_sound|]. apply Forall_forall. intros x Hx. apply (Hc x Hx).
  - constructor; [now apply local_wfb_sound|]. apply Forall_forall. intros x Hx. apply (Hc x Hx).
  - constructor; [now apply mok_localb_sound|]. apply Forall_forall. intros x Hx. apply (Hc x Hx).
Qed.
