(* C01Examples.v — non-vacuity of C01_validity_plain: a concrete schema using every keyword family
   lies in the plain fragment, parses, and its element accepts / rejects concrete values exactly
   as v6 says (all by computation).  Generated once by harness (coqemit); static thereafter. *)
From Coq Require Import String Floats.SpecFloat.
From Statham.Model Require Import Str Json Elem PyNum Validate Tables Parser Spec6 Plain RunHelpers.
From Statham.Generated Require Gen_unicode Gen_reserved Gen_constants Gen_parser_tables.
From Statham.Proofs Require Import JsonEqProof C01Vm C01Plain C01Parse.
Local Open Scope string_scope.
Local Open Scope list_scope.

Definition ex_cfg : pcfg :=
  mkCfg (tbl_unicode Gen_unicode.alnum_ranges []) Gen_reserved.reserved
        Gen_constants.unsupported_keywords Gen_parser_tables.comp_order_now.
Definition ex_O : oracles := tbl_oracles [((s_ "^[A-Z]"), [(s_ "AB")]); ((s_ "^x_"), [(s_ "x_a")])] [].
Definition ex_schema : json := (JObj [((s_ "title"), (JStr (s_ "order line"))); ((s_ "properties"), (JObj [((s_ "sku"), (JObj [((s_ "type"), (JStr (s_ "string"))); ((s_ "minLength"), (JInt (2)%Z)); ((s_ "pattern"), (JStr (s_ "^[A-Z]")))])); ((s_ "qty"), (JObj [((s_ "type"), (JStr (s_ "integer"))); ((s_ "minimum"), (JInt (1)%Z)); ((s_ "multipleOf"), (JInt (1)%Z))])); ((s_ "tags"), (JObj [((s_ "type"), (JStr (s_ "array"))); ((s_ "items"), (JObj [((s_ "type"), (JStr (s_ "string")))])); ((s_ "uniqueItems"), (JBool true)); ((s_ "maxItems"), (JInt (3)%Z))])); ((s_ "pair"), (JObj [((s_ "type"), (JStr (s_ "array"))); ((s_ "items"), (JArr [(JObj [((s_ "type"), (JStr (s_ "number")))]); (JObj [((s_ "type"), (JArr [(JStr (s_ "string")); (JStr (s_ "null"))]))])])); ((s_ "additionalItems"), (JBool false))])); ((s_ "opt"), (JObj [((s_ "anyOf"), (JArr [(JObj [((s_ "type"), (JStr (s_ "null")))]); (JObj [((s_ "type"), (JStr (s_ "boolean")))])])); ((s_ "not"), (JObj [((s_ "const"), (JBool false))]))]))])); ((s_ "patternProperties"), (JObj [((s_ "^x_"), (JObj [((s_ "type"), (JStr (s_ "number"))); ((s_ "exclusiveMaximum"), (JInt (10)%Z))]))])); ((s_ "additionalProperties"), (JBool false)); ((s_ "required"), (JArr [(JStr (s_ "sku")); (JStr (s_ "qty"))])); ((s_ "minProperties"), (JInt (2)%Z)); ((s_ "dependencies"), (JObj [((s_ "tags"), (JArr [(JStr (s_ "sku"))])); ((s_ "pair"), (JObj [((s_ "required"), (JArr [(JStr (s_ "tags"))]))]))])); ((s_ "propertyNames"), (JObj [((s_ "maxLength"), (JInt (5)%Z))])); ((s_ "oneOf"), (JArr [(JObj [((s_ "required"), (JArr [(JStr (s_ "opt"))]))]); (JObj [((s_ "required"), (JArr [(JStr (s_ "pair"))]))]); (JObj [((s_ "maxProperties"), (JInt (3)%Z))])]))]).
Definition ex_good : list json := [(JObj [((s_ "sku"), (JStr (s_ "AB"))); ((s_ "qty"), (JInt (3)%Z)); ((s_ "x_a"), (JFlt (S754_finite false 5629499534213120%positive (-51)%Z)))]); (JObj [((s_ "sku"), (JStr (s_ "AB"))); ((s_ "qty"), (JInt (3)%Z)); ((s_ "tags"), (JArr [(JStr (s_ "a")); (JStr (s_ "b"))])); ((s_ "pair"), (JArr [(JInt (1)%Z); JNull]))])].
Definition ex_bad : list json := [(JObj [((s_ "sku"), (JStr (s_ "ab"))); ((s_ "qty"), (JInt (3)%Z))]); (JObj [((s_ "sku"), (JStr (s_ "AB"))); ((s_ "qty"), (JInt (0)%Z)); ((s_ "x_a"), (JInt (1)%Z))]); (JObj [((s_ "sku"), (JStr (s_ "AB"))); ((s_ "qty"), (JInt (1)%Z)); ((s_ "zzz"), (JInt (1)%Z))]); (JObj [((s_ "sku"), (JStr (s_ "AB"))); ((s_ "qty"), (JInt (2)%Z)); ((s_ "tags"), (JArr [(JStr (s_ "a")); (JStr (s_ "a"))]))]); (JObj [((s_ "sku"), (JStr (s_ "AB"))); ((s_ "qty"), (JInt (2)%Z)); ((s_ "pair"), (JArr [(JInt (1)%Z); (JStr (s_ "s")); (JInt (3)%Z)])); ((s_ "tags"), (JArr []))]); (JObj [((s_ "sku"), (JStr (s_ "AB"))); ((s_ "qty"), (JInt (2)%Z)); ((s_ "opt"), (JBool false))]); (JObj [((s_ "sku"), (JStr (s_ "AB"))); ((s_ "qty"), (JInt (2)%Z)); ((s_ "x_a"), (JInt (10)%Z))]); (JArr [(JInt (1)%Z)]); (JInt (7)%Z); (JObj [((s_ "sku"), (JStr (s_ "AB"))); ((s_ "qty"), (JInt (2)%Z)); ((s_ "toolong"), (JInt (1)%Z))])].

Example ex_in_fragment : plainb ex_cfg 10 ex_schema = true.
Proof. vm_compute. reflexivity. Qed.

Example ex_premises : plain ex_cfg ex_schema /\ comp_complete ex_cfg.
Proof. split; [exact (plainb_sound ex_cfg 10 ex_schema ex_in_fragment)|apply real_comp_complete]. Qed.

Definition ex_elem : option elem :=
  match parse_element ex_cfg ex_schema [] with POk (e, _) => Some e | PErr _ => None end.

Example ex_parses_and_decides :
  match ex_elem with
  | Some e =>
    forallb (fun v => is_ok (build ex_O e (Some v)) && v6 ex_O WCode ex_schema v) ex_good = true /\
    forallb (fun v => match build ex_O e (Some v) with Rej => negb (v6 ex_O WCode ex_schema v) | _ => false end) ex_bad = true
  | None => False
  end.
Proof. vm_compute. split; reflexivity. Qed.
