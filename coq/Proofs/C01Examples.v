(* C01Examples.v — non-vacuity of C01_validity_plain: a concrete schema using every keyword family
   lies in the plain fragment, parses, and its element accepts / rejects concrete values exactly
   as v6 says (all by computation).  Generated once by harness (coqemit); static thereafter. *)
From Coq Require Import String Floats.SpecFloat.
From Statham.Model Require Import Str Json Elem PyNum Validate Tables Parser Spec6 Plain RunHelpers.
From Statham.Generated Require Gen_unicode Gen_reserved Gen_constants Gen_parser_tables.
From Statham.Proofs Require Import JsonEqProof C01Vm C01Plain C01Parse C01Thread.
Local Open Scope string_scope.
Local Open Scope list_scope.

Definition ex_cfg : pcfg :=
  mkCfg (tbl_unicode Gen_unicode.alnum_ranges []) Gen_reserved.reserved
        Gen_constants.unsupported_keywords Gen_parser_tables.comp_order_now.
Definition ex_O : oracles := tbl_oracles [((s_ "^[A-Z]"), [(s_ "AB")]); ((s_ "^x_"), [(s_ "x_a")])] [].
Definition ex_schema : json := (JObj [((s_ "title"), (JStr (s_ "order line"))); ((s_ "properties"), (JObj [((s_ "sku"), (JObj [((s_ "type"), (JStr (s_ "string"))); ((s_ "minLength"), (JInt (2)%Z)); ((s_ "pattern"), (JStr (s_ "^[A-Z]")))])); ((s_ "qty"), (JObj [((s_ "type"), (JStr (s_ "integer"))); ((s_ "minimum"), (JInt (1)%Z)); ((s_ "multipleOf"), (JInt (1)%Z))])); ((s_ "tags"), (JObj [((s_ "type"), (JStr (s_ "array"))); ((s_ "items"), (JObj [((s_ "type"), (JStr (s_ "string")))])); ((s_ "uniqueItems"), (JBool true)); ((s_ "maxItems"), (JInt (3)%Z))])); ((s_ "pair"), (JObj [((s_ "type"), (JStr (s_ "array"))); ((s_ "items"), (JArr [(JObj [((s_ "type"), (JStr (s_ "number")))]); (JObj [((s_ "type"), (JArr [(JStr (s_ "string")); (JStr (s_ "null"))]))])])); ((s_ "additionalItems"), (JBool false))])); ((s_ "opt"), (JObj [((s_ "anyOf"), (JArr [(JObj [((s_ "type"), (JStr (s_ "null")))]); (JObj [((s_ "type"), (JStr (s_ "boolean")))])])); ((s_ "not"), (JObj [((s_ "const"), (JBool false))]))]))])); ((s_ "patternProperties"), (JObj [((s_ "^x_"), (JObj [((s_ "type"), (JStr (s_ "number"))); ((s_ "exclusiveMaximum"), (JInt (10)%Z))]))])); ((s_ "additionalProperties"), (JBool false)); ((s_ "required"), (JArr [(JStr (s_ "sku")); (JStr (s_ "qty"))])); ((s_ "minProperties"), (JInt (2)%Z)); ((s_ "dependencies"), (JObj [((s_ "tags"), (JArr [(JStr (s_ "sku"))])); ((s_ "pair"), (JObj [((s_ "required"), (JArr [(JStr (s_ "tags"))]))]))])); ((s_ "propertyNames"), (JObj [((s_ "maxLength"), (JInt (5)%Z))])); ((s_ "oneOf"), (JArr [(JObj [((s_ "required"), (JArr [(JStr (s_ "opt"))]))]); (JObj [((s_ "required"), (JArr [(JStr (s_ "pair"))]))]); (JObj [((s_ "maxProperties"), (JInt (3)%Z))])]))]).
Definition ex_good : list json := [(JObj [((s_ "sku"), (JStr (s_ "AB"))); ((s_ "qty"), (JInt (3)%Z)); ((s_ "x_a"), (JFlt (S754_finite false 5629499534213120%positive (-51)%Z)))]); (JObj [((s_ "sku"), (JStr (s_ "AB"))); ((s_ "qty"), (JInt (3)%Z)); ((s_ "tags"), (JArr [(JStr (s_ "a")); (JStr (s_ "b"))])); ((s_ "pair"), (JArr [(JInt (1)%Z); JNull]))])].
Definition ex_bad : list json := [(JObj [((s_ "sku"), (JStr (s_ "ab"))); ((s_ "qty"), (JInt (3)%Z))]); (JObj [((s_ "sku"), (JStr (s_ "AB"))); ((s_ "qty"), (JInt (0)%Z)); ((s_ "x_a"), (JInt (1)%Z))]); (JObj [((s_ "sku"), (JStr (s_ "AB"))); ((s_ "qty"), (JInt (1)%Z)); ((s_ "zzz"), (JInt (1)%Z))]); (JObj [((s_ "sku"), (JStr (s_ "AB"))); ((s_ "qty"), (JInt (2)%Z)); ((s_ "tags"), (JArr [(JStr (s_ "a")); (JStr (s_ "a"))]))]); (JObj [((s_ "sku"), (JStr (s_ "AB"))); ((s_ "qty"), (JInt (2)%Z)); ((s_ "pair"), (JArr [(JInt (1)%Z); (JStr (s_ "s")); (JInt (3)%Z)])); ((s_ "tags"), (JArr []))]); (JObj [((s_ "sku"), (JStr (s_ "AB"))); ((s_ "qty"), (JInt (2)%Z)); ((s_ "opt"), (JBool false))]); (JObj [((s_ "sku"), (JStr (s_ "AB"))); ((s_ "qty"), (JInt (2)%Z)); ((s_ "x_a"), (JInt (10)%Z))]); (JArr [(JInt (1)%Z)]); (JInt (7)%Z); (JObj [((s_ "sku"), (JStr (s_ "AB"))); ((s_ "qty"), (JInt (2)%Z)); ((s_ "toolong"), (JInt (1)%Z))])].

Example ex_in_fragment : plainb ex_cfg false 10 ex_schema = true.
Proof. vm_compute. reflexivity. Qed.

Example ex_premises : plain ex_cfg false ex_schema /\ comp_complete ex_cfg.
Proof. split; [exact (plainb_sound ex_cfg false 10 ex_schema ex_in_fragment)|apply real_comp_complete]. Qed.

Definition ex_elem : option elem :=
  match parse_element ex_cfg ex_schema [] with POk (e, _) => Some e | PErr _ => None end.

Example ex_parses_and_decides :
  match ex_elem with
  | Some e =>
    forallb (fun v => is_ok (build ex_O e (Some v)) && v6 ex_O WCode ex_schema v) ex_good = true /\
    forallb (fun v => match build ex_O e (Some v) with Rej => negb (v6 ex_O WCode ex_schema v) | _ => false end) ex_bad = true
  | None => False
  end.
Proof. vm_compute. split; reflexivity. Qed.

(* ---- a schema with classes: nested and composed object nodes, a required property waived by
   its default, additionalProperties false on a class ---- *)
Definition exo_O : oracles := tbl_oracles [((s_ "^[A-Z]"), [(s_ "A"); (s_ "B"); (s_ "C")]); ((s_ "^x_"), [(s_ "x_1")])] [].
Definition exo_schema : json := (JObj [((s_ "type"), (JStr (s_ "object"))); ((s_ "title"), (JStr (s_ "order"))); ((s_ "required"), (JArr [(JStr (s_ "id")); (JStr (s_ "lines")); (JStr (s_ "note"))])); ((s_ "properties"), (JObj [((s_ "id"), (JObj [((s_ "type"), (JStr (s_ "integer"))); ((s_ "minimum"), (JInt (1)%Z))])); ((s_ "note"), (JObj [((s_ "type"), (JStr (s_ "string"))); ((s_ "default"), (JStr (s_ "-")))])); ((s_ "lines"), (JObj [((s_ "type"), (JStr (s_ "array"))); ((s_ "minItems"), (JInt (1)%Z)); ((s_ "items"), (JObj [((s_ "type"), (JStr (s_ "object"))); ((s_ "title"), (JStr (s_ "line"))); ((s_ "required"), (JArr [(JStr (s_ "sku"))])); ((s_ "properties"), (JObj [((s_ "sku"), (JObj [((s_ "type"), (JStr (s_ "string"))); ((s_ "pattern"), (JStr (s_ "^[A-Z]")))])); ((s_ "qty"), (JObj [((s_ "type"), (JStr (s_ "integer"))); ((s_ "default"), (JInt (1)%Z))]))])); ((s_ "additionalProperties"), (JBool false))]))])); ((s_ "buyer"), (JObj [((s_ "anyOf"), (JArr [(JObj [((s_ "type"), (JStr (s_ "object"))); ((s_ "title"), (JStr (s_ "person"))); ((s_ "properties"), (JObj [((s_ "name"), (JObj [((s_ "type"), (JStr (s_ "string")))]))])); ((s_ "required"), (JArr [(JStr (s_ "name"))]))]); (JObj [((s_ "type"), (JStr (s_ "null")))])]))]))])); ((s_ "patternProperties"), (JObj [((s_ "^x_"), (JObj []))])); ((s_ "additionalProperties"), (JBool false)); ((s_ "maxProperties"), (JInt (6)%Z)); ((s_ "dependencies"), (JObj [((s_ "buyer"), (JArr [(JStr (s_ "note"))]))]))]).
Definition exo_good : list json := [(JObj [((s_ "id"), (JInt (1)%Z)); ((s_ "lines"), (JArr [(JObj [((s_ "sku"), (JStr (s_ "A")))])]))]); (JObj [((s_ "id"), (JInt (2)%Z)); ((s_ "note"), (JStr (s_ "n"))); ((s_ "lines"), (JArr [(JObj [((s_ "sku"), (JStr (s_ "B"))); ((s_ "qty"), (JInt (2)%Z))])])); ((s_ "buyer"), (JObj [((s_ "name"), (JStr (s_ "z")))])); ((s_ "x_1"), (JArr [(JInt (1)%Z)]))]); (JObj [((s_ "id"), (JInt (3)%Z)); ((s_ "lines"), (JArr [(JObj [((s_ "sku"), (JStr (s_ "C")))])])); ((s_ "buyer"), JNull); ((s_ "note"), (JStr (s_ "q")))])].
Definition exo_bad : list json := [(JObj [((s_ "lines"), (JArr [(JObj [((s_ "sku"), (JStr (s_ "A")))])]))]); (JObj [((s_ "id"), (JInt (0)%Z)); ((s_ "lines"), (JArr [(JObj [((s_ "sku"), (JStr (s_ "A")))])]))]); (JObj [((s_ "id"), (JInt (1)%Z)); ((s_ "lines"), (JArr []))]); (JObj [((s_ "id"), (JInt (1)%Z)); ((s_ "lines"), (JArr [(JObj [((s_ "sku"), (JStr (s_ "a")))])]))]); (JObj [((s_ "id"), (JInt (1)%Z)); ((s_ "lines"), (JArr [(JObj [((s_ "sku"), (JStr (s_ "A"))); ((s_ "zz"), (JInt (1)%Z))])]))]); (JObj [((s_ "id"), (JInt (1)%Z)); ((s_ "lines"), (JArr [(JObj [((s_ "sku"), (JStr (s_ "A")))])])); ((s_ "buyer"), (JObj []))]); (JObj [((s_ "id"), (JInt (1)%Z)); ((s_ "lines"), (JArr [(JObj [((s_ "sku"), (JStr (s_ "A")))])])); ((s_ "buyer"), (JObj [((s_ "name"), (JStr (s_ "n")))]))]); (JObj [((s_ "id"), (JInt (1)%Z)); ((s_ "lines"), (JArr [(JObj [((s_ "sku"), (JStr (s_ "A")))])])); ((s_ "other"), (JInt (1)%Z))]); (JArr [(JInt (1)%Z)]); (JStr (s_ "s"))].

Example exo_in_fragment : in_fragment ex_cfg true 12 exo_schema = true.
Proof. vm_compute. reflexivity. Qed.

Example exo_premises : plain ex_cfg true exo_schema /\ (exists u', walk ex_cfg [] exo_schema u') /\ comp_exact ex_cfg.
Proof.
  destruct (in_fragment_sound ex_cfg true 12 exo_schema exo_in_fragment) as [H1 H2].
  split; [exact H1|split; [exact H2|apply real_comp_exact]].
Qed.

Definition exo_elem : option elem :=
  match parse_element ex_cfg exo_schema [] with POk (e, _) => Some e | PErr _ => None end.

Example exo_parses_and_decides :
  match exo_elem with
  | Some e =>
    forallb (fun v => is_ok (build exo_O e (Some v)) && valid6 exo_O exo_schema v) exo_good = true /\
    forallb (fun v => match build exo_O e (Some v) with Rej => negb (valid6 exo_O exo_schema v) | _ => false end) exo_bad = true
  | None => False
  end.
Proof. vm_compute. split; reflexivity. Qed.
