(* C06RoundBase.v — definitions and small facts for C06Round.v: the syntactic round trip on the class-free normal form: for every element e of the
   normal form nf (what the parser builds from class-free schemas without empty required /
   properties), parsing the document the serializer writes gives back e itself, in any parse
   state and without touching it.  Hence serialize(parse(serialize e)) = serialize e. *)
From Coq Require String. Import String.StringSyntax.
From Coq Require Import List Bool Lia.
From Statham.Model Require Import Str Json Elem Sub PyNum Validate Equality Names Tables Parser SerJson Plain SerFrag NfFrag.
From Statham.Proofs Require Import StrFacts ElemInd ParserFacts MetaProof C01Scalar C03Lookup.
Import ListNotations.
Local Open Scope string_scope.
Local Open Scope list_scope.
Arguments s_ : simpl never.

Definition ser : elem -> json := ser_top true true [].
Definition sub (x : elem) : json :=
  match x with EObj n _ _ => ref_to n | _ => from_definitions [] x (ser x) end.
Definition noobj (e : elem) : Prop := match e with EObj _ _ _ => False | _ => True end.

Lemma sub_ser x : noobj x -> sub x = ser x.
Proof. destruct x; try reflexivity. contradiction. Qed.
Lemma ser_EK c k : ser (EK c k) = JObj (ser_kwds true true sub k ++ json_type c).
Proof. reflexivity. Qed.
Lemma ser_schema x : noobj x -> is_schema (ser x) = true /\ (forall l, ser x <> JArr l) /\ (forall b, ser x = JBool b -> x = ENothing).
Proof.
  destruct x; try contradiction; intros _; (split; [reflexivity|split; [intros l; discriminate|]]); intros b H;
    try reflexivity; discriminate.
Qed.

Definition lclean (o : option json) : Prop := match o with Some j => clean j = true | None => True end.
Definition addl_plain (a : addl elem) : Prop := match a with AddElem ENothing => False | _ => True end.

Section NF.
  Variable cfg : pcfg.

  Definition props_nf (E : list str) (o : option (list (str * prop elem))) : Prop :=
    match o with
    | None => True
    | Some l => l <> [] /\ NoDup (keys l) /\
                Forall (fun np : str * prop elem =>
                          p_source (snd np) <> [] /\ fst np = attr cfg (p_source (snd np)) /\
                          p_required (snd np) = mem_str (p_source (snd np)) E) l
    end.

  Definition okeys {A} (o : option (list (str * A))) : Prop :=
    match o with Some l => NoDup (keys l) | None => True end.

  Definition local_nf (e : elem) : Prop :=
    match e with
    | EK c k =>
      lclean (k_default k) /\ lclean (k_const k) /\
      (match k_enum k with Some l => clean (JArr l) = true | None => True end) /\
      filter_kw c k = k /\ (c = CArray -> k_items k <> None) /\
      k_required k <> Some [] /\
      props_nf (match k_required k with Some l => l | None => [] end) (k_properties k) /\
      okeys (k_patternProperties k) /\ okeys (k_dependencies k) /\
      (match k_dependencies k with Some l => deps_sortedb false l = true | None => True end) /\
      addl_plain (k_additionalItems k) /\ addl_plain (k_additionalProperties k)
    | ENothing => True
    | ENot _ d => lclean d
    | EComp m es d =>
      lclean d /\ 2 <= length es /\ (m = MAll -> Forall (fun e' => elem_eq EElement e' = false) es)
    | EObj _ _ _ => False
    end.

  Inductive nf : elem -> Prop :=
  | nf_i e : local_nf e -> Forall nf (children e) -> nf e.

  Lemma nf_noobj e : nf e -> noobj e.
  Proof. intros H. inversion H as [? Hl _]; subst. destruct e; simpl; auto. Qed.
End NF.

(* ---- small facts ---- *)
Lemma bind_ok {A B} (m : M A) (f : A -> M B) st a st1 : m st = POk (a, st1) -> bind m f st = f a st1.
Proof. unfold bind. intros ->. reflexivity. Qed.

Lemma kwds_ext (k1 k2 : kwds elem) :
  k_default k1 = k_default k2 -> k_const k1 = k_const k2 -> k_enum k1 = k_enum k2 -> k_items k1 = k_items k2 ->
  k_additionalItems k1 = k_additionalItems k2 -> k_minItems k1 = k_minItems k2 -> k_maxItems k1 = k_maxItems k2 ->
  k_uniqueItems k1 = k_uniqueItems k2 -> k_contains k1 = k_contains k2 -> k_minimum k1 = k_minimum k2 ->
  k_maximum k1 = k_maximum k2 -> k_exclusiveMinimum k1 = k_exclusiveMinimum k2 ->
  k_exclusiveMaximum k1 = k_exclusiveMaximum k2 -> k_multipleOf k1 = k_multipleOf k2 -> k_format k1 = k_format k2 ->
  k_pattern k1 = k_pattern k2 -> k_minLength k1 = k_minLength k2 -> k_maxLength k1 = k_maxLength k2 ->
  k_required k1 = k_required k2 -> k_properties k1 = k_properties k2 ->
  k_patternProperties k1 = k_patternProperties k2 -> k_additionalProperties k1 = k_additionalProperties k2 ->
  k_minProperties k1 = k_minProperties k2 -> k_maxProperties k1 = k_maxProperties k2 ->
  k_propertyNames k1 = k_propertyNames k2 -> k_dependencies k1 = k_dependencies k2 ->
  k_description k1 = k_description k2 -> k1 = k2.
Proof.
  destruct k1, k2; cbn.
  intros; subst; reflexivity.
Qed.

Lemma existsb_keys_false {A} (L : list str) (kvs : list (str * A)) :
  (forall key, In key (keys kvs) -> mem_str key L = false) ->
  existsb (fun kv => mem_str (fst kv) L) kvs = false.
Proof.
  induction kvs as [|[k v] r IH]; simpl; intros H; [reflexivity|].
  rewrite (H k (or_introl eq_refl)). simpl. apply IH. intros key Hk. apply H. now right.
Qed.

Lemma keys_app {A} (a b : list (str * A)) : keys (a ++ b) = keys a ++ keys b.
Proof. unfold keys. apply map_app. Qed.

Lemma keys_ser_kwds F k : incl (keys (ser_kwds true true F k)) kw_keywords.
Proof.
  unfold ser_kwds. intros x Hx. rewrite !keys_app, !in_app_iff in Hx.
  unfold sj, ss, se, s_addl in Hx.
  assert (G : forall s : String.string, In s ["default"; "const"; "enum"; "items"; "additionalItems"; "minItems"; "maxItems"; "uniqueItems";
          "contains"; "minimum"; "maximum"; "exclusiveMinimum"; "exclusiveMaximum"; "multipleOf"; "format";
          "pattern"; "minLength"; "maxLength"; "required"; "properties"; "patternProperties";
          "additionalProperties"; "minProperties"; "maxProperties"; "propertyNames"; "dependencies";
          "description"] -> In (s_ s) kw_keywords).
  { intros s Hs. unfold kw_keywords. apply in_map. exact Hs. }
  repeat match type of Hx with
         | _ \/ _ => destruct Hx as [Hx|Hx]
         end;
  repeat match type of Hx with
         | In _ (keys (match ?o with _ => _ end)) => destruct o
         | In _ (keys (if ?o then _ else _)) => destruct o
         end; cbn [keys map fst In] in Hx;
  try contradiction;
  try (destruct Hx as [<-|[]]; apply G; cbn [In]; tauto).
Qed.

Lemma keys_json_type c : incl (keys (json_type c)) [s_ "type"].
Proof.
  destruct c; cbn [json_type keys map fst]; intros x Hx; try contradiction; exact Hx.
Qed.

Lemma NoDup_app_l {A} (a b : list A) : NoDup (a ++ b) -> NoDup a.
Proof.
  induction a as [|x r IH]; simpl; intros H; [constructor|].
  inversion H as [|? ? Hn Hr]; subst. constructor; [|now apply IH].
  intros Hin. apply Hn. apply in_or_app. now left.
Qed.
