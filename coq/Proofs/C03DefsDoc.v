(* C03DefsDoc.v — the executable premise DefsFrag.cd_okb is sound, and the statement about the whole
   document serialize_json emits when the caller supplies definitions. *)
From Coq Require String. Import String.StringSyntax.
From Coq Require Import List Bool Lia PeanoNat.
From Statham.Model Require Import Str Json Elem Sub Equality PyNum Validate Tables Spec6 SerJson Resolve NfFrag SerFrag EqFrag ClsFrag RunSer DefsFrag.
From Statham.Proofs Require Import StrFacts ElemInd JsonEqProof EqualityProof C03Lookup C06RoundBase C01Vm C01Items C03Meaning C17Cong
     C03Resolve C03Classes C03Doc C17Classes C03Defs EqDepth.
Import ListNotations.
Local Open Scope string_scope.
Local Open Scope list_scope.
Arguments s_ : simpl never.

(* ---- nodes ---- *)
Lemma reach_snoc r y x : reach r y -> In x (children y) -> reach r x.
Proof.
  induction 1 as [e|e a b Ha Hab IH]; intros Hx.
  - eapply reach_step; [exact Hx|apply reach_refl].
  - eapply reach_step; [exact Ha|exact (IH Hx)].
Qed.

Lemma goodc_reach r y : goodc r -> reach r y -> goodc y.
Proof.
  intros Gr H. induction H as [e|e a b Ha Hab IH]; [exact Gr|]. apply IH.
  destruct (goodc_children e Gr) as (Hc & _). rewrite Forall_forall in Hc. exact (Hc a Ha).
Qed.

Lemma nodes_all_sound fuel : forall roots l, nodes_all fuel roots = Some l ->
  forall r y, In r roots -> reach r y -> In y l.
Proof.
  induction roots as [|r0 rest IH]; intros l H r y Hin Hr; [contradiction|]. cbn [nodes_all] in H.
  destruct (nodes fuel r0) as [a|] eqn:Ea; [|discriminate]. destruct (nodes_all fuel rest) as [b|] eqn:Eb; [|discriminate].
  inversion H; subst. apply in_or_app. destruct Hin as [->|Hin].
  - left. eapply nodes_sound; eauto.
  - right. eapply IH; eauto.
Qed.

(* ---- keys of one layer ---- *)
Lemma shell_keys_nodefs R e kvs : shell R e = JObj kvs -> ~ In (s_ "definitions") (keys kvs).
Proof.
  assert (G : forallb (fun x => negb (str_eqb (s_ "definitions") x)) (kw_keywords ++ map s_ ["type"; "title"; "default"; "not"; "anyOf"; "oneOf"; "allOf"]) = true)
    by (vm_compute; reflexivity).
  rewrite forallb_forall in G.
  assert (Hno : forall y, In y (kw_keywords ++ map s_ ["type"; "title"; "default"; "not"; "anyOf"; "oneOf"; "allOf"]) -> y <> s_ "definitions").
  { intros y Hy ->. specialize (G _ Hy). now rewrite str_eqb_refl in G. }
  intros E Hin. apply (Hno (s_ "definitions")); [|reflexivity]. clear G Hno.
  destruct e as [c k| |x d|m es d|nm b k]; cbn [shell] in E.
  - inversion E; subst. rewrite keys_app in Hin. apply in_app_iff in Hin as [Hin|Hin]; apply in_or_app.
    + left. now apply keys_ser_kwds in Hin.
    + right. apply keys_json_type in Hin. destruct Hin as [<-|[]]. apply in_map. cbn; tauto.
  - discriminate.
  - inversion E; subst. apply in_or_app. right.
    destruct d; cbn [app keys map fst In] in Hin; repeat destruct Hin as [<-|Hin]; try contradiction; apply in_map; cbn; tauto.
  - inversion E; subst. apply in_or_app. right.
    destruct d, m; unfold mode_key in Hin; cbn [app keys map fst In] in Hin; repeat destruct Hin as [<-|Hin]; try contradiction; apply in_map; cbn; tauto.
  - inversion E; subst. rewrite keys_app in Hin. apply in_app_iff in Hin as [Hin|Hin]; apply in_or_app.
    + left. now apply keys_ser_kwds in Hin.
    + right. cbn [keys map fst In] in Hin. repeat destruct Hin as [<-|Hin]; try contradiction; apply in_map; cbn; tauto.
Qed.

(* ---- the statement ---- *)
Theorem doc_meaning_defs O cd classes fuel e :
  cd_okb cd classes fuel e = true -> e <> ENothing ->
  exists n0, forall n, n0 <= n ->
    exists R, resolve_doc n (ser_doc cd e classes) = Some R /\
              forall v, jwf v -> om (build O e (Some v)) (v6 O WCode R v).
Proof.
  intros H Hne. unfold cd_okb in H. set (DJ := defs_doc cd classes) in *.
  destruct (nodes_all fuel (e :: map snd cd)) as [ns|] eqn:En; [|discriminate].
  apply andb_true_iff in H as [H K2].
  apply andb_true_iff in H as [H K3]. apply andb_true_iff in H as [K5 K4].
  set (roots := e :: map snd cd) in *.
  set (node := fun y => exists r, In r roots /\ reach r y).
  assert (Hns : forall y, node y -> In y ns) by (intros y (r & Hr & Hy); exact (nodes_all_sound fuel roots ns En r y Hr Hy)).
  assert (Groot : forall r, In r roots -> goodc r).
  { intros r [<-|Hr]; [exact (goodcb_sound fuel _ K5)|]. apply in_map_iff in Hr as ([key d] & <- & Hin).
    rewrite forallb_forall in K4. exact (goodcb_sound fuel _ (K4 _ Hin)). }
  assert (Hchild : forall y x, node y -> In x (children y) -> node x).
  { intros y x (r & Hr & Hy) Hx. exists r. split; [exact Hr|exact (reach_snoc r y x Hy Hx)]. }
  assert (Hdef : forall key d, In (key, d) cd -> node d).
  { intros key d Hin. exists d. split; [right; apply in_map_iff; exists (key, d); auto|apply reach_refl]. }
  assert (Hgood : forall y, node y -> goodc y).
  { intros y (r & Hr & Hy). exact (goodc_reach r y (Groot r Hr) Hy). }
  assert (Hcls : forall y n b k, node y -> In (EObj n b k) (children y) -> lookup n DJ = Some (serD cd (EObj n b k))).
  { intros y n b k Hy Hx. rewrite forallb_forall in K3. specialize (K3 y (Hns y Hy)). rewrite forallb_forall in K3.
    specialize (K3 _ Hx). cbn beta iota in K3. unfold has_doc in K3. fold DJ in K3.
    destruct (lookup n DJ) as [j|]; [|discriminate]. apply json_eqb_eq in K3. now subst. }
  assert (Hkey : forall key d, In (key, d) cd -> lookup key DJ = Some (serD cd d)).
  { intros key d Hin. rewrite forallb_forall in K2. specialize (K2 _ Hin). unfold has_doc in K2. cbn [fst snd] in K2. fold DJ in K2.
    destruct (lookup key DJ) as [j|]; [|discriminate]. apply json_eqb_eq in K2. now subst. }
  assert (Hdepth : forall key d c m, In (key, d) cd -> node c -> elem_eq d c = true -> dle m c -> dle m d).
  { intros key d c m _ _ He Hd. exact (dle_eq m d c He Hd). }
  assert (Ne : node e) by (exists e; split; [now left|apply reach_refl]).
  destruct (dle_exists e) as (m0 & Hm0).
  destruct (resolve_top O cd DJ node Hchild Hdef Hgood Hcls Hkey Hdepth m0 e Ne Hm0) as (n0 & Hres).
  exists n0. intros n Hn. destruct (Hres n Hn) as (R & ER & (Hs & Hf & _)). exists R. split.
  - assert (Hb : exists body, serD cd e = JObj body).
    { destruct e; try (eexists; reflexivity). congruence. }
    destruct Hb as (body & Eb).
    pose proof (shell_keys_nodefs (subD cd) e body) as Hnd. rewrite <- serD_shell in Hnd. specialize (Hnd Eb).
    unfold ser_doc. change (ser_top true true cd e) with (serD cd e). rewrite Eb.
    change (dict_of_pairs _) with DJ.
    unfold resolve_doc. rewrite lookup_app, remove_key_app, (remove_key_absent _ body Hnd).
    assert (El : lookup (s_ "definitions") body = None) by (now apply lookup_None).
    rewrite El. rewrite Eb in ER. destruct DJ as [|d0 dr] eqn:Edj.
    + cbn [lookup remove_key app]. rewrite app_nil_r. exact ER.
    + cbn [lookup remove_key]. rewrite str_eqb_refl. cbn [app]. rewrite app_nil_r. exact ER.
  - intros v Hv. rewrite (Hf v Hv). exact (ser_inl_meaning O e (proj1 (Hgood e Ne)) v Hv).
Qed.
