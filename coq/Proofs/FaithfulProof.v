(* FaithfulProof.v — C04 (partial): what an accepted value comes back as, for scalars, numbers
   and arrays, at the level of one element (the recursive composition through objects and
   compositions is covered by the correspondence run, not proved). *)
From Coq Require Import Lia.
From Statham.Model Require Import Str Json Elem PyNum Validate.
From Statham.Proofs Require Import StrFacts ValidateFacts.

Definition scalar (v : json) : bool :=
  match v with JArr _ | JObj _ => false | _ => true end.

(* scalars come back unaltered from every class except Number *)
Theorem scalar_unaltered O c k v r : scalar v = true -> c <> CNumber ->
  build O (EK c k) (Some v) = Ok r -> r = rv_of_json v.
Proof.
  intros Hs Hc H. cbn [build with_default] in H.
  destruct (negb (type_ok c v)); [discriminate|].
  destruct (vand (scalar_validators O k v) (deep_validators O (build O) k v)); try discriminate.
  destruct c, v; simpl in *; try discriminate; try congruence.
Qed.

(* an integer accepted by a number schema comes back as float(int); a float as itself *)
Theorem number_result O k v r : build O (EK CNumber k) (Some v) = Ok r ->
  match v with
  | JInt z => exists f, py_float_of_int z = PVal f /\ r = RFlt f
  | JFlt f => r = RFlt f
  | _ => False
  end.
Proof.
  intros H. cbn [build with_default] in H.
  destruct v; simpl in H; try discriminate;
    destruct (vand (scalar_validators O k _) (deep_validators O (build O) k _)); try discriminate.
  - destruct (py_float_of_int z) as [f|x]; [|discriminate]. exists f. split; congruence.
  - congruence.
Qed.

Lemma collect_pass_length {K} (l : list (K * outcome)) rs : collect l = (VPass, rs) -> length rs = length l.
Proof.
  revert rs. induction l as [|[k o] l IH]; intros rs H; simpl in *; [now inversion H|].
  destruct (collect l) as [s rs'] eqn:E. destruct o.
  - inversion H; subst. simpl. f_equal. now apply IH.
  - destruct s; discriminate.
  - discriminate.
Qed.

Lemma tuple_outs_length B rest its : forall l, length (tuple_outs B rest its l) = length l.
Proof.
  induction its as [|ie ir IH]; intros l; [simpl; now rewrite map_length|].
  destruct l as [|x xr]; simpl; [reflexivity|]. now rewrite IH.
Qed.

(* arrays keep their length (items are rebuilt one by one, in order) *)
Theorem build_items_length B k l out : build_items B k l = (VPass, out) -> length out = length l.
Proof.
  unfold build_items. intros H.
  match type of H with (let '(s, rs0) := collect ?outs in _) = _ =>
    destruct (collect outs) as [s rs0] eqn:E; assert (Hl : length outs = length l) end.
  { destruct (k_items k) as [[ie|its]|]; [now rewrite map_length| |now rewrite map_length]. apply tuple_outs_length. }
  inversion H; subst. rewrite map_length. rewrite (collect_pass_length _ _ E). exact Hl.
Qed.

Theorem array_keeps_length O c k l r : c <> CNumber ->
  build O (EK c k) (Some (JArr l)) = Ok r -> exists rs, r = RList rs /\ length rs = length l.
Proof.
  intros Hc H. cbn [build with_default] in H.
  destruct (negb (type_ok c (JArr l))); [discriminate|].
  destruct (vand (scalar_validators O k (JArr l)) (deep_validators O (build O) k (JArr l))); try discriminate.
  destruct c; try congruence;
    (destruct (build_items (build O) k l) as [s rs] eqn:E; destruct s; try discriminate;
     exists rs; split; [congruence|now apply (build_items_length (build O) k l)]).
Qed.

(* with no items keyword the items come back exactly as Element() builds them *)
Theorem array_no_items O c k l r : c <> CNumber -> k_items k = None ->
  build O (EK c k) (Some (JArr l)) = Ok r -> r = RList (map build_any l).
Proof.
  intros Hc Hi H. cbn [build with_default] in H.
  destruct (negb (type_ok c (JArr l))); [discriminate|].
  destruct (vand (scalar_validators O k (JArr l)) (deep_validators O (build O) k (JArr l))); try discriminate.
  destruct c; try congruence; rewrite (build_items_none (build O) k l Hi) in H; congruence.
Qed.

