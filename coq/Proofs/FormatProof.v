(* FormatProof.v — C16: the registry behaves as "last registration wins", and a format
   keyword rejects exactly the strings the registered checker refuses. *)
From Statham.Model Require Import Str Json Elem PyNum Validate Format.
From Statham.Proofs Require Import StrFacts ValidateFacts.

Lemma lookup_dict_set {A} k k' (v : A) r :
  lookup k (dict_set k' v r) = if str_eqb k k' then Some v else lookup k r.
Proof.
  induction r as [|[k2 v2] r IH]; simpl.
  - destruct (str_eqb k k'); reflexivity.
  - destruct (str_eqb_spec k' k2) as [->|Hn]; simpl.
    + destruct (str_eqb k k2); reflexivity.
    + destruct (str_eqb_spec k k2) as [->|Hn2].
      * destruct (str_eqb_spec k2 k') as [E|_]; [congruence|reflexivity].
      * exact IH.
Qed.

(* the state after a history answers lookups with the last registration *)
Lemma frun_lookup ops : forall r0 n, lookup n (fst (frun r0 ops)) = last_registered r0 ops n.
Proof.
  induction ops as [|[m f|m v] ops IH]; intros r0 n; simpl.
  - reflexivity.
  - specialize (IH (dict_set m f r0) n). destruct (frun (dict_set m f r0) ops); exact IH.
  - specialize (IH r0 n). destruct (frun r0 ops); exact IH.
Qed.

(* last_registered, unfolded from the newest operation backwards *)
Lemma last_registered_app r0 ops o n :
  last_registered r0 (ops ++ [o]) n =
  match o with
  | Register m f => if str_eqb n m then Some f else last_registered r0 ops n
  | Check _ _ => last_registered r0 ops n
  end.
Proof.
  revert r0; induction ops as [|[m' f'|m' v'] ops IH]; intros r0; simpl.
  - destruct o as [m f|m v]; simpl; [apply lookup_dict_set|reflexivity].
  - apply IH.
  - apply IH.
Qed.

Theorem registry_last_wins : forall ops r0 n v,
  fcheck (fst (frun r0 ops)) n v =
  match v with
  | JStr s => match last_registered r0 ops n with
              | Some f => (f s, false)
              | None => (true, true)
              end
  | _ => (true, false)
  end.
Proof.
  intros. unfold fcheck. destruct v; try reflexivity. now rewrite frun_lookup.
Qed.

Theorem reregister_replaces : forall ops r0 n f s,
  fcheck (fst (frun r0 (ops ++ [Register n f]))) n (JStr s) = (f s, false).
Proof.
  intros. rewrite registry_last_wins, last_registered_app, str_eqb_refl. reflexivity.
Qed.

Theorem other_names_untouched : forall ops r0 n m f v, n <> m ->
  fcheck (fst (frun r0 (ops ++ [Register m f]))) n v = fcheck (fst (frun r0 ops)) n v.
Proof.
  intros. rewrite !registry_last_wins, last_registered_app.
  destruct (str_eqb_spec n m); [congruence|reflexivity].
Qed.

Theorem checks_do_not_change_registry : forall r n v, fst (fstep r (Check n v)) = r.
Proof. reflexivity. Qed.

(* inside an element: String(format=n) and Element(format=n) *)
Theorem string_format_verdict : forall O n v,
  build O (EK CString (kfmt n)) (Some v) =
  match v with
  | JStr s => match fmt O n with
              | Some f => if f s then Ok (RStr s) else Rej
              | None => Ok (RStr s)
              end
  | _ => Rej
  end.
Proof.
  intros O n v. destruct v; try reflexivity.
  cbn. destruct (fmt O n) as [f|]; [destruct (f s)|]; reflexivity.
Qed.

Theorem element_format_verdict : forall O n v,
  accepts O (EK CElement (kfmt n)) v =
  match v with
  | JStr s => match fmt O n with Some f => f s | None => true end
  | _ => true
  end.
Proof.
  intros O n v. unfold accepts. destruct v as [|b|z|f|s|l|kvs]; try reflexivity.
  - cbn. destruct (fmt O n) as [f|]; [destruct (f s)|]; reflexivity.
  - cbn -[build_items]. rewrite build_items_none by reflexivity. reflexivity.
  - cbn -[build_members].
    pose proof (build_members_plain O (build O) (kfmt n) kvs eq_refl eq_refl eq_refl) as H.
    destruct (build_members _ _ _ _) as [s0 rs]. simpl in H. subst s0. reflexivity.
Qed.
