(* JsonInd.v — nested induction principle for json, and the hereditary closure used by
   proofs that recurse through "the schemas stored under a key of a schema". *)
From Statham.Model Require Import Str Json.

Section JsonInd.
  Variable P : json -> Prop.
  Hypothesis Hnull : P JNull.
  Hypothesis Hbool : forall b, P (JBool b).
  Hypothesis Hint : forall z, P (JInt z).
  Hypothesis Hflt : forall f, P (JFlt f).
  Hypothesis Hstr : forall s, P (JStr s).
  Hypothesis Harr : forall l, Forall P l -> P (JArr l).
  Hypothesis Hobj : forall kvs, Forall (fun kv => P (snd kv)) kvs -> P (JObj kvs).

  Fixpoint json_ind' (j : json) : P j :=
    match j with
    | JNull => Hnull
    | JBool b => Hbool b
    | JInt z => Hint z
    | JFlt f => Hflt f
    | JStr s => Hstr s
    | JArr l =>
      Harr l ((fix go (l : list json) : Forall P l :=
                 match l with
                 | [] => Forall_nil _
                 | x :: r => Forall_cons _ (json_ind' x) (go r)
                 end) l)
    | JObj kvs =>
      Hobj kvs ((fix go (l : list (str * json)) : Forall (fun kv => P (snd kv)) l :=
                   match l with
                   | [] => Forall_nil _
                   | (k, v) :: r => Forall_cons (k, v) (json_ind' v) (go r)
                   end) kvs)
    end.
End JsonInd.

(* Hereditary closure: the predicate holds of j, of every member/item of j, and of
   every member/item of those (schemas stored in the container under a keyword). *)
Section Her.
  Variable C : json -> Prop.
  Definition kids (j : json) : list json :=
    match j with
    | JArr l => l
    | JObj kvs => map snd kvs
    | _ => []
    end.
  Definition Her (j : json) : Prop := C j /\ Forall C (kids j) /\ Forall (fun x => Forall C (kids x)) (kids j).

  Hypothesis step : forall j, Forall C (kids j) -> Forall (fun x => Forall C (kids x)) (kids j) -> C j.

  Lemma her_all : forall j, Her j.
  Proof.
    induction j using json_ind'; unfold Her; simpl.
    1-5: (split; [apply step; simpl; constructor | split; constructor]).
    - assert (Hk : Forall C l) by (eapply Forall_impl; [|exact H]; intros a (Ha & _); exact Ha).
      assert (Hg : Forall (fun x => Forall C (kids x)) l)
        by (eapply Forall_impl; [|exact H]; intros a (_ & Ha & _); exact Ha).
      split; [apply step; simpl; assumption | split; assumption].
    - assert (Hk : Forall C (map snd kvs)).
      { rewrite Forall_map. eapply Forall_impl; [|exact H]. intros a (Ha & _); exact Ha. }
      assert (Hg : Forall (fun x => Forall C (kids x)) (map snd kvs)).
      { rewrite Forall_map. eapply Forall_impl; [|exact H]. intros a (_ & Ha & _); exact Ha. }
      split; [apply step; simpl; assumption | split; assumption].
  Qed.

  Lemma C_all : forall j, C j.
  Proof. intro j; apply (her_all j). Qed.
End Her.
